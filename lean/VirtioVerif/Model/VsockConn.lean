import VirtioVerif.Model.Proto
import VirtioVerif.Model.Vsock
/-!
Model of `VsockConnectionManager` (`connectionmanager.rs`) on top of `VirtIOSocket` (`vsock.rs`)
and of the receive side of `OwningQueue::poll` (`queue/owning.rs`):

* the connection table (`connections: Vec<Connection>`, `swap_remove`) and `listening_ports`,
* local operations `listen`, `unlisten`, `connect`, `send`, `recv`, `recv_buffer_available_bytes`,
  `update_credit`, `shutdown`, `force_close`, `is_connection_established`, `is_local_port_used`, `poll`,
* peer packets as raw receive-queue completions (`inject`): used length, header, payload,
* "every received packet returns its buffer": `posted` counts the receive buffers the device owns.

Assumption (environment): the transmit queue accepts and completes every packet, so
`send_packet_to_tx_queue` returns `Ok`.
-/
namespace VirtioVerif.VsockConn
open VirtioVerif VirtioVerif.Vsock

inductive EvType
  | connectionRequest
  | connected
  | disconnected (reset : Bool)
  | received (len : Nat)
  | creditRequest
  | creditUpdate
deriving DecidableEq, Repr

structure Event where
  src : Addr
  dst : Addr
  bufAlloc : Nat
  fwdCnt : Nat
  type : EvType
deriving DecidableEq, Repr

inductive Err
  | notConnected | connectionExists | peerSocketShutdown | insufficientBufferSpaceInPeer
  | outputBufferTooShort (n : Nat) | unknownOperation (op : Nat) | invalidOperation
  | unexpectedDataInPacket | bufferTooShort | ioError
deriving DecidableEq, Repr

structure Conn where
  info : Info
  ring : Ring
  established : Bool := false
  /-- `peer_requested_shutdown` -/
  peerShutdown : Bool := false
deriving DecidableEq, Repr

/-- `Connection::new` -/
def Conn.new (peer : Addr) (localPort cap : Nat) : Conn :=
  { info := Info.new peer localPort cap, ring := Ring.new cap }

/-- the identity of a connection: peer address and local port -/
structure Key where
  peer : Addr
  port : Nat
deriving DecidableEq, Repr

def Conn.key (c : Conn) : Key := ⟨c.info.dst, c.info.srcPort⟩

/-- the predicate of `get_connection` -/
def Conn.hasKey (k : Key) (c : Conn) : Bool := c.info.dst == k.peer && c.info.srcPort == k.port

/-- a completed receive buffer as the driver sees it: used length reported by the device, the
    header found in the first 44 bytes, the bytes following it -/
structure RawPkt where
  usedLen : Nat
  hdr : Hdr
  payload : List Byte
deriving DecidableEq, Repr

structure Mgr where
  guestCid : Nat
  /-- `per_connection_buffer_capacity` -/
  cap : Nat
  /-- `RX_BUFFER_SIZE` -/
  rxBufSize : Nat
  /-- `QUEUE_SIZE` (observed by the harness from `queue_set`) -/
  queueSize : Nat
  conns : List Conn := []
  listening : List Nat := []
  /-- used receive buffers the driver has not polled yet, oldest first -/
  rxUsed : List RawPkt := []
  /-- receive buffers currently owned by the device (available or being filled) -/
  posted : Nat
deriving Repr

def Mgr.init (cid cap rxBufSize queueSize : Nat) : Mgr :=
  { guestCid := cid, cap := cap, rxBufSize := rxBufSize, queueSize := queueSize, posted := queueSize }

inductive Res
  | unit | none | event (e : Event) | bytes (l : List Byte) | num (n : Nat) | bool (b : Bool)
  | err (e : Err) | panic
deriving DecidableEq, Repr

structure Out where
  res : Res
  /-- headers of the packets put on the transmit queue by this operation, in order -/
  tx : List Hdr := []
deriving DecidableEq, Repr

/-- first element satisfying `p` is replaced by `f` of it (what `find` + `&mut` does) -/
def updFirst (p : Conn → Bool) (f : Conn → Conn) : List Conn → List Conn
  | [] => []
  | c :: cs => if p c then f c :: cs else c :: updFirst p f cs

/-- `swap_remove(index of the first element satisfying p)`: that element is replaced by the last
    element of the vector, which is removed from the end -/
def removeSwap (p : Conn → Bool) : List Conn → List Conn
  | [] => []
  | c :: cs =>
    if p c then
      match cs.getLast? with
      | none => []
      | some l => l :: cs.dropLast
    else c :: removeSwap p cs

def Mgr.lookup (m : Mgr) (k : Key) : Option Conn := m.conns.find? (Conn.hasKey k)

/-! ### local operations -/

def listen (m : Mgr) (port : Nat) : Mgr :=
  if m.listening.contains port then m else { m with listening := m.listening ++ [port] }

def unlisten (m : Mgr) (port : Nat) : Mgr :=
  { m with listening := m.listening.filter (· != port) }

def connect (m : Mgr) (k : Key) : Mgr × Out :=
  if m.conns.any (Conn.hasKey k) then (m, { res := .err .connectionExists }) else
  let c := Conn.new k.peer k.port m.cap
  ({ m with conns := m.conns ++ [c] },
   { res := .unit, tx := [c.info.ctlHeader m.guestCid VsockSpec.OP_REQUEST] })

def send (m : Mgr) (k : Key) (len : Nat) : Mgr × Out :=
  match m.lookup k with
  | none => (m, { res := .err .notConnected })
  | some c =>
    if c.peerShutdown then (m, { res := .err .peerSocketShutdown }) else
    let s := c.info.send m.guestCid len
    ({ m with conns := updFirst (Conn.hasKey k) (fun c => { c with info := s.info }) m.conns },
     { res := if s.accepted then .unit else .err .insufficientBufferSpaceInPeer, tx := s.tx })

def recv (m : Mgr) (k : Key) (n : Nat) : Mgr × Out :=
  match m.lookup k with
  | none => (m, { res := .err .notConnected })
  | some c =>
    match c.ring.drain? n with
    | none => (m, { res := .panic })
    | some (ring', out) =>
      let info' := c.info.doneForwarding out.length
      if c.peerShutdown && ring'.isEmpty then
        ({ m with conns := removeSwap (Conn.hasKey k) m.conns },
         { res := .bytes out, tx := [info'.ctlHeader m.guestCid VsockSpec.OP_RST] })
      else
        ({ m with conns := updFirst (Conn.hasKey k) (fun c => { c with info := info', ring := ring' }) m.conns },
         { res := .bytes out })

def recvAvailable (m : Mgr) (k : Key) : Out :=
  match m.lookup k with
  | none => { res := .err .notConnected }
  | some c => { res := .num c.ring.used }

def updateCredit (m : Mgr) (k : Key) : Out :=
  match m.lookup k with
  | none => { res := .err .notConnected }
  | some c =>
    if c.peerShutdown then { res := .err .peerSocketShutdown } else
    { res := .unit, tx := [c.info.ctlHeader m.guestCid VsockSpec.OP_CREDIT_UPDATE] }

def shutdown (m : Mgr) (k : Key) : Out :=
  match m.lookup k with
  | none => { res := .err .notConnected }
  | some c => { res := .unit, tx := [c.info.shutdownHeader m.guestCid] }

def forceClose (m : Mgr) (k : Key) : Mgr × Out :=
  match m.lookup k with
  | none => (m, { res := .err .notConnected })
  | some c =>
    ({ m with conns := removeSwap (Conn.hasKey k) m.conns },
     { res := .unit, tx := [c.info.ctlHeader m.guestCid VsockSpec.OP_RST] })

def isEstablished (m : Mgr) (k : Key) : Out :=
  match m.lookup k with
  | none => { res := .err .notConnected }
  | some c => { res := .bool c.established }

def isLocalPortUsed (m : Mgr) (port : Nat) : Bool :=
  m.listening.contains port || m.conns.any (·.info.srcPort == port)

/-! ### receive path -/

/-- `VsockEvent::from_header` -/
def decodeEvent (h : Hdr) : Except Err Event :=
  let mk (t : EvType) : Event :=
    { src := ⟨h.srcCid, h.srcPort⟩, dst := ⟨h.dstCid, h.dstPort⟩, bufAlloc := h.bufAlloc,
      fwdCnt := h.fwdCnt, type := t }
  let empty (t : EvType) : Except Err Event :=
    if h.len = 0 then .ok (mk t) else .error .unexpectedDataInPacket
  if h.op > 7 then .error (.unknownOperation h.op)
  else if h.op = 1 then empty .connectionRequest
  else if h.op = 2 then empty .connected
  else if h.op = 3 then empty (.disconnected true)
  else if h.op = 4 then empty (.disconnected false)
  else if h.op = 5 then .ok (mk (.received h.len))
  else if h.op = 6 then empty .creditUpdate
  else if h.op = 7 then empty .creditRequest
  else .error .invalidOperation

def setConns (m : Mgr) (cs : List Conn) : Mgr := { m with conns := cs }

/-- the part of `VsockConnectionManager::poll` that runs once the event is attached to connection
    `c` (already in `conns`, first match of `k`): `update_for_event`, ring-buffer copy, then the
    event dispatch -/
def dispatch (m : Mgr) (conns : List Conn) (k : Key) (c : Conn) (ev : Event) (body : List Byte) : Mgr × Out :=
  let isCu := ev.type == EvType.creditUpdate
  let c1 := { c with info := c.info.updateForEvent ev.bufAlloc ev.fwdCnt isCu }
  let put (c' : Conn) : List Conn := updFirst (Conn.hasKey k) (fun _ => c') conns
  match ev.type with
  | .received len =>
    match c1.ring.add? body with
    | none => (setConns m conns, { res := .panic })
    | some (_, false) => (setConns m (put c1), { res := .err (.outputBufferTooShort len) })
    | some (ring', true) => (setConns m (put { c1 with ring := ring' }), { res := .event ev })
  | .connectionRequest =>
    if m.listening.contains ev.dst.port then
      (setConns m (put { c1 with established := true }),
       { res := .event ev, tx := [c1.info.ctlHeader m.guestCid VsockSpec.OP_RESPONSE] })
    else
      (setConns m (removeSwap (Conn.hasKey k) conns),
       { res := .none, tx := [c1.info.ctlHeader m.guestCid VsockSpec.OP_RST] })
  | .connected => (setConns m (put { c1 with established := true }), { res := .event ev })
  | .disconnected reset =>
    if c1.ring.isEmpty then
      (setConns m (removeSwap (Conn.hasKey k) conns),
       { res := .event ev, tx := if reset then [] else [c1.info.ctlHeader m.guestCid VsockSpec.OP_RST] })
    else (setConns m (put { c1 with peerShutdown := true }), { res := .event ev })
  | .creditRequest =>
    (setConns m (put c1), { res := .none, tx := [c1.info.ctlHeader m.guestCid VsockSpec.OP_CREDIT_UPDATE] })
  | .creditUpdate => (setConns m (put c1), { res := .event ev })

/-- the key an event names -/
def Event.key (ev : Event) : Key := ⟨ev.src, ev.dst.port⟩

/-- handler of one completed receive buffer (`OwningQueue::pop` length check, `read_header_and_body`,
    `VsockEvent::from_header`, `VsockConnectionManager::poll`) -/
def pollPkt (m : Mgr) (p : RawPkt) : Mgr × Out :=
  if p.usedLen > m.rxBufSize then (m, { res := .err .ioError }) else
  if p.usedLen < VsockSpec.hdrSize then (m, { res := .err .bufferTooShort }) else
  if VsockSpec.hdrSize + p.hdr.len > p.usedLen then (m, { res := .err .bufferTooShort }) else
  let body := p.payload.take p.hdr.len
  match decodeEvent p.hdr with
  | .error e => (m, { res := .err e })
  | .ok ev =>
    let k := ev.key
    let found := if ev.dst.cid == m.guestCid then m.lookup k else none
    match found with
    | some c => dispatch m m.conns k c ev body
    | none =>
      if ev.type == EvType.connectionRequest then
        if ev.dst.cid != m.guestCid then (m, { res := .none }) else
        let c := Conn.new ev.src ev.dst.port m.cap
        dispatch m (m.conns ++ [c]) k c ev body
      else (m, { res := .none })

/-- the device completes one receive buffer with packet `p` -/
def inject (m : Mgr) (p : RawPkt) : Mgr :=
  { m with rxUsed := m.rxUsed ++ [p], posted := m.posted - 1 }

/-- `VsockConnectionManager::poll`: at most one used buffer is handled, and it is given back to the
    device whatever the handler returned (not if it panicked) -/
def poll (m : Mgr) : Mgr × Out :=
  match m.rxUsed with
  | [] => (m, { res := .none })
  | p :: rest =>
    let (m', out) := pollPkt { m with rxUsed := rest } p
    if out.res == Res.panic then (m', out) else ({ m' with posted := m'.posted + 1 }, out)

/-! ### operations as data (for trace theorems) -/

inductive Op
  | listen (port : Nat) | unlisten (port : Nat)
  | connect (k : Key) | send (k : Key) (len : Nat) | recv (k : Key) (n : Nat)
  | recvAvailable (k : Key) | updateCredit (k : Key) | shutdown (k : Key) | forceClose (k : Key)
  | isEstablished (k : Key)
  | inject (p : RawPkt) | poll
deriving Repr

def step (m : Mgr) : Op → Mgr × Out
  | .listen p => (listen m p, { res := .unit })
  | .unlisten p => (unlisten m p, { res := .unit })
  | .connect k => connect m k
  | .send k len => send m k len
  | .recv k n => recv m k n
  | .recvAvailable k => (m, recvAvailable m k)
  | .updateCredit k => (m, updateCredit m k)
  | .shutdown k => (m, shutdown m k)
  | .forceClose k => forceClose m k
  | .isEstablished k => (m, isEstablished m k)
  | .inject p => (inject m p, { res := .unit })
  | .poll => poll m

def run (m : Mgr) : List Op → Mgr
  | [] => m
  | op :: ops => run (step m op).1 ops

/-! ### low-level world: a caller-managed `ConnectionInfo` used with `VirtIOSocket` directly -/

structure Low where
  guestCid : Nat := 0
  info : Info := { dst := ⟨0, 0⟩, srcPort := 0 }
deriving Repr

/-! ### line protocol -/

def hexByte (n : Nat) : String := String.ofList [Proto.hexDigit (n / 16 % 16), Proto.hexDigit (n % 16)]

def hexBytes (l : List Nat) : String := String.join (l.map hexByte)

def hexVal (c : Char) : Nat :=
  if c.isDigit then c.toNat - '0'.toNat
  else if 'a' ≤ c ∧ c ≤ 'f' then c.toNat - 'a'.toNat + 10
  else if 'A' ≤ c ∧ c ≤ 'F' then c.toNat - 'A'.toNat + 10 else 0

def parseHexAux : List Char → List Byte
  | a :: b :: rest => UInt8.ofNat (hexVal a * 16 + hexVal b) :: parseHexAux rest
  | _ => []

def parseHex (s : String) : List Byte := if s == "-" then [] else parseHexAux s.toList

def bytesStr (l : List Byte) : String := if l.isEmpty then "-" else hexBytes (l.map (·.toNat))

def Hdr.str (h : Hdr) : String := hexBytes h.encode

def txStr (l : List Hdr) : String := if l.isEmpty then "-" else Proto.joinWith "," (l.map Hdr.str)

def EvType.str : EvType → String
  | .connectionRequest => "ConnectionRequest"
  | .connected => "Connected"
  | .disconnected true => "Disconnected(Reset)"
  | .disconnected false => "Disconnected(Shutdown)"
  | .received n => s!"Received({n})"
  | .creditRequest => "CreditRequest"
  | .creditUpdate => "CreditUpdate"

def Event.str (e : Event) : String :=
  s!"ev(src={e.src.cid}:{e.src.port},dst={e.dst.cid}:{e.dst.port},ba={e.bufAlloc},fc={e.fwdCnt},{e.type.str})"

def Err.str : Err → String
  | .notConnected => "NotConnected"
  | .connectionExists => "ConnectionExists"
  | .peerSocketShutdown => "PeerSocketShutdown"
  | .insufficientBufferSpaceInPeer => "InsufficientBufferSpaceInPeer"
  | .outputBufferTooShort n => s!"OutputBufferTooShort({n})"
  | .unknownOperation n => s!"UnknownOperation({n})"
  | .invalidOperation => "InvalidOperation"
  | .unexpectedDataInPacket => "UnexpectedDataInPacket"
  | .bufferTooShort => "BufferTooShort"
  | .ioError => "IoError"

def Res.str : Res → String
  | .unit => "ok"
  | .none => "none"
  | .event e => e.str
  | .bytes l => s!"ok {l.length} {bytesStr l}"
  | .num n => s!"ok {n}"
  | .bool b => s!"ok {b}"
  | .err e => s!"err {e.str}"
  | .panic => "panic"

def Out.str (o : Out) : String := s!"{o.res.str} tx={txStr o.tx}"

def keyOf (a : Proto.Args) : Key := ⟨⟨a.nat "pc", a.nat "pp"⟩, a.nat "lp"⟩

def hdrOf (a : Proto.Args) : Hdr :=
  { srcCid := a.nat "sc", srcPort := a.nat "sp", dstCid := a.nat "dc", dstPort := a.nat "dp",
    len := a.nat "len", type := a.nat "type", op := a.nat "op", flags := a.nat "flags",
    bufAlloc := a.nat "ba", fwdCnt := a.nat "fc" }

structure World where
  mgr : Mgr := Mgr.init 0 0 0 0
  low : Low := {}

def handle (w : World) (op : String) (a : Proto.Args) : World × String :=
  let m := w.mgr
  let withM (r : Mgr × Out) : World × String := ({ w with mgr := r.1 }, r.2.str)
  match op with
  | "new" => ({ w with mgr := Mgr.init (a.nat "cid") (a.nat "cap") (a.nat "rxbuf") (a.nat "qsize") }, "ok")
  | "listen" => ({ w with mgr := listen m (a.nat "port") }, "ok")
  | "unlisten" => ({ w with mgr := unlisten m (a.nat "port") }, "ok")
  | "portused" => (w, s!"ok {isLocalPortUsed m (a.nat "port")}")
  | "connect" => withM (connect m (keyOf a))
  | "send" => withM (send m (keyOf a) (a.nat "len"))
  | "recv" => withM (recv m (keyOf a) (a.nat "n"))
  | "avail" => (w, (recvAvailable m (keyOf a)).str)
  | "credit" => (w, (updateCredit m (keyOf a)).str)
  | "shutdown" => (w, (shutdown m (keyOf a)).str)
  | "close" => withM (forceClose m (keyOf a))
  | "established" => (w, (isEstablished m (keyOf a)).str)
  | "inject" =>
    let m' := inject m { usedLen := a.nat "used", hdr := hdrOf a, payload := parseHex (a.str "data" "-") }
    ({ w with mgr := m' }, s!"posted={m'.posted}")
  | "poll" =>
    let r := poll m
    ({ w with mgr := r.1 }, s!"{r.2.str} posted={r.1.posted}")
  -- low-level world
  | "l_new" =>
    ({ w with low := { guestCid := a.nat "cid",
                       info := Info.new ⟨a.nat "pc", a.nat "pp"⟩ (a.nat "lp") (a.nat "ba") } }, "ok")
  | "l_event" =>
    ({ w with low := { w.low with info := w.low.info.updateForEvent (a.nat "ba") (a.nat "fc") (a.nat "op" == 6) } }, "ok")
  | "l_fwd" =>
    ({ w with low := { w.low with info := w.low.info.doneForwarding (a.nat "n") } }, "ok")
  | "l_send" =>
    let s := w.low.info.send w.low.guestCid (a.nat "len")
    ({ w with low := { w.low with info := s.info } },
     s!"{if s.accepted then "ok" else "err InsufficientBufferSpaceInPeer"} tx={txStr s.tx}")
  | "l_credit" => (w, s!"ok tx={txStr [w.low.info.ctlHeader w.low.guestCid VsockSpec.OP_CREDIT_UPDATE]}")
  | _ => (w, "bad-op")

end VirtioVerif.VsockConn
