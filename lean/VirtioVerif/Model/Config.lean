import VirtioVerif.Model.Proto
/-!
Model of device configuration space access.

* `access`: `read_config_space::<T>` / `write_config_space::<T>` of `MmioTransport`
  (`src/transport/mmio.rs`) and `PciTransport` (`src/transport/pci.rs`): alignment assertions,
  window presence, bounds check, and the individual bus accesses performed through `safe-mmio`
  (`read_unsafe`/`write_unsafe`: one access for sizes 1, 2, 4, 8, otherwise the greedy
  alignment-driven split of `read_slice`/`write_slice`).
* `readConsistent`: `Transport::read_consistent` (`src/transport/mod.rs`) as a loop over a *device
  schedule* — a function from time to (configuration, generation) — where every device-visible
  read (generation register or one configuration access) takes one unit of time.
* the five multi-field reads of the drivers as closures (`Prog`) over that loop.
-/
namespace VirtioVerif.Config
open VirtioVerif

/-! ### bounds-checked access -/

inductive Kind | mmio | pci
deriving DecidableEq, Repr

/-- the configuration window of a transport.
`mmio`: the bytes behind the register block, `len = mmio_size - 0x100`, always present (possibly empty).
`pci`: `config_space: Option<[u32]>`; present iff a device-config capability was found;
`len = 4 * (cap.length / 4)`. -/
structure Win where
  kind : Kind
  present : Bool
  len : Nat
deriving DecidableEq, Repr

inductive Outcome
  /-- success; the bus accesses `(offset in the window, width in bytes)` in order -/
  | ok (acc : List (Nat × Nat))
  | tooSmall
  | missing
  | panic
deriving DecidableEq, Repr

/-- `usize::MAX + 1` on the 64-bit targets the harness runs on -/
def USIZE : Nat := 2 ^ 64

/-- `MmioOps::read_slice` / `write_slice`: at each step the widest of 8/4/2/1 bytes that still
fits the remaining length *and* to which the current address is aligned. -/
def sliceChunks : (fuel addr off n : Nat) → List (Nat × Nat)
  | 0, _, _, _ => []
  | fuel + 1, addr, off, n =>
    if 8 ≤ n ∧ addr % 8 = 0 then (off, 8) :: sliceChunks fuel (addr + 8) (off + 8) (n - 8)
    else if 4 ≤ n ∧ addr % 4 = 0 then (off, 4) :: sliceChunks fuel (addr + 4) (off + 4) (n - 4)
    else if 2 ≤ n ∧ addr % 2 = 0 then (off, 2) :: sliceChunks fuel (addr + 2) (off + 2) (n - 2)
    else if 1 ≤ n then (off, 1) :: sliceChunks fuel (addr + 1) (off + 1) (n - 1)
    else []

/-- `MmioOps::read::<T>` / `write::<T>`: a single access for `size_of::<T>()` ∈ {1,2,4,8}
(whatever the alignment of the address), the slice split otherwise. `base` is the address of the
window start (only its residue modulo 8 matters). -/
def chunks (base off size : Nat) : List (Nat × Nat) :=
  if size = 1 ∨ size = 2 ∨ size = 4 ∨ size = 8 then [(off, size)]
  else sliceChunks size (base + off) off size

/-- `read_config_space::<T>(off)` / `write_config_space::<T>(off, _)` with `align = align_of::<T>()`,
`size = size_of::<T>()`. Order of the checks as in the code: both assertions, (PCI) presence, the
bounds comparison `len < off + size` whose addition is overflow-checked. -/
def access (w : Win) (base align size off : Nat) : Outcome :=
  if 4 < align then .panic
  else if off % align ≠ 0 then .panic
  else if w.kind = .pci ∧ w.present = false then .missing
  else if USIZE ≤ off + size then .panic
  else if w.len < off + size then .tooSmall
  else .ok (chunks base off size)

def Outcome.accesses : Outcome → List (Nat × Nat)
  | .ok l => l
  | _ => []

/-! ### `read_consistent` over a device schedule -/

/-- what the device exposes at one instant -/
structure DevState (σ : Type) where
  cfg : σ
  gen : Nat

/-- the closure given to `read_consistent`: a decision tree of configuration reads (the number and
position of later reads may depend on earlier values, as for the 9P mount tag) -/
inductive Prog (σ α : Type)
  | done (a : α)
  | read (sel : σ → Nat) (k : Nat → Prog σ α)

/-- runs the closure starting at time `t`; every read observes the device state of the current
instant and takes one unit of time. Returns the value and the time after the last read. -/
def Prog.run {σ α : Type} : Prog σ α → (Nat → DevState σ) → Nat → α × Nat
  | .done a, _, t => (a, t)
  | .read sel k, dev, t => (k (sel (dev t).cfg)).run dev (t + 1)

/-- the value the closure computes from one fixed configuration -/
def Prog.eval {σ α : Type} : Prog σ α → σ → α
  | .done a, _ => a
  | .read sel k, c => (k (sel c)).eval c

/-- `Transport::read_consistent`: `loop { before = gen(); r = f(); after = gen(); if before == after
{ break r } }`. `fuel` bounds the number of iterations (the Rust loop is unbounded); the result
carries the time after the final generation read. -/
def readConsistent {σ α : Type} (p : Prog σ α) (dev : Nat → DevState σ) : (fuel t : Nat) → Option (α × Nat)
  | 0, _ => none
  | fuel + 1, t =>
    let before := (dev t).gen
    let r := p.run dev (t + 1)
    let after := (dev r.2).gen
    if before = after then some (r.1, r.2 + 1) else readConsistent p dev fuel (r.2 + 1)

/-- What `read_consistent` observes through a *legacy* MMIO transport: the legacy register layout
has no ConfigGeneration register and `MmioTransport::read_config_generation` returns the constant 0
without touching the device, whatever the device does. -/
def legacyView {σ : Type} (dev : Nat → DevState σ) : Nat → DevState σ := fun t => ⟨(dev t).cfg, 0⟩

/-! ### the drivers' multi-field reads as closures over a byte-array configuration -/

inductive Err | tooSmall | missing | invalidParam
deriving DecidableEq, Repr

abbrev Bytes := List Nat

/-- little-endian value of `width` bytes at `off` -/
def le (c : Bytes) (off : Nat) : Nat → Nat
  | 0 => 0
  | w + 1 => c.getD off 0 + 256 * le c (off + 1) w

abbrev CProg := Prog Bytes (Except Err Nat)

/-- reads the listed chunks in order and assembles them little-endian relative to `off0` -/
def readChunks (off0 : Nat) : List (Nat × Nat) → Nat → (Nat → CProg) → CProg
  | [], acc, k => k acc
  | (o, w) :: rest, acc, k =>
    .read (fun c => le c o w) fun x => readChunks off0 rest (acc + x * 256 ^ (o - off0)) k

/-- one `read_config_space::<T>` inside a closure. `chunk = true`: the real transports (one
`Prog.read` per bus access); `chunk = false`: a transport that serves the whole field at once
(`ModelTransport`). An access that fails performs no read and ends the closure (`?`). -/
def field (w : Win) (base : Nat) (chunk : Bool) (align size off : Nat) (k : Nat → CProg) : CProg :=
  match access w base align size off with
  | .ok l => if chunk then readChunks off l 0 k else readChunks off [(off, size)] 0 k
  | .tooSmall => .done (.error .tooSmall)
  | .missing => .done (.error .missing)
  | .panic => .done (.error .invalidParam)   -- not reachable for the drivers' aligned fields

/-- block capacity and vsock guest CID: `u32` at 0, `u32` at 4, combined to 64 bits -/
def progU64 (w : Win) (base : Nat) (chunk : Bool) (swap : Bool := false) : CProg :=
  -- `swap`: the closure reads the upper half first (the order of the two reads is the driver's
  -- choice; the harness reports the order it observed on an undisturbed run)
  if swap then
    field w base chunk 4 4 4 fun hi => field w base chunk 4 4 0 fun lo => .done (.ok (lo + hi * 2 ^ 32))
  else
    field w base chunk 4 4 0 fun lo => field w base chunk 4 4 4 fun hi => .done (.ok (lo + hi * 2 ^ 32))

/-- console size: `cols: u16` at 0, `rows: u16` at 2 (canonical value `cols + 65536·rows`) -/
def progConsole (w : Win) (base : Nat) (chunk : Bool) (swap : Bool := false) : CProg :=
  if swap then
    field w base chunk 2 2 2 fun rows => field w base chunk 2 2 0 fun cols => .done (.ok (cols + rows * 2 ^ 16))
  else
    field w base chunk 2 2 0 fun cols => field w base chunk 2 2 2 fun rows => .done (.ok (cols + rows * 2 ^ 16))

/-- MAC address: one `[u8; 6]` at 0 (two bus accesses, 4 + 2 bytes, on a real transport) -/
def progMac (w : Win) (base : Nat) (chunk : Bool) : CProg :=
  field w base chunk 1 6 0 fun mac => .done (.ok mac)

/-- 9P mount tag: `tag_len: u16` at 0 (zero ⇒ `InvalidParam`), then `tag_len` single bytes from
offset 2; canonical value: `tag_len + 65536 · (bytes little-endian)` -/
def tagBytes (w : Win) (base : Nat) (chunk : Bool) (len : Nat) : (todo i acc : Nat) → CProg
  | 0, _, acc => .done (.ok (len + acc * 2 ^ 16))
  | todo + 1, i, acc => field w base chunk 1 1 (2 + i) fun b => tagBytes w base chunk len todo (i + 1) (acc + b * 256 ^ i)

def progTag (w : Win) (base : Nat) (chunk : Bool) : CProg :=
  field w base chunk 2 2 0 fun len =>
    if len = 0 then .done (.error .invalidParam) else tagBytes w base chunk len len 0 0

/-- a device that follows the generation contract: it switches to the next configuration of
`cfgs` (and bumps the generation, modulo `m`) immediately before serving the reads whose index is
listed in `at_` (a position may be listed several times). -/
def schedule (cfgs : List Bytes) (at_ : List Nat) (gen0 m : Nat) : Nat → DevState Bytes := fun t =>
  let n := (at_.filter (· ≤ t)).length
  ⟨cfgs.getD (min n (cfgs.length - 1)) [], (gen0 + n) % m⟩

/-- the same device, but cycling through `cfgs` for ever (configuration `k mod |cfgs|` after `k`
updates): used for *storms* — an update before each of a long run of reads, so that many successive
attempts of `read_consistent` are interrupted and the contents keep changing -/
def scheduleCyc (cfgs : List Bytes) (at_ : List Nat) (gen0 m : Nat) : Nat → DevState Bytes := fun t =>
  let n := (at_.filter (· ≤ t)).length
  ⟨cfgs.getD (n % cfgs.length) [], (gen0 + n) % m⟩

/-! ### line protocol -/

def Err.str : Err → String
  | .tooSmall => "ConfigSpaceTooSmall" | .missing => "ConfigSpaceMissing" | .invalidParam => "InvalidParam"

def accStr (write : Bool) (l : List (Nat × Nat)) : String :=
  if l.isEmpty then "-" else
  Proto.joinWith " " (l.map fun (o, w) => s!"{if write then "W" else "R"}{w * 8}@{Proto.toHex o}")

/-- the PCI window is a `[u32]` slice of `cap.length / 4` words (`get_bar_region_slice`) -/
def pciWindowLen (capLen : Nat) : Nat := 4 * (capLen / 4)

/-- `PciTransport::new` with respect to the device-config capability: a capability shorter than
one word is refused (`size_of::<u32>() > length` ⇒ `BarOffsetOutOfRange`) -/
def pciNewOk (present : Bool) (capLen : Nat) : Bool := !present || 4 ≤ capLen

def winOfArgs (a : Proto.Args) : Win :=
  let pci := a.str "kind" == "pci"
  { kind := if pci then .pci else .mmio, present := a.nat "present" 1 != 0,
    len := match a.nat? "caplen" with
      | some cl => if pci then pciWindowLen cl else a.nat "len"
      | none => a.nat "len" }

def cfgsOfArgs (a : Proto.Args) : List Bytes :=
  (List.range (a.nat "ncfg")).map fun i => a.nats s!"cfg{i}"

def handle (op : String) (a : Proto.Args) : String :=
  let w := winOfArgs a
  let base := a.nat "base"
  match op with
  | "access" =>
    match access w base (a.nat "align") (a.nat "size") (a.nat "off") with
    | .ok l => s!"ok {accStr (a.bool "w") l}"
    | .tooSmall => "err ConfigSpaceTooSmall"
    | .missing => "err ConfigSpaceMissing"
    | .panic =>
      -- `off + size` overflows `usize`: refused without an access, by the overflow check (panic) or,
      -- in a hardened implementation, by an error; the harness prints the same word for both
      if a.nat "align" ≤ 4 ∧ a.nat "off" % a.nat "align" = 0 ∧ USIZE ≤ a.nat "off" + a.nat "size" then "refused-overflow"
      else "panic"
  | "pci_new" => if pciNewOk (a.nat "present" != 0) (a.nat "caplen") then "ok" else "err BarOffsetOutOfRange"
  | "consistent" =>
    let chunk := a.str "gran" != "field"
    let p : CProg := match a.str "prog" with
      | "u64" => progU64 w base chunk (a.bool "swap")
      | "console" => progConsole w base chunk (a.bool "swap")
      | "mac" => progMac w base chunk
      | _ => progTag w base chunk
    let at_ := a.nats "at"
    -- `storm=k cyc=1`: an update before each of the first `k` reads, configurations cycling
    let at_ := if a.nat "storm" > 0 then List.range (a.nat "storm") else at_
    let dev := if a.bool "cyc" then scheduleCyc (cfgsOfArgs a) at_ (a.nat "gen0") (a.nat "m" (2 ^ 32))
               else schedule (cfgsOfArgs a) at_ (a.nat "gen0") (a.nat "m" (2 ^ 32))
    match readConsistent p dev (at_.length + 2) 0 with
    | none => "diverge"
    | some (.ok v, t) => s!"ok {Proto.toHex v} ticks={t + a.nat "extra"}"
    | some (.error e, t) => s!"err {e.str} ticks={t}"
  | _ => "bad-op"

end VirtioVerif.Config
