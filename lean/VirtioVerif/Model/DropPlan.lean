import VirtioVerif.Generated.DropPlan
/-!
Rust's drop rules as a small interpreter, applied to the *generated* struct field orders, `Drop`
bodies and constructor statement orders (`Generated.DropPlan`, regenerated from the driver sources
on every run).

* dropping a struct value: the explicit `Drop::drop` body first, then the fields in declaration order;
* leaving a function early (`?`): the live locals in reverse declaration order (parameters were
  declared first, so they go last); a value that was moved out of a local is not dropped again;
* `OwningQueue` (queue/owning.rs): `Drop::drop` frees the boxed buffers, then the field `queue`
  (its DMA regions) is dropped;
* `VirtQueue` has no `Drop`; its field `layout` owns one (legacy) or two (modern) `Dma` values,
  dropped in declaration order (`Dma::drop` = `dma_dealloc` with the stored triple);
* `MmioTransport`/`PciTransport`/the model transport: `Drop` resets the device.
-/
namespace VirtioVerif.DropPlan
open VirtioVerif.Generated.DropPlan

/-- one observable step of dropping a value -/
inductive Act
  | unset (q : Nat)                          -- `transport.queue_unset(q)` in a `Drop` body
  | reset                                    -- the transport value is dropped: device reset
  | dealloc (region pages : Nat) (ap : Bool) -- `Dma::drop`
  | freeBuf (posted : Bool)                  -- driver-owned heap buffer(s) freed; `posted`: still posted to the device
deriving DecidableEq, Repr

/-- a live local of a constructor: its number (declaration order) and what dropping it does -/
structure Local where
  id : Nat
  acts : List Act
deriving DecidableEq, Repr

/-- early return: live locals are dropped in reverse declaration order -/
def dropLocals (ls : List Local) : List Act := (ls.reverse.map (·.acts)).flatten

/-- a struct value: explicit `Drop::drop` body first, then the fields in declaration order -/
def dropStruct (d : Driver) (fieldActs : List (List Act)) : List Act :=
  (if d.hasDrop then d.dropUnset.map Act.unset else []) ++ fieldActs.flatten

def findLocal (ls : List Local) (id : Nat) : List Act :=
  match ls.find? (·.id == id) with
  | some l => l.acts
  | none => []

/-- moving a value out of a local: it is no longer dropped with the scope -/
def removeLocal (ls : List Local) (id : Nat) : List Local := ls.filter (·.id != id)

/-- `OwningQueue::new(queue)`: boxed buffers are posted; dropped before the queue memory -/
def owningActs (queueActs : List Act) : List Act := Act.freeBuf true :: queueActs

/-- every driver-owned buffer in scope is now posted to the device (conservative: a posting loop
    marks all boxed buffers / rx buffer arrays reachable from the constructor's scope) -/
def markPosted (a : List Act) : List Act :=
  a.map fun | .freeBuf _ => .freeBuf true | x => x

def markPostedLocals (ls : List Local) : List Local := ls.map fun l => { l with acts := markPosted l.acts }

/-- the field kind a local ends up in (through the struct literal), if any -/
def fieldKindOfLocal (d : Driver) (id : Nat) : Option FieldKind :=
  let inits : List (Option Nat) :=
    (d.body.flatMap (·.evs)).flatMap fun | .build i => i | _ => []
  match (inits.zip d.fields).find? (fun (i, _) => i == some id) with
  | some (_, k) => some k
  | none => none

/-- a local bound by a statement without resource events: driver-owned buffers if it initialises a
    `Box<…>` / rx-buffer-array field, otherwise nothing to release -/
def plainLocalActs (d : Driver) (id : Nat) : List Act :=
  match fieldKindOfLocal d id with
  | some .boxed => [.freeBuf false]
  | some .rxbufs => [.freeBuf false]
  | _ => []

end VirtioVerif.DropPlan
