import VirtioVerif.Model.PciBus
/-!
Model of the VirtIO PCI transport (`src/transport/pci.rs`): the capability scan of
`PciTransport::new`, `get_bar_region`/`get_bar_region_slice`, the resulting four windows, and the
`Transport` operations as ordered register accesses.

`Spec` part (from VirtIO 1.x §4.1.4.3, not from the code): `Spec.commonCfg`, the field table of
`struct virtio_pci_common_cfg`.

Arithmetic the property is about is modelled at its real width with an explicit overflow outcome
(`Err.panic`): the `u8` additions `capability.offset + k`, the `u64` sum `offset + length`, the
`u64` sum `bar_address + offset`.
-/
namespace VirtioVerif.PciCap
open VirtioVerif VirtioVerif.PciBus

/-! ## Spec: common configuration structure layout (VirtIO 1.x §4.1.4.3) -/
namespace Spec

structure Field where
  name : String
  off : Nat
  bits : Nat
deriving DecidableEq, Repr

/-- `struct virtio_pci_common_cfg` as the specification lists it -/
def commonCfg : List Field :=
  [⟨"device_feature_select", 0, 32⟩, ⟨"device_feature", 4, 32⟩, ⟨"driver_feature_select", 8, 32⟩,
   ⟨"driver_feature", 12, 32⟩, ⟨"config_msix_vector", 16, 16⟩, ⟨"num_queues", 18, 16⟩,
   ⟨"device_status", 20, 8⟩, ⟨"config_generation", 21, 8⟩, ⟨"queue_select", 22, 16⟩,
   ⟨"queue_size", 24, 16⟩, ⟨"queue_msix_vector", 26, 16⟩, ⟨"queue_enable", 28, 16⟩,
   ⟨"queue_notify_off", 30, 16⟩, ⟨"queue_desc", 32, 64⟩, ⟨"queue_driver", 40, 64⟩,
   ⟨"queue_device", 48, 64⟩]

/-- bytes of the structure (through `queue_device`) -/
def commonCfgSize : Nat := 56

def isField (off bits : Nat) : Bool := commonCfg.any fun f => f.off == off && f.bits == bits

def DEVICE_FEATURE_SELECT := 0
def DEVICE_FEATURE := 4
def DRIVER_FEATURE_SELECT := 8
def DRIVER_FEATURE := 12
def DEVICE_STATUS := 20
def CONFIG_GENERATION := 21
def QUEUE_SELECT := 22
def QUEUE_SIZE := 24
def QUEUE_ENABLE := 28
def QUEUE_NOTIFY_OFF := 30
def QUEUE_DESC := 32
def QUEUE_DRIVER := 40
def QUEUE_DEVICE := 48

end Spec

/-! ## `PciTransport::new` -/

/-- `VirtioCapabilityInfo` -/
structure CapInfo where
  bar : Nat
  offset : Nat
  length : Nat
deriving DecidableEq, Repr

inductive Err
  | invalidVendorId (v : Nat)
  | invalidDeviceId (d : Nat)
  | missingCommon
  | missingNotify
  | invalidMult (m : Nat)
  | missingIsr
  | unexpectedIoBar
  | barNotAllocated (bar : Nat)
  | barOffsetOutOfRange
  | misaligned (alignment : Nat)
  | pciInvalidBarType
  | panic
deriving DecidableEq, Repr

/-- `device_type(pci_device_id)`: the VirtIO device type number -/
def deviceType (id : Nat) : Option Nat :=
  if id = 0x1000 then some 1 else if id = 0x1001 then some 2 else if id = 0x1002 then some 13
  else if id = 0x1003 then some 3 else if id = 0x1004 then some 8 else if id = 0x1005 then some 4
  else if id = 0x1009 then some 9
  else if 0x1040 ≤ id then
    let v := id - 0x1040
    if v = 5 then some 13
    else if (1 ≤ v ∧ v ≤ 13) ∨ (16 ≤ v ∧ v ≤ 25) then some v
    else none
  else none

structure Scan where
  common : Option CapInfo := none
  notify : Option CapInfo := none
  isr : Option CapInfo := none
  device : Option CapInfo := none
  mult : Nat := 0
deriving DecidableEq, Repr

/-- body of the `for capability in root.capabilities(..)` loop; `.error tr` = `u8` overflow panic
    after the accesses `tr` -/
def scanCap (f : Fn) (s : Scan) (c : Cap) : Except (List Acc) (Scan × List Acc) :=
  if c.id ≠ 9 then .ok (s, []) else
  let capLen := c.priv % 256
  let cfgType := c.priv / 256 % 256
  if capLen < 16 then .ok (s, []) else
  -- `usize::from(capability.offset) + usize::from(cap_len) > 256`: the capability would extend past
  -- the end of configuration space
  if 256 < c.off + capLen then .ok (s, []) else
  if 255 < c.off + 4 then .error [] else
  let wb := f.read (c.off + 4)
  let t1 := [Acc.rd (c.off + 4) wb]
  if 255 < c.off + 8 then .error t1 else
  let wo := f.read (c.off + 8)
  let t2 := t1 ++ [Acc.rd (c.off + 8) wo]
  if 255 < c.off + 12 then .error t2 else
  let wl := f.read (c.off + 12)
  let t3 := t2 ++ [Acc.rd (c.off + 12) wl]
  let info : CapInfo := ⟨wb % 256, wo, wl⟩
  if 5 < info.bar then .ok (s, t3) else
  if cfgType = 1 ∧ s.common = none then .ok ({ s with common := some info }, t3)
  else if cfgType = 2 ∧ 20 ≤ capLen ∧ s.notify = none then
    if 255 < c.off + 16 then .error t3 else
    let wm := f.read (c.off + 16)
    .ok ({ s with notify := some info, mult := wm }, t3 ++ [Acc.rd (c.off + 16) wm])
  else if cfgType = 3 ∧ s.isr = none then .ok ({ s with isr := some info }, t3)
  else if cfgType = 4 ∧ s.device = none then .ok ({ s with device := some info }, t3)
  else .ok (s, t3)

def scanList (f : Fn) : List Cap → Scan → List Acc → Except (List Acc) (Scan × List Acc)
  | [], s, tr => .ok (s, tr)
  | c :: rest, s, tr =>
    let hdr := Acc.rd c.off (f.read c.off)
    match scanCap f s c with
    | .error t => .error (tr ++ [hdr] ++ t)
    | .ok (s', t) => scanList f rest s' (tr ++ [hdr] ++ t)

/-- a window handed to `mmio_phys_to_virt` -/
structure Win where
  paddr : Nat
  len : Nat
deriving DecidableEq, Repr

structure RegionOut where
  res : Except Err Win
  trace : List Acc
  fin : Fn

/-- `get_bar_region::<H, T, _>` with `size = size_of::<T>()`, `align = align_of::<T>()`.
    The HAL is assumed to map physical to virtual addresses preserving the offset within a
    (≥ `align`-aligned) page, so the alignment test is on the physical address. -/
def getBarRegion (f : Fn) (ci : CapInfo) (size align : Nat) : RegionOut :=
  -- `root.bars(device_function)?.get(bar).cloned().flatten()`: every BAR of the function is probed
  let bo := bars f
  match bo.res with
  | .error .panic => ⟨.error .panic, bo.trace, bo.fin⟩
  | .error .invalidBarType => ⟨.error .pciInvalidBarType, bo.trace, bo.fin⟩
  | .ok l =>
  match l.getD ci.bar none with
  | none => ⟨.error (.barNotAllocated ci.bar), bo.trace, bo.fin⟩
  | some (.io _ _) => ⟨.error .unexpectedIoBar, bo.trace, bo.fin⟩
  | some (.mem _ _ addr sz) =>
    if addr = 0 then ⟨.error (.barNotAllocated ci.bar), bo.trace, bo.fin⟩
    -- `u64::from(offset) + u64::from(length)`
    else if W64 ≤ ci.offset + ci.length then ⟨.error .panic, bo.trace, bo.fin⟩
    else if sz < ci.offset + ci.length ∨ ci.length < size then ⟨.error .barOffsetOutOfRange, bo.trace, bo.fin⟩
    -- `bar_address as PhysAddr + offset as PhysAddr`
    else if W64 ≤ addr + ci.offset then ⟨.error .panic, bo.trace, bo.fin⟩
    else
      let paddr := addr + ci.offset
      let tr := bo.trace ++ [Acc.p2v paddr ci.length]
      if paddr % align ≠ 0 then ⟨.error (.misaligned align), tr, bo.fin⟩
      else ⟨.ok ⟨paddr, ci.length⟩, tr, bo.fin⟩

structure Transport where
  devType : Nat
  common : Win
  notify : Win
  mult : Nat
  isr : Win
  device : Option Win
deriving DecidableEq, Repr

structure NewOut where
  res : Except Err Transport
  trace : List Acc
  fin : Fn

def COMMON_SIZE := 56
def COMMON_ALIGN := 8

/-- the scan part of `new`: vendor/device id checks and the capability loop -/
structure ScanOut where
  res : Except Err (Nat × Scan)
  trace : List Acc

def scan (f : Fn) : ScanOut :=
  let w0 := f.read 0
  let t0 := [Acc.rd 0 w0]
  let vendor := w0 % W16
  let device := w0 / W16 % W16
  if vendor ≠ 0x1af4 then ⟨.error (.invalidVendorId vendor), t0⟩ else
  match deviceType device with
  | none => ⟨.error (.invalidDeviceId device), t0⟩
  | some dt =>
    let t1 := t0 ++ [Acc.rd 4 (f.read 4)] ++ (if f.read 4 / W16 / 16 % 2 = 1 then [Acc.rd 0x34 (f.read 0x34)] else [])
    match scanList f (capabilities f.read) {} t1 with
    | .error t => ⟨.error .panic, t⟩
    | .ok (s, t) => ⟨.ok (dt, s), t⟩

/-- `PciTransport::new` -/
def newT (f : Fn) : NewOut :=
  let so := scan f
  match so.res with
  | .error e => ⟨.error e, so.trace, f⟩
  | .ok (dt, s) =>
    match s.common with
    | none => ⟨.error .missingCommon, so.trace, f⟩
    | some cc =>
    let r1 := getBarRegion f cc COMMON_SIZE COMMON_ALIGN
    match r1.res with
    | .error e => ⟨.error e, so.trace ++ r1.trace, r1.fin⟩
    | .ok wc =>
    match s.notify with
    | none => ⟨.error .missingNotify, so.trace ++ r1.trace, r1.fin⟩
    | some nc =>
    if s.mult % 2 ≠ 0 then ⟨.error (.invalidMult s.mult), so.trace ++ r1.trace, r1.fin⟩ else
    let r2 := getBarRegion r1.fin nc 2 2
    match r2.res with
    | .error e => ⟨.error e, so.trace ++ r1.trace ++ r2.trace, r2.fin⟩
    | .ok wn =>
    match s.isr with
    | none => ⟨.error .missingIsr, so.trace ++ r1.trace ++ r2.trace, r2.fin⟩
    | some ic =>
    let r3 := getBarRegion r2.fin ic 1 1
    match r3.res with
    | .error e => ⟨.error e, so.trace ++ r1.trace ++ r2.trace ++ r3.trace, r3.fin⟩
    | .ok wi =>
    match s.device with
    | none => ⟨.ok ⟨dt, wc, wn, s.mult, wi, none⟩, so.trace ++ r1.trace ++ r2.trace ++ r3.trace, r3.fin⟩
    | some dc =>
    let r4 := getBarRegion r3.fin dc 4 4
    match r4.res with
    | .error e => ⟨.error e, so.trace ++ r1.trace ++ r2.trace ++ r3.trace ++ r4.trace, r4.fin⟩
    | .ok wd => ⟨.ok ⟨dt, wc, wn, s.mult, wi, some wd⟩, so.trace ++ r1.trace ++ r2.trace ++ r3.trace ++ r4.trace, r4.fin⟩

/-! ## `impl Transport for PciTransport` -/

/-- a register access inside window `win` (0 common, 1 notify, 2 ISR, 3 device configuration) -/
inductive MAcc
  | r (bits win off val : Nat)
  | w (bits win off val : Nat)
deriving DecidableEq, Repr

inductive Op
  | deviceType
  | readFeatures
  | writeFeatures (v : Nat)
  | maxQueueSize (q : Nat)
  | notify (q : Nat)
  | getStatus
  | setStatus (s : Nat)
  | queueSet (q size desc drv dev : Nat)
  | queueUnset (q : Nat)
  | queueUsed (q : Nat)
  | ackInterrupt
  | configGeneration
  | readConfig (off width : Nat)
  | writeConfig (off width val : Nat)
  | drop
deriving DecidableEq, Repr

inductive OpRes
  | unit
  | val (v : Nat)
  | bool (b : Bool)
  | configSpaceMissing
  | configSpaceTooSmall
  | panic
deriving DecidableEq, Repr

/-- `DeviceStatus::from_bits_truncate`: defined flags 1, 2, 4, 8, 64, 128 -/
def truncStatus (v : Nat) : Nat := v % 16 + v / 64 % 4 * 64

/-- next value the device answers (script exhausted ⇒ 0), truncated to the access width -/
def nextRd (bits : Nat) : List Nat → Nat × List Nat
  | [] => (0, [])
  | v :: rest => (v % 2 ^ bits, rest)

/-- `Drop`: poll `device_status` until it reads as empty; fuel = script length + 1 suffices because
    an exhausted script answers 0 -/
def pollReset : Nat → List Nat → List MAcc
  | 0, _ => []
  | fuel + 1, script =>
    let (v, rest) := nextRd 8 script
    .r 8 0 Spec.DEVICE_STATUS v :: (if truncStatus v = 0 then [] else pollReset fuel rest)

open Spec in
def runOp (t : Transport) (op : Op) (script : List Nat) : List MAcc × OpRes :=
  match op with
  | .deviceType => ([], .val t.devType)
  | .readFeatures =>
    let (lo, s1) := nextRd 32 script
    let (hi, _) := nextRd 32 s1
    ([.w 32 0 DEVICE_FEATURE_SELECT 0, .r 32 0 DEVICE_FEATURE lo, .w 32 0 DEVICE_FEATURE_SELECT 1,
      .r 32 0 DEVICE_FEATURE hi], .val (lo + hi * W32))
  | .writeFeatures v =>
    ([.w 32 0 DRIVER_FEATURE_SELECT 0, .w 32 0 DRIVER_FEATURE (v % W32), .w 32 0 DRIVER_FEATURE_SELECT 1,
      .w 32 0 DRIVER_FEATURE (v / W32 % W32)], .unit)
  | .maxQueueSize q =>
    let (v, _) := nextRd 16 script
    ([.w 16 0 QUEUE_SELECT q, .r 16 0 QUEUE_SIZE v], .val v)
  | .notify q =>
    let (off, _) := nextRd 16 script
    let offsetBytes := off * t.mult
    let index := offsetBytes / 2
    let pre := [MAcc.w 16 0 QUEUE_SELECT q, .r 16 0 QUEUE_NOTIFY_OFF off]
    if index < t.notify.len / 2 then (pre ++ [.w 16 1 (index * 2) q], .unit) else (pre, .panic)
  | .getStatus =>
    let (v, _) := nextRd 8 script
    ([.r 8 0 DEVICE_STATUS v], .val (truncStatus v))
  | .setStatus s => ([.w 8 0 DEVICE_STATUS (s % 256)], .unit)
  | .queueSet q size desc drv dev =>
    ([.w 16 0 QUEUE_SELECT q, .w 16 0 QUEUE_SIZE (size % W16), .w 64 0 QUEUE_DESC desc, .w 64 0 QUEUE_DRIVER drv,
      .w 64 0 QUEUE_DEVICE dev, .w 16 0 QUEUE_ENABLE 1], .unit)
  | .queueUnset _ => ([], .unit)
  | .queueUsed q =>
    let (v, _) := nextRd 16 script
    ([.w 16 0 QUEUE_SELECT q, .r 16 0 QUEUE_ENABLE v], .bool (v == 1))
  | .ackInterrupt =>
    let (v, _) := nextRd 8 script
    ([.r 8 2 0 v], .val v)
  | .configGeneration =>
    let (v, _) := nextRd 8 script
    ([.r 8 0 CONFIG_GENERATION v], .val v)
  | .readConfig off width =>
    if 4 < width then ([], .panic) else
    if off % width ≠ 0 then ([], .panic) else
    match t.device with
    | none => ([], .configSpaceMissing)
    | some d =>
      if d.len / 4 * 4 < off + width then ([], .configSpaceTooSmall) else
      let (v, _) := nextRd (8 * width) script
      ([.r (8 * width) 3 off v], .val v)
  | .writeConfig off width val =>
    if 4 < width then ([], .panic) else
    if off % width ≠ 0 then ([], .panic) else
    match t.device with
    | none => ([], .configSpaceMissing)
    | some d =>
      if d.len / 4 * 4 < off + width then ([], .configSpaceTooSmall) else
      ([.w (8 * width) 3 off val], .unit)
  | .drop => (.w 8 0 DEVICE_STATUS 0 :: pollReset (script.length + 1) script, .unit)

/-! ## line protocol -/

def Err.str : Err → String
  | .invalidVendorId v => s!"InvalidVendorId({hx v})"
  | .invalidDeviceId d => s!"InvalidDeviceId({hx d})"
  | .missingCommon => "MissingCommonConfig"
  | .missingNotify => "MissingNotifyConfig"
  | .invalidMult m => s!"InvalidNotifyOffMultiplier({hx m})"
  | .missingIsr => "MissingIsrConfig"
  | .unexpectedIoBar => "UnexpectedIoBar"
  | .barNotAllocated b => s!"BarNotAllocated({b})"
  | .barOffsetOutOfRange => "BarOffsetOutOfRange"
  | .misaligned a => s!"Misaligned({a})"
  | .pciInvalidBarType => "Pci(InvalidBarType)"
  | .panic => "panic"

def Win.str (w : Win) : String := s!"{hx w.paddr}+{hx w.len}"

def Transport.str (t : Transport) : String :=
  s!"type={t.devType} common={t.common.str} notify={t.notify.str} mult={hx t.mult} isr={t.isr.str} device=" ++
    (match t.device with | none => "none" | some d => d.str)

def MAcc.str : MAcc → String
  | .r bits win off v => s!"R{bits}:P{win}+{hx off}={hx v}"
  | .w bits win off v => s!"W{bits}:P{win}+{hx off}={hx v}"

def OpRes.str : OpRes → String
  | .unit => "()"
  | .val v => hx v
  | .bool b => if b then "true" else "false"
  | .configSpaceMissing => "err ConfigSpaceMissing"
  | .configSpaceTooSmall => "err ConfigSpaceTooSmall"
  | .panic => "panic"

def opOfArgs (name : String) (a : Proto.Args) : Option Op :=
  match name with
  | "device_type" => some .deviceType
  | "read_features" => some .readFeatures
  | "write_features" => some (.writeFeatures (a.nat "v"))
  | "max_queue_size" => some (.maxQueueSize (a.nat "q"))
  | "notify" => some (.notify (a.nat "q"))
  | "get_status" => some .getStatus
  | "set_status" => some (.setStatus (a.nat "s"))
  | "queue_set" => some (.queueSet (a.nat "q") (a.nat "size") (a.nat "desc") (a.nat "drv") (a.nat "dev"))
  | "queue_unset" => some (.queueUnset (a.nat "q"))
  | "queue_used" => some (.queueUsed (a.nat "q"))
  | "ack_interrupt" => some .ackInterrupt
  | "config_generation" => some .configGeneration
  | "read_config" => some (.readConfig (a.nat "off") (a.nat "width"))
  | "write_config" => some (.writeConfig (a.nat "off") (a.nat "width") (a.nat "val"))
  | "drop" => some .drop
  | _ => none

/-- stateful handler: `new` installs the transport for the following `op` lines of the case -/
def handle (cur : Option Transport) (op : String) (a : Proto.Args) : Option Transport × String :=
  match op with
  | "new" =>
    let f := fnOfArgs a
    let o := newT f
    -- compared: the verdict, the windows requested from the platform (unordered group) and the final
    -- configuration state; the configuration accesses of `new` themselves are not (how often BARs are
    -- sized is not fixed by the property)
    let ps := (o.trace.filter fun a => match a with | .p2v .. => true | _ => false).map Acc.str
    let pstr := if ps.isEmpty then "-" else "{ " ++ Proto.joinWith " " ps ++ " }"
    match o.res with
    | .ok t => (some t, s!"ok {t.str} | {pstr} | {o.fin.stateStr}")
    | .error e => (none, s!"err {e.str} | {pstr} | {o.fin.stateStr}")
  | "op" =>
    match cur, opOfArgs (a.str "name") a with
    | some t, some o =>
      let (tr, r) := runOp t o (a.nats "rd")
      -- `queue_set`: the writes between the queue selection and the enabling write are printed as an
      -- unordered group (the comparison sorts inside `{ … }`): the property orders only select-first
      -- and enable-last
      let strs := tr.map MAcc.str
      let grouped := match o with
        | .queueSet .. =>
          if strs.length ≥ 3 then
            [strs.headD ""] ++ ["{"] ++ (strs.drop 1).take (strs.length - 2) ++ ["}"] ++ [strs.getLastD ""]
          else strs
        | _ => strs
      let ts := if tr.isEmpty then "-" else Proto.joinWith " " grouped
      (if o == .drop then none else cur, s!"{ts} => {r.str}")
    | _, _ => (cur, "bad-op")
  | _ => (cur, "bad-op")

end VirtioVerif.PciCap
