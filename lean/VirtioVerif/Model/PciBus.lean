import VirtioVerif.Model.Proto
/-!
Model of the generic PCI bus helpers (`src/transport/pci/bus.rs`):

* `Spec` part, written from the PCI Local Bus / PCIe base specification and *not* from the code:
  a reference PCI function at register level (`Fn`): command register with its writable bits,
  write-one-to-clear status bits, six BAR registers each with read-only low bits (`flags`) and
  writable address bits above the size exponent; `BarDecl` (what a function's designer declares:
  kind, prefetchability, size exponent, assigned address) and the registers it gives rise to.
* Model part: `barInfo` / `bars` (`PciRoot::bar_info`, `PciRoot::bars`) as the ordered list of
  configuration reads/writes they perform plus their result and the final function state;
  `camOffset` (`Cam::cam_offset`, both mechanisms, `none` = an `assert!` fires);
  `enumerate` (`BusDeviceIterator`); `capStart`/`capWalk` (`PciRoot::capabilities`,
  `CapabilityIterator` with its time-to-live of 48).

Bit operations of the code are written arithmetically (`x & 7` as `x % 8`, `x & !15` as
`x - x % 16`, `a | (b << 32)` as `a + b * 2^32` where the operands are disjoint, `!x + 1` on `u64`
as `(2^64 - x) % 2^64`); the correspondence check compares this against the real code.
-/
namespace VirtioVerif.PciBus
open VirtioVerif

def W16 : Nat := 65536
def W32 : Nat := 4294967296
def W64 : Nat := 18446744073709551616

/-! ## Spec: reference PCI function -/

/-- One 32-bit BAR register: the low `exp` bits are read-only and read as `flags`; bits `exp..31`
    are writable and currently hold `val`. `exp = 32`: nothing is writable. -/
structure BarReg where
  exp : Nat
  flags : Nat
  val : Nat
deriving DecidableEq, Repr, Inhabited

def BarReg.read (r : BarReg) : Nat := r.val + r.flags
/-- a write stores the writable bits only -/
def BarReg.write (r : BarReg) (d : Nat) : BarReg := { r with val := d / 2 ^ r.exp * 2 ^ r.exp }

/-- an unimplemented BAR: hard-wired zero -/
def BarReg.unimpl : BarReg := ⟨32, 0, 0⟩

/-- register-level well-formedness -/
def BarReg.Ok (r : BarReg) : Prop :=
  r.exp ≤ 32 ∧ r.flags < 2 ^ r.exp ∧ r.val % 2 ^ r.exp = 0 ∧ r.val < W32

/-- Command register bits a function implements (PCI 3.0 §6.2.2 / PCIe: bits 0–6 and 8–10; bit 7
    and bits 11–15 are reserved and hard-wired to zero). -/
def cmdWritable (v : Nat) : Nat := v % 128 + v / 256 % 8 * 256

/-- A PCI function's configuration space as a function of its state. -/
structure Fn where
  cmd : Nat
  status : Nat
  bars : Nat → BarReg
  /-- every other (read-only) word, by byte offset -/
  other : Nat → Nat

def isBarOff (off : Nat) : Bool := 16 ≤ off && off < 40 && off % 4 == 0

def Fn.read (f : Fn) (off : Nat) : Nat :=
  if off = 4 then f.status * W16 + f.cmd
  else if isBarOff off then (f.bars ((off - 16) / 4)).read
  else f.other off

def Fn.setBar (f : Fn) (i : Nat) (r : BarReg) : Fn :=
  { f with bars := fun j => if j = i then r else f.bars j }

/-- status bits 8, 11–15 are write-one-to-clear, the rest read-only -/
def Fn.setCmdStatus (f : Fn) (d : Nat) : Fn :=
  { f with cmd := cmdWritable (d % W16), status := f.status - (f.status &&& (d / W16) &&& 0xf900) }

def Fn.write (f : Fn) (off d : Nat) : Fn :=
  if off = 4 then f.setCmdStatus d
  else if isBarOff off then f.setBar ((off - 16) / 4) ((f.bars ((off - 16) / 4)).write d)
  else f

inductive BarKind | none | mem32 | below1M | mem64 | io | memRsvd
deriving DecidableEq, Repr, Inhabited

/-- What the designer of a function declares for one BAR and where software has placed it. -/
structure BarDecl where
  kind : BarKind
  pf : Bool
  exp : Nat
  addr : Nat
deriving DecidableEq, Repr, Inhabited

def pfBit (pf : Bool) : Nat := if pf then 8 else 0

/-- read-only low bits (PCI 3.0 §6.2.5.1): bit 0 = I/O space, bits 2:1 = memory type, bit 3 = prefetchable -/
def BarDecl.flags (d : BarDecl) : Nat :=
  match d.kind with
  | .none => 0
  | .mem32 => 0 + pfBit d.pf
  | .below1M => 2 + pfBit d.pf
  | .mem64 => 4 + pfBit d.pf
  | .memRsvd => 6 + pfBit d.pf
  | .io => 1

/-- the (lower) register of a declared BAR -/
def BarDecl.lowReg (d : BarDecl) : BarReg :=
  match d.kind with
  | .none => BarReg.unimpl
  | .mem64 => if d.exp < 32 then ⟨d.exp, d.flags, d.addr % W32⟩ else ⟨32, d.flags, 0⟩
  | _ => ⟨d.exp, d.flags, d.addr⟩

/-- the upper register of a 64-bit memory BAR -/
def BarDecl.highReg (d : BarDecl) : BarReg :=
  if d.exp < 32 then ⟨0, 0, d.addr / W32⟩ else ⟨d.exp - 32, 0, d.addr / W32⟩

def BarDecl.Ok (d : BarDecl) : Prop :=
  match d.kind with
  | .none => True
  | .io => 2 ≤ d.exp ∧ d.exp ≤ 31 ∧ d.addr % 2 ^ d.exp = 0 ∧ d.addr < W32
  | .mem64 => 4 ≤ d.exp ∧ d.exp ≤ 63 ∧ d.addr % 2 ^ d.exp = 0 ∧ d.addr < W64
  | _ => 4 ≤ d.exp ∧ d.exp ≤ 31 ∧ d.addr % 2 ^ d.exp = 0 ∧ d.addr < W32

/-- slot `i` holds the upper half of a 64-bit BAR that starts in slot `i - 1` -/
def isHigh (decl : Nat → BarDecl) : Nat → Bool
  | 0 => false
  | i + 1 => !isHigh decl i && (decl i).kind == .mem64

/-- register in slot `i` of a function whose BARs are declared by `decl` (a 64-bit BAR takes two slots) -/
def regAt (decl : Nat → BarDecl) (i : Nat) : BarReg :=
  match i with
  | 0 => (decl 0).lowReg
  | j + 1 => if isHigh decl (j + 1) then (decl j).highReg else (decl (j + 1)).lowReg

def mkFn (decl : Nat → BarDecl) (cmd status : Nat) (other : Nat → Nat) : Fn :=
  ⟨cmd, status, fun i => if i < 6 then regAt decl i else BarReg.unimpl, other⟩

/-! ## Model of `bus.rs` -/

inductive Acc
  | rd (off val : Nat)
  | wr (off val : Nat)
  /-- `Hal::mmio_phys_to_virt(paddr, size)` (used by the PCI transport model) -/
  | p2v (paddr size : Nat)
deriving DecidableEq, Repr

inductive MemType | w32 | below1M | w64
deriving DecidableEq, Repr

inductive BarInfo
  | mem (t : MemType) (pf : Bool) (addr size : Nat)
  | io (addr size : Nat)
deriving DecidableEq, Repr

inductive BErr | invalidBarType | panic
deriving DecidableEq, Repr

structure BarOut where
  res : Except BErr (Option BarInfo)
  trace : List Acc
  fin : Fn

/-- `Command::from_bits_truncate`: keeps the defined flags (bits 0–6, 8–10) -/
def truncCmd (v : Nat) : Nat := v % 128 + v / 256 % 8 * 256

/-- `MemoryBarType::try_from(((bar_orig & 6) >> 1) as u8)` -/
def memType (barOrig : Nat) : Option MemType :=
  match barOrig / 2 % 4 with
  | 0 => some .w32 | 1 => some .below1M | 2 => some .w64 | _ => none

/-- The result computation of `bar_info` from the four values it reads: the BAR's original value,
    the value read back after writing all-ones, and (64-bit only) the same two for the upper half. -/
def decode (barOrig m topOrig sizeTop64 : Nat) : Except BErr (Option BarInfo) :=
  let io := barOrig % 2 = 1
  let is64 := barOrig % 8 = 4
  let addrTop := if is64 then topOrig else 0
  let sizeTop := if is64 then sizeTop64 else if m = 0 then 0 else 0xffffffff
  let mask := m + sizeTop * W32
  let masked := if io then mask - mask % 4 else mask - mask % 16
  let size := (W64 - masked) % W64
  if mask = 0 then .ok none
  else if io then .ok (some (.io (barOrig - barOrig % 4) (size % W32)))
  else match memType barOrig with
    | some t => .ok (some (.mem t (barOrig / 8 % 2 == 1) (barOrig - barOrig % 16 + addrTop * W32) size))
    | none => .error .invalidBarType

/-- `PciRoot::bar_info(device_function, bar_index)` -/
def barInfo (f0 : Fn) (slot : Nat) : BarOut :=
  -- `BAR0_OFFSET + 4 * bar_index` is `u8` arithmetic
  if 255 < 16 + 4 * slot then ⟨.error .panic, [], f0⟩ else
  let o := 16 + 4 * slot
  let barOrig := f0.read o
  let is64 := barOrig % 8 = 4
  if is64 ∧ 5 ≤ slot then ⟨.error .invalidBarType, [.rd o barOrig], f0⟩ else
  let sc := f0.read 4
  let cmdOrig := truncCmd (sc % W16)
  let cmdDis := cmdOrig - cmdOrig % 4
  let f1 := if cmdDis ≠ cmdOrig then f0.write 4 cmdDis else f0
  let f2 := f1.write o 0xffffffff
  let m := f2.read o
  -- upper half of a 64-bit BAR
  let topOrig := f2.read (o + 4)
  let f3 := f2.write (o + 4) 0xffffffff
  let sizeTop64 := f3.read (o + 4)
  let f4 := if is64 then f3.write (o + 4) topOrig else f2
  let f5 := f4.write o barOrig
  let f6 := if cmdDis ≠ cmdOrig then f5.write 4 cmdOrig else f5
  let trace :=
    [Acc.rd o barOrig, .rd 4 sc] ++ (if cmdDis ≠ cmdOrig then [.wr 4 cmdDis] else [])
      ++ [.wr o 0xffffffff, .rd o m]
      ++ (if is64 then [.rd (o + 4) topOrig, .wr (o + 4) 0xffffffff, .rd (o + 4) sizeTop64, .wr (o + 4) topOrig] else [])
      ++ [.wr o barOrig] ++ (if cmdDis ≠ cmdOrig then [.wr 4 cmdOrig] else [])
  ⟨decode barOrig m topOrig sizeTop64, trace, f6⟩

def BarInfo.twoEntries : BarInfo → Bool
  | .mem .w64 _ _ _ => true
  | _ => false

structure BarsOut where
  res : Except BErr (List (Option BarInfo))   -- six entries on success
  trace : List Acc
  fin : Fn

/-- `PciRoot::bars`: the `while bar_index < 6` loop (fuel = 6 iterations at most); entries skipped
    because the previous one is 64-bit stay `None`. -/
def barsLoop (fuel : Nat) (f : Fn) (idx : Nat) (acc : List (Option BarInfo)) (tr : List Acc) : BarsOut :=
  match fuel with
  | 0 => ⟨.ok acc, tr, f⟩
  | fuel + 1 =>
    if 6 ≤ idx then ⟨.ok acc, tr, f⟩ else
    let o := barInfo f idx
    match o.res with
    | .error e => ⟨.error e, tr ++ o.trace, o.fin⟩
    | .ok info =>
      let two := match info with | some i => i.twoEntries | none => false
      let acc' := acc.set idx info
      barsLoop fuel o.fin (if two then idx + 2 else idx + 1) acc' (tr ++ o.trace)

def bars (f : Fn) : BarsOut := barsLoop 6 f 0 (List.replicate 6 none) []

/-- Replays a trace against the reference function: `none` if some read in the trace does not
    return what the function would return at that point. -/
def replay (f : Fn) : List Acc → Option Fn
  | [] => some f
  | .rd off v :: rest => if f.read off = v then replay f rest else none
  | .wr off v :: rest => replay (f.write off v) rest
  | .p2v _ _ :: rest => replay f rest

/-- every write to a BAR register in the trace happens while both decode bits of the command
    register are clear -/
def decodeOffAtBarWrites (f : Fn) : List Acc → Bool
  | [] => true
  | .rd _ _ :: rest => decodeOffAtBarWrites f rest
  | .wr off v :: rest => (!isBarOff off || f.cmd % 4 == 0) && decodeOffAtBarWrites (f.write off v) rest
  | .p2v _ _ :: rest => decodeOffAtBarWrites f rest

/-- only the command register and BAR registers are written -/
def writesOnlyCmdAndBars : List Acc → Bool
  | [] => true
  | .wr off _ :: rest => (off == 4 || isBarOff off) && writesOnlyCmdAndBars rest
  | _ :: rest => writesOnlyCmdAndBars rest

/-! ### CAM offsets -/

/-- `Cam::cam_offset`; `none` = one of the three `assert!`s fires. `bus`, `reg` are `u8` in the code. -/
def camOffset (ecam : Bool) (bus dev fn reg : Nat) : Option Nat :=
  if ¬ (dev < 32 ∧ fn < 8) then none else
  let bdf := bus * 256 + dev * 8 + fn
  let addr := bdf * (if ecam then 4096 else 256) + reg
  if ¬ addr < (if ecam then 0x10000000 else 0x1000000) then none
  else if addr % 4 ≠ 0 then none
  else some addr

/-! ### bus enumeration -/

structure Found where
  dev : Nat
  fn : Nat
  vendor : Nat
  device : Nat
  cls : Nat
  subclass : Nat
  progIf : Nat
  revision : Nat
  /-- `HeaderType::from(byte & 0x7f)` -/
  header : Nat
deriving DecidableEq, Repr

/-- `BusDeviceIterator`: probes device 0..31 × function 0..7 in order; `rd dev fn off` is the bus. -/
def probe (rd : Nat → Nat → Nat → Nat) (i : Nat) : Option Found :=
  let dev := i / 8
  let fn := i % 8
  let w := rd dev fn 0
  if w = 0xffffffff then none else
  let cr := rd dev fn 8
  let hw := rd dev fn 12
  some ⟨dev, fn, w % W16, w / W16 % W16, cr / 16777216 % 256, cr / W16 % 256, cr / 256 % 256, cr % 256,
    hw / W16 % 128⟩

def enumerate (rd : Nat → Nat → Nat → Nat) : List Found := (List.range 256).filterMap (probe rd)

/-- number of configuration reads the enumeration performs -/
def enumReads (rd : Nat → Nat → Nat → Nat) : Nat := 256 + 2 * (enumerate rd).length

/-! ### capability list -/

structure Cap where
  off : Nat
  id : Nat
  priv : Nat
deriving DecidableEq, Repr

def TTL : Nat := 48

/-- `PciRoot::capabilities_offset` -/
def capStart (rd : Nat → Nat) : Option Nat :=
  if rd 4 / W16 / 16 % 2 = 1 then some (rd 0x34 % 256 / 4 * 4) else none

def capNext (nxt : Nat) : Option Nat :=
  if nxt = 0 then none else if nxt < 64 ∨ nxt % 4 ≠ 0 then none else some nxt

/-- `CapabilityIterator::next` iterated; the fuel is the iterator's `ttl` -/
def capWalk (rd : Nat → Nat) : Option Nat → Nat → List Cap
  | none, _ => []
  | some _, 0 => []
  | some off, ttl + 1 =>
    let h := rd off
    ⟨off, h % 256, h / W16 % W16⟩ :: capWalk rd (capNext (h / 256 % 256)) ttl

def capabilities (rd : Nat → Nat) : List Cap := capWalk rd (capStart rd) TTL

/-- configuration reads performed by walking the whole list: status/command, (pointer), headers -/
def capTrace (rd : Nat → Nat) : List Acc :=
  [Acc.rd 4 (rd 4)] ++ (if rd 4 / W16 / 16 % 2 = 1 then [Acc.rd 0x34 (rd 0x34)] else [])
    ++ (capabilities rd).map fun c => Acc.rd c.off (rd c.off)

/-! ## line protocol -/

def hx (n : Nat) : String := Proto.toHex n

def Acc.str : Acc → String
  | .rd off v => s!"R{hx off}={hx v}"
  | .wr off v => s!"W{hx off}={hx v}"
  | .p2v p s => s!"P({hx p},{s})"

def traceStr (t : List Acc) : String := if t.isEmpty then "-" else Proto.joinWith " " (t.map Acc.str)

def MemType.str : MemType → String
  | .w32 => "Width32" | .below1M => "Below1MiB" | .w64 => "Width64"

def BarInfo.str : BarInfo → String
  | .mem t pf a s => s!"mem({t.str},{Proto.b2s pf},{hx a},{hx s})"
  | .io a s => s!"io({hx a},{hx s})"

def optBarStr : Option BarInfo → String
  | none => "none" | some b => b.str

def BErr.str : BErr → String
  | .invalidBarType => "InvalidBarType" | .panic => "panic"

def kindOfNat : Nat → BarKind
  | 1 => .mem32 | 2 => .below1M | 3 => .mem64 | 4 => .io | 5 => .memRsvd | _ => .none

/-- `bars=` is a flat list of 6 × (kind, pf, exp, addr) -/
def declsOfList (l : List Nat) : Nat → BarDecl := fun i =>
  ⟨kindOfNat (l.getD (4 * i) 0), l.getD (4 * i + 1) 0 != 0, l.getD (4 * i + 2) 0, l.getD (4 * i + 3) 0⟩

/-- sparse word list `off,val,off,val,…` -/
def sparse : List Nat → Nat → Nat
  | off :: v :: rest, o => if o = off then v else sparse rest o
  | _, _ => 0

def fnOfArgs (a : Proto.Args) : Fn :=
  mkFn (declsOfList (a.nats "bars")) (a.nat "cmd") (a.nat "st") (sparse (a.nats "w"))

def Fn.stateStr (f : Fn) : String :=
  s!"cmd={hx f.cmd} st={hx f.status} bars=" ++ Proto.joinWith "," ((List.range 6).map fun i => hx (f.bars i).read)

/-- polynomial digest of a list of 32-bit values (same function in the harness) -/
def digest (l : List Nat) : Nat :=
  (l.foldl (fun (h : UInt64) v => (h ^^^ UInt64.ofNat v) * 0x100000001b3) 0xcbf29ce484222325).toNat

def camRow (ecam : Bool) (bus dev : Nat) : List Nat :=
  (List.range 512).map fun i => (camOffset ecam bus dev (i / 64) (i % 64 * 4)).getD 0xffffffff

def Found.str (x : Found) : String :=
  s!"{x.dev}.{x.fn}:{hx x.vendor}:{hx x.device}:{hx x.cls}.{hx x.subclass}.{hx x.progIf}.{hx x.revision}:h{x.header}"

/-- population `pop=` flat list `i,w0,w8,w12,…` (i = dev*8+fn); absent functions read all-ones -/
def popRd : List Nat → Nat → Nat → Nat → Nat
  | i :: w0 :: w8 :: w12 :: rest, dev, fn, off =>
    if i = dev * 8 + fn then (if off = 0 then w0 else if off = 8 then w8 else if off = 12 then w12 else 0)
    else popRd rest dev fn off
  | _, _, _, _ => 0xffffffff

def Cap.str (c : Cap) : String := s!"{hx c.off}:{hx c.id}:{hx c.priv}"

def handle (op : String) (a : Proto.Args) : String :=
  match op with
  | "barinfo" =>
    let f := fnOfArgs a
    let o := barInfo f (a.nat "slot")
    let r := match o.res with | .ok b => s!"ok {optBarStr b}" | .error e => s!"err {e.str}"
    s!"{r} | {traceStr o.trace} | {o.fin.stateStr}"
  | "bars" =>
    let f := fnOfArgs a
    let o := bars f
    let r := match o.res with
      | .ok l => "ok " ++ Proto.joinWith ";" (l.map optBarStr)
      | .error e => s!"err {e.str}"
    s!"{r} | {traceStr o.trace} | {o.fin.stateStr}"
  | "cam" =>
    match camOffset (a.bool "ecam") (a.nat "bus") (a.nat "dev") (a.nat "fn") (a.nat "reg") with
    | some x => hx x
    | none => "panic"
  | "camrow" => hx (digest (camRow (a.bool "ecam") (a.nat "bus") (a.nat "dev")))
  | "enum" =>
    let rd := popRd (a.nats "pop")
    let l := enumerate rd
    s!"{enumReads rd} " ++ (if l.isEmpty then "-" else Proto.joinWith " " (l.map Found.str))
  | "caps" =>
    let f := fnOfArgs a
    let l := capabilities f.read
    (if l.isEmpty then "-" else Proto.joinWith " " (l.map Cap.str)) ++ " | " ++ traceStr (capTrace f.read)
  | _ => "bad-op"

end VirtioVerif.PciBus
