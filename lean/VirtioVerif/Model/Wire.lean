/-!
Wire-format helpers shared by the command/response device models (C20): bytes are `Nat`s `< 256`,
multi-byte integers are little-endian (VirtIO 1.x §1.4 "le16/le32/le64").

A *spec table* is a list of `(offset, size)` pairs, one per field of a structure as the VirtIO
specification lays it out; `specDecode` reads every field of the table out of a byte string.  The
tables themselves live next to each device model in a `Spec` namespace and are written from the
specification text, not from the driver's `#[repr(C)]` structs.
-/
namespace VirtioVerif.Wire

abbrev Bytes := List Nat

def le8 (n : Nat) : Bytes := [n % 256]
def le16 (n : Nat) : Bytes := [n % 256, n / 256 % 256]
def le32 (n : Nat) : Bytes := [n % 256, n / 256 % 256, n / 65536 % 256, n / 16777216 % 256]
def le64 (n : Nat) : Bytes :=
  [n % 256, n / 256 % 256, n / 65536 % 256, n / 16777216 % 256,
   n / 4294967296 % 256, n / 1099511627776 % 256, n / 281474976710656 % 256,
   n / 72057594037927936 % 256]

/-- little-endian value of a byte string -/
def fromLE : Bytes → Nat
  | [] => 0
  | b :: bs => b + 256 * fromLE bs

/-- `size` bytes at `off`, as a little-endian unsigned number -/
def fieldAt (bs : Bytes) (off size : Nat) : Nat := fromLE ((bs.drop off).take size)

/-- `n` zero bytes -/
def zeros (n : Nat) : Bytes := List.replicate n 0

/-- one field of a specification structure: byte offset and size (little-endian unsigned) -/
abbrev Field := Nat × Nat

def specDecode (fs : List Field) (bs : Bytes) : List Nat := fs.map fun f => fieldAt bs f.1 f.2

/-- fields are laid out back to back from offset 0 and fill `total` bytes (no holes, no overlap) -/
def contiguous : List Field → Nat → Nat → Bool
  | [], at_, total => at_ == total
  | (o, s) :: fs, at_, total => o == at_ && s != 0 && contiguous fs (at_ + s) total

def isBytes (bs : Bytes) : Bool := bs.all (· < 256)

/-! ### hex rendering for the line protocol -/

def hexNib (n : Nat) : Char :=
  if n < 10 then Char.ofNat (n + 48) else Char.ofNat (n - 10 + 97)

def hexOf (bs : Bytes) : String :=
  if bs.isEmpty then "-" else
  String.ofList (bs.foldr (fun b acc => hexNib (b / 16 % 16) :: hexNib (b % 16) :: acc) [])

def nibVal (c : Char) : Nat :=
  if c.isDigit then c.toNat - 48
  else if 'a' ≤ c ∧ c ≤ 'f' then c.toNat - 97 + 10
  else if 'A' ≤ c ∧ c ≤ 'F' then c.toNat - 65 + 10
  else 0

def unhexAux : List Char → Bytes
  | a :: b :: rest => (nibVal a * 16 + nibVal b) :: unhexAux rest
  | _ => []

def unhex (s : String) : Bytes := if s == "-" then [] else unhexAux s.toList

/-- FNV-1a 64 over a byte string (digest of long payloads in canonical outputs) -/
def fnv64 (bs : Bytes) : Nat :=
  bs.foldl (fun h b => ((h ^^^ b) * 0x100000001b3) % 18446744073709551616) 0xcbf29ce484222325

end VirtioVerif.Wire
