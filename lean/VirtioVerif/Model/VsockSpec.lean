/-!
`struct virtio_vsock_hdr` and the operation / type / flag codes, written from the VirtIO
specification (v1.2 §5.10.6 "Device Operation"), *not* from the crate's source.

```
struct virtio_vsock_hdr {
    le64 src_cid;  le64 dst_cid;  le32 src_port;  le32 dst_port;  le32 len;
    le16 type;     le16 op;       le32 flags;     le32 buf_alloc; le32 fwd_cnt;
};
```
-/
namespace VirtioVerif.VsockSpec

/-- (field name, byte offset, byte size) in wire order -/
def hdrFields : List (String × Nat × Nat) :=
  [("src_cid", 0, 8), ("dst_cid", 8, 8), ("src_port", 16, 4), ("dst_port", 20, 4), ("len", 24, 4),
   ("type", 28, 2), ("op", 30, 2), ("flags", 32, 4), ("buf_alloc", 36, 4), ("fwd_cnt", 40, 4)]

def hdrSize : Nat := 44

def OP_INVALID : Nat := 0
def OP_REQUEST : Nat := 1
def OP_RESPONSE : Nat := 2
def OP_RST : Nat := 3
def OP_SHUTDOWN : Nat := 4
def OP_RW : Nat := 5
def OP_CREDIT_UPDATE : Nat := 6
def OP_CREDIT_REQUEST : Nat := 7

def TYPE_STREAM : Nat := 1

def SHUTDOWN_F_RECEIVE : Nat := 1
def SHUTDOWN_F_SEND : Nat := 2

/-- little-endian bytes of `n`, `size` of them -/
def leBytes (n : Nat) : Nat → List Nat
  | 0 => []
  | size + 1 => n % 256 :: leBytes (n / 256) size

def leValue : List Nat → Nat
  | [] => 0
  | b :: bs => b + 256 * leValue bs

/-- the fields are laid out back to back in table order and fill the header exactly -/
def layoutContiguous : List (String × Nat × Nat) → Nat → Bool
  | [], at_ => at_ == hdrSize
  | (_, off, sz) :: rest, at_ => off == at_ && layoutContiguous rest (at_ + sz)

end VirtioVerif.VsockSpec
