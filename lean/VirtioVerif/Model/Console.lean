import VirtioVerif.Model.Proto
import VirtioVerif.Model.EvQueue
/-!
Model of `VirtIOConsole` (`src/device/console.rs`, `src/device/console/embedded_io.rs`), statement by
statement, over the abstract queue of `Model/EvQueue.lean`.

State: `(cursor, pending_len, receive_token, queue_buf_rx)` + the two queues + negotiated
features.  Environment: the device fills the posted receive buffer (`devFill`), possibly in the
middle of `wait_for_receive`'s busy-wait (the `script` argument of the blocking operations: one
entry per loop iteration, i.e. per firing of the spin hook).

Rust panics are explicit (`Out.fault .panic`): `assert_ne!(len, 0)`, slice/index bounds on the
`PAGE_SIZE` array, `assert!` in `consume`, `usize` overflow (overflow checks are on in the harness),
`assert_ne!(buffer.len(), 0)` inside `VirtQueue::add` for an empty `send_bytes`.
-/
namespace VirtioVerif.Console
open VirtioVerif VirtioVerif.EvQueue

structure Console where
  /-- size of `queue_buf_rx` (`PAGE_SIZE`; observed by the harness as the posted chain's length) -/
  cap : Nat
  cursor : Nat
  pendingLen : Nat
  receiveToken : Option Nat
  /-- `queue_buf_rx` (as a prefix: positions beyond hold `POISON`, see `padTo`) -/
  rxBuf : List Nat
  rxq : AQ
  txq : AQ
  featSize : Bool
  featEmerg : Bool
  /-- config space as the transport presents it (`[]` = no config space) -/
  cfg : List Nat
  /-- device-visible history: notifications of the receive queue, transmit chains as the device
      read them, config writes -/
  rxNotifies : Nat
  wire : List (List Nat)
  cfgWrites : List (Nat × Nat)
  /-- history variable (environment side): every byte the device has written into receive buffers,
      in order.  Only `devFill` touches it. -/
  written : List Nat
deriving Repr

/-- one device action on the receive queue: write `chunk` into the posted buffer and report `claim` -/
structure Fill where
  chunk : List Nat
  claim : Nat
deriving Repr

/-- what the property quantifies over: a chunk of 1..cap bytes, reported truthfully -/
def Fill.Honest (cap : Nat) (f : Fill) : Prop :=
  f.claim = f.chunk.length ∧ 1 ≤ f.chunk.length ∧ f.chunk.length ≤ cap

inductive Out
  | none                                   -- `Ok(None)`
  | byte (b : Nat) (popped : Bool)         -- `recv`
  | data (bs : List Nat)                   -- `Read::read`: bytes copied out (count = length)
  | slice (bs : List Nat)                  -- `BufRead::fill_buf`: borrowed view, nothing consumed
  | consumed (bs : List Nat)               -- `BufRead::consume`: returns `()`; ghost: the bytes skipped
  | bool (b : Bool)
  | count (n : Nat)                        -- `Write::write` of an empty buffer
  | sent (wire : List Nat)                 -- transmit: the chain as the device read it
  | size (s : Option (Nat × Nat))
  | cfgWrite (off v : Nat)
  | fault (f : Fault)
  | blocked                                -- the busy-wait would spin for ever (script exhausted)
  | devFilled | devNoBuf
deriving Repr, DecidableEq

/-- `queue_buf_rx[a .. a+n]` -/
def slice (c : Console) (a n : Nat) : List Nat := padTo (c.rxBuf.drop a) n

def initial (cap qsz : Nat) (featSize featEmerg : Bool) (cfg : List Nat) : Console :=
  { cap, cursor := 0, pendingLen := 0, receiveToken := .none, rxBuf := [],
    rxq := AQ.init qsz, txq := AQ.init qsz, featSize, featEmerg, cfg,
    rxNotifies := 0, wire := [], cfgWrites := [], written := [] }

/-- `poll_retrieve`; the device is assumed not to suppress notifications (`should_notify()` true) -/
def pollRetrieve (A : Alloc) (c : Console) : Console × Option Fault :=
  if c.receiveToken.isNone && c.cursor == c.pendingLen then
    match c.rxq.add A 0 c.cap [] true with
    | .error f => (c, some f)
    | .ok (t, q) => ({ c with receiveToken := some t, rxq := q, rxNotifies := c.rxNotifies + 1 }, .none)
  else (c, .none)

/-- `finish_receive` -/
def finishReceive (A : Alloc) (c : Console) : Console × Except Fault Bool :=
  match c.receiveToken with
  | .none => (c, .ok false)
  | some t =>
    if c.rxq.peekUsed = some t then
      match c.rxq.popUsed A t with
      | .error f => (c, .error f)
      | .ok (len, b, q) =>
        -- `unshare` has copied the device-visible bytes back into `queue_buf_rx`
        let c := { c with rxq := q, rxBuf := b.data }
        if len = 0 then (c, .error .panic)            -- assert_ne!(len, 0)
        else ({ c with cursor := 0, pendingLen := len, receiveToken := .none }, .ok true)
    else (c, .ok false)

/-- `VirtIOConsole::new` after the queues exist: initial state, then `poll_retrieve()?` -/
def new (A : Alloc) (cap qsz : Nat) (featSize featEmerg : Bool) (cfg : List Nat) : Console × Option Fault :=
  pollRetrieve A (initial cap qsz featSize featEmerg cfg)

/-- `recv(pop)` -/
def recv (A : Alloc) (c : Console) (pop : Bool) : Console × Out :=
  match finishReceive A c with
  | (c, .error f) => (c, .fault f)
  | (c, .ok _) =>
    if c.cursor = c.pendingLen then (c, .none)
    else if c.cap ≤ c.cursor then (c, .fault .panic)        -- `queue_buf_rx[cursor]` out of bounds
    else
      let ch := c.rxBuf.getD c.cursor POISON
      if pop then
        let c := { c with cursor := c.cursor + 1 }
        match pollRetrieve A c with
        | (c, some f) => (c, .fault f)
        | (c, .none) => (c, .byte ch true)
      else (c, .byte ch false)

/-- environment step: the device fills the posted receive buffer (no-op when none is posted) -/
def devFill (c : Console) (f : Fill) : Option Console :=
  (c.rxq.devComplete 0 f.chunk f.claim).map fun q => { c with rxq := q, written := c.written ++ f.chunk }

inductive Wait | ready | blocked | fault (f : Fault)
deriving Repr

/-- one firing of the spin hook: the device does nothing, or fills the posted buffer -/
def spinStep (c : Console) : Option Fill → Console
  | .none => c
  | some f => (devFill c f).getD c

/-- the loop of `wait_for_receive`: `while cursor == pending_len { spin(); finish_receive()? }`;
    `script` = what the device does at each firing of the spin hook -/
def waitLoop (A : Alloc) : List (Option Fill) → Console → Console × Wait
  | [], c => if c.cursor ≠ c.pendingLen then (c, .ready) else (c, .blocked)
  | d :: rest, c =>
    if c.cursor ≠ c.pendingLen then (c, .ready)
    else
      match finishReceive A (spinStep c d) with
      | (c2, .error f) => (c2, .fault f)
      | (c2, .ok _) => waitLoop A rest c2

/-- `wait_for_receive` -/
def waitForReceive (A : Alloc) (c : Console) (script : List (Option Fill)) : Console × Wait :=
  match pollRetrieve A c with
  | (c, some f) => (c, .fault f)
  | (c, .none) => waitLoop A script c

/-- `embedded_io::Read::read` with a buffer of `n` bytes -/
def read (A : Alloc) (c : Console) (n : Nat) (script : List (Option Fill)) : Console × Out :=
  if n = 0 then (c, .data [])
  else match waitForReceive A c script with
    | (c, .fault f) => (c, .fault f)
    | (c, .blocked) => (c, .blocked)
    | (c, .ready) =>
      if c.pendingLen < c.cursor then (c, .fault .panic)    -- `pending_len - cursor` underflows
      else
        let rl := min n (c.pendingLen - c.cursor)
        if c.cap < c.cursor + rl then (c, .fault .panic)    -- `queue_buf_rx[cursor..cursor+rl]`
        else ({ c with cursor := c.cursor + rl }, .data (slice c c.cursor rl))

/-- `BufRead::fill_buf` -/
def fillBuf (A : Alloc) (c : Console) (script : List (Option Fill)) : Console × Out :=
  match waitForReceive A c script with
  | (c, .fault f) => (c, .fault f)
  | (c, .blocked) => (c, .blocked)
  | (c, .ready) =>
    -- `&queue_buf_rx[cursor..pending_len]`
    if c.pendingLen < c.cursor ∨ c.cap < c.pendingLen then (c, .fault .panic)
    else (c, .slice (slice c c.cursor (c.pendingLen - c.cursor)))

/-- `BufRead::consume(amt)`: `assert!(cursor + amt <= pending_len); cursor += amt;`
    (with overflow checks the addition itself panics when it exceeds `usize`) -/
def consume (c : Console) (k : Nat) : Console × Out :=
  if USIZE ≤ c.cursor + k then (c, .fault .panic)
  else if c.cursor + k ≤ c.pendingLen then ({ c with cursor := c.cursor + k }, .consumed (slice c c.cursor k))
  else (c, .fault .panic)

/-- `ReadReady::read_ready` -/
def readReady (A : Alloc) (c : Console) : Console × Out :=
  match finishReceive A c with
  | (c, .error f) => (c, .fault f)
  | (c, .ok _) => (c, .bool (c.cursor != c.pendingLen))

/-- `ack_interrupt`; `isr` = what `transport.ack_interrupt()` returns (bit 0 = QUEUE_INTERRUPT) -/
def ackInterrupt (A : Alloc) (c : Console) (isr : Nat) : Console × Out :=
  if isr % 2 = 0 then (c, .bool false)
  else match finishReceive A c with
    | (c, .error f) => (c, .fault f)
    | (c, .ok b) => (c, .bool b)

/-- `send_bytes` (also `send`, `fmt::Write::write_str`): `transmitq.add_notify_wait_pop(&[buffer], &mut [], ..)`.
    The device acts inside the busy-wait: it reads the chain and completes it (it writes nothing,
    reports length 0). -/
def sendBytes (A : Alloc) (c : Console) (bytes : List Nat) : Console × Out :=
  match c.txq.add A 0 bytes.length bytes false with
  | .error f => (c, .fault f)
  | .ok (t, q) =>
    match q.posted.head?, q.devComplete 0 [] 0 with
    | some b, some q1 =>
      let c := { c with wire := c.wire ++ [b.data] }
      match q1.popUsed A t with
      | .error f => ({ c with txq := q1 }, .fault f)
      | .ok (_, _, q2) => ({ c with txq := q2 }, .sent b.data)
    | _, _ => ({ c with txq := q }, .fault .stuck)

/-- `embedded_io::Write::write` -/
def write (A : Alloc) (c : Console) (bytes : List Nat) : Console × Out :=
  if bytes.isEmpty then (c, .count 0) else sendBytes A c bytes

def rdCfg (c : Console) (off sz : Nat) : Except Err Nat :=
  if c.cfg.isEmpty then .error .configSpaceMissing
  else if c.cfg.length < off + sz then .error .configSpaceTooSmall
  else .ok (((c.cfg.drop off).take sz).foldr (fun b acc => b + 256 * acc) 0)

/-- `size()`: `cols` (u16 at 0) and `rows` (u16 at 2) under `read_consistent` -/
def size (c : Console) : Console × Out :=
  if c.featSize then
    match rdCfg c 0 2 with
    | .error e => (c, .fault (.err e))
    | .ok cols =>
      match rdCfg c 2 2 with
      | .error e => (c, .fault (.err e))
      | .ok rows => (c, .size (some (cols, rows)))
  else (c, .size .none)

/-- `emergency_write(chr)`: `emerg_wr` is the u32 at offset 8 -/
def emergencyWrite (c : Console) (b : Nat) : Console × Out :=
  if c.featEmerg then
    if c.cfg.isEmpty then (c, .fault (.err .configSpaceMissing))
    else if c.cfg.length < 12 then (c, .fault (.err .configSpaceTooSmall))
    else ({ c with cfgWrites := c.cfgWrites ++ [(8, b)] }, .cfgWrite 8 b)
  else (c, .fault (.err .unsupported))

inductive Op
  | recv (pop : Bool)
  | read (n : Nat) (script : List (Option Fill))
  | fillBuf (script : List (Option Fill))
  | consume (k : Nat)
  | readReady
  | ack (isr : Nat)
  | sendBytes (bs : List Nat)      -- `send(b)` is `sendBytes [b]`
  | write (bs : List Nat)
  | size
  | emerg (b : Nat)
  | dev (f : Fill)                 -- environment, between two driver calls
deriving Repr

def step (A : Alloc) (c : Console) : Op → Console × Out
  | .recv p => recv A c p
  | .read n s => read A c n s
  | .fillBuf s => fillBuf A c s
  | .consume k => consume c k
  | .readReady => readReady A c
  | .ack isr => ackInterrupt A c isr
  | .sendBytes bs => sendBytes A c bs
  | .write bs => write A c bs
  | .size => size c
  | .emerg b => emergencyWrite c b
  | .dev f => match devFill c f with
    | some c' => (c', .devFilled)
    | .none => (c, .devNoBuf)

/-! ### line protocol -/

/-- the reference device's byte stream: byte `i` of stream `seed` (same formula in the harness) -/
def streamByte (seed i : Nat) : Nat := (i * i / 3 + 7 * i + 13 * seed + i / 251) % 256

def streamChunk (seed pos n : Nat) : List Nat := (List.range' pos n).map (streamByte seed)

def fnv64 (l : List Nat) : Nat :=
  l.foldl (fun h b => ((h ^^^ b) * 0x100000001b3) % 2 ^ 64) 0xcbf29ce484222325

def hex2 (b : Nat) : String := String.ofList [Proto.hexDigit (b / 16 % 16), Proto.hexDigit (b % 16)]

/-- ≤ 16 bytes: hex; longer: `len:fnv64` -/
def bytesStr (l : List Nat) : String :=
  if l.isEmpty then "-"
  else if l.length ≤ 16 then String.join (l.map hex2)
  else s!"{l.length}:{Proto.toHex (fnv64 l)}"

def Out.str : Out → String
  | .none => "ok none"
  | .byte b p => s!"ok byte {hex2 b}"
  | .data bs => s!"ok {bs.length} {bytesStr bs}"
  | .slice bs => s!"ok slice {bs.length} {bytesStr bs}"
  | .consumed _ => "ok"
  | .bool b => s!"ok {Proto.b2s b}"
  | .count n => s!"ok {n}"
  | .sent w => s!"ok wire={bytesStr w}"
  | .size .none => "ok none"
  | .size (some (c, r)) => s!"ok {c}x{r}"
  | .cfgWrite off v => s!"ok cfgw={off}:{v}"
  | .fault f => f.str
  | .blocked => "blocked"
  | .devFilled => "filled"
  | .devNoBuf => "nobuf"

structure PState where
  c : Console
  seed : Nat
  devPos : Nat
  alive : Bool

def PState.empty : PState := ⟨initial 0 0 false false [], 0, 0, false⟩

def A0 : Alloc := Alloc.stack

/-- device-visible postings after the step: buffers owned by the device on the receive queue, and
    notifications of the receive queue during the step -/
def tail (before after : Console) : String :=
  s!" | rx={after.rxq.posted.length} nt={after.rxNotifies - before.rxNotifies}"

def scriptOf (st : PState) (a : Proto.Args) : List (Option Fill) × Nat :=
  let idle := a.nat "idle"
  let n := a.nat "fill"
  if a.bool "act" then
    (List.replicate idle .none ++ [some ⟨streamChunk st.seed st.devPos n, a.nat "claim"⟩], n)
  else (List.replicate idle .none, 0)

/-- UTF-8 encoding of a Unicode scalar value (`char::encode_utf8`) -/
def utf8 (c : Nat) : List Nat :=
  if c < 0x80 then [c]
  else if c < 0x800 then [0xC0 + c / 64, 0x80 + c % 64]
  else if c < 0x10000 then [0xE0 + c / 4096, 0x80 + c / 64 % 64, 0x80 + c % 64]
  else [0xF0 + c / 262144 % 8, 0x80 + c / 4096 % 64, 0x80 + c / 64 % 64, 0x80 + c % 64]

def txBytes (a : Proto.Args) (ascii : Bool) : List Nat :=
  let l := streamChunk (a.nat "g") 0 (a.nat "n")
  if ascii then l.map (· % 128) else l

def handle (st : PState) (op : String) (a : Proto.Args) : PState × String :=
  if op == "new" then
    let cfg := (streamChunk 0 0 (a.nat "cfg")).zipIdx.map fun (b, i) =>
      if i == 0 then a.nat "cols" % 256 else if i == 1 then a.nat "cols" / 256
      else if i == 2 then a.nat "rows" % 256 else if i == 3 then a.nat "rows" / 256 else b
    let (c, r) := new A0 (a.nat "cap") (a.nat "qsz") (a.bool "fsize") (a.bool "femerg") cfg
    let st' : PState := ⟨c, a.nat "seed", 0, r.isNone⟩
    (st', (match r with | .none => "ok" | some f => f.str) ++ tail (initial 0 0 false false []) c)
  else if !st.alive then (st, "dead")
  else
    let fin (r : Console × Out) (adv : Nat) : PState × String :=
      let dead := match r.2 with | .fault .panic => true | .fault .stuck => true | _ => false
      ({ st with c := r.1, devPos := st.devPos + adv, alive := !dead }, r.2.str ++ tail st.c r.1)
    match op with
    | "recv" => fin (step A0 st.c (.recv (a.bool "pop"))) 0
    | "read" => let (s, adv) := scriptOf st a; fin (step A0 st.c (.read (a.nat "n") s)) adv
    | "fill_buf" => let (s, adv) := scriptOf st a; fin (step A0 st.c (.fillBuf s)) adv
    | "consume" => fin (step A0 st.c (.consume (a.nat "k"))) 0
    | "read_ready" => fin (step A0 st.c .readReady) 0
    | "ack" => fin (step A0 st.c (.ack (a.nat "isr"))) 0
    | "send" => fin (step A0 st.c (.sendBytes [a.nat "b"])) 0
    | "send_bytes" => fin (step A0 st.c (.sendBytes (txBytes a false))) 0
    | "write_str" => fin (step A0 st.c (.sendBytes (txBytes a true))) 0
    -- `fmt::Write::write_char` (provided method): `write_str(c.encode_utf8(..))`
    | "write_char" => fin (step A0 st.c (.sendBytes (utf8 (a.nat "cp")))) 0
    | "write" =>
      let bs := txBytes a false
      let r := step A0 st.c (.write bs)
      -- `Write::write` returns `Ok(buf.len())`; show it next to what the device saw
      let r' := fin r 0
      (r'.1, (match r.2 with | .sent _ => s!"n={bs.length} " | _ => "") ++ r'.2)
    | "size" => fin (step A0 st.c .size) 0
    | "emerg" => fin (step A0 st.c (.emerg (a.nat "b"))) 0
    | "dev" =>
      let n := a.nat "fill"
      let r := step A0 st.c (.dev ⟨streamChunk st.seed st.devPos n, a.nat "claim"⟩)
      fin r (match r.2 with | .devFilled => n | _ => 0)
    | _ => (st, "bad-op")

end VirtioVerif.Console
