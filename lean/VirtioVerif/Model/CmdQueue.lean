import VirtioVerif.Model.Wire
/-!
A tiny abstract virtqueue for the command/response drivers (C20).

The split-virtqueue core is proved separately (C01–C05); the command drivers only rely on this
interface of it:
* `add` hands the chain to the device and returns a *token* (here: the ordinal of the `add` call —
  the harness renames the real descriptor-index tokens to ordinals);
* the device completes outstanding chains **in any order**, writing any bytes and reporting any
  length (`complete` takes the position of the chain among the outstanding ones);
* `popUsed tok` succeeds only for the chain at the front of the used ring (`NotReady` when the ring
  is empty, `WrongToken` when the front element is another chain) — `queue.rs::pop_used`.
Descriptor accounting mirrors `queue.rs::add` / `available_desc` for both the direct and the
indirect-descriptor mode.
-/
namespace VirtioVerif.CmdQueue
open VirtioVerif.Wire

structure Chain where
  tok : Nat
  /-- descriptors the chain occupies in the table -/
  ndesc : Nat
  /-- device-readable segments -/
  rd : List Bytes
  /-- lengths of the device-writable segments -/
  wr : List Nat
deriving Repr, DecidableEq

structure Used where
  chain : Chain
  /-- what the device wrote into the writable part -/
  written : Bytes
  /-- the length it reported in the used ring -/
  len : Nat
deriving Repr, DecidableEq

structure Q where
  size : Nat
  indirect : Bool
  nextTok : Nat := 0
  numUsed : Nat := 0
  /-- submitted, not yet completed by the device (submission order) -/
  outstanding : List Chain := []
  /-- completed, not yet popped (used-ring order) -/
  used : List Used := []
deriving Repr

inductive Err | queueFull | notReady | wrongToken | invalidParam
deriving Repr, DecidableEq

def Err.str : Err → String
  | .queueFull => "QueueFull" | .notReady => "NotReady" | .wrongToken => "WrongToken"
  | .invalidParam => "InvalidParam"

/-- descriptors consumed by a chain of `k` buffers (`add_indirect` is used for `k > 1`) -/
def descsFor (q : Q) (k : Nat) : Nat := if q.indirect && k > 1 then 1 else k

/-- `VirtQueue::available_desc` -/
def availableDesc (q : Q) : Nat :=
  if q.indirect then (if q.numUsed == q.size then 0 else q.size) else q.size - q.numUsed

/-- `VirtQueue::add` (the capacity test of the `alloc` build) -/
def add (q : Q) (rd : List Bytes) (wr : List Nat) : Except Err (Q × Nat) :=
  let k := rd.length + wr.length
  if k = 0 then .error .invalidParam
  else if q.numUsed + 1 > q.size ∨ k > q.size ∨ (q.indirect = false ∧ q.numUsed + k > q.size) then
    .error .queueFull
  else
    let c : Chain := { tok := q.nextTok, ndesc := descsFor q k, rd := rd, wr := wr }
    .ok ({ q with nextTok := q.nextTok + 1, numUsed := q.numUsed + c.ndesc,
                  outstanding := q.outstanding ++ [c] }, c.tok)

/-- device: complete the `i`-th outstanding chain (no-op when there is none) -/
def complete (q : Q) (i : Nat) (written : Bytes) (len : Nat) : Q :=
  match q.outstanding[i]? with
  | none => q
  | some c => { q with outstanding := q.outstanding.eraseIdx i,
                       used := q.used ++ [{ chain := c, written := written, len := len }] }

def canPop (q : Q) : Bool := !q.used.isEmpty

/-- `VirtQueue::pop_used` -/
def popUsed (q : Q) (tok : Nat) : Except Err (Q × Used) :=
  match q.used with
  | [] => .error .notReady
  | u :: rest =>
    if u.chain.tok ≠ tok then .error .wrongToken
    else .ok ({ q with used := rest, numUsed := q.numUsed - u.chain.ndesc }, u)

/-- chains the device may still access: submitted and not yet popped -/
def shared (q : Q) : List Chain := q.used.map (·.chain) ++ q.outstanding

/-- buffers currently shared with the device (one per segment, plus the indirect table) -/
def sharedBuffers (q : Q) : Nat :=
  ((shared q).map fun c =>
    c.rd.length + c.wr.length + (if q.indirect && c.rd.length + c.wr.length > 1 then 1 else 0)).sum

end VirtioVerif.CmdQueue
