import VirtioVerif.Generated.Consts
import VirtioVerif.Model.Proto
/-!
Model of virtqueue memory layout, registration and release
(`queue.rs`: `VirtQueue::new` prefix, `VirtQueueLayout::{allocate_legacy,allocate_flexible}`,
`queue_part_sizes`; `hal.rs`: `Dma::new`, `Drop for Dma`; `lib.rs`: `align_up`, `pages`).
-/
namespace VirtioVerif.Layout
open VirtioVerif

def PAGE : Nat := Generated.pageSize

/-- `lib.rs::align_up`: `(size + PAGE_SIZE) & !(PAGE_SIZE - 1)` — note: adds a whole page to a page multiple. -/
def alignUp (s : Nat) : Nat := (s + PAGE) / PAGE * PAGE

/-- `lib.rs::pages`: `size.div_ceil(PAGE_SIZE)` -/
def pages (s : Nat) : Nat := (s + (PAGE - 1)) / PAGE

/-- `queue_part_sizes` -/
def partSizes (n : Nat) : Nat × Nat × Nat :=
  (Generated.descSize * n, 2 * (3 + n), 2 * 3 + Generated.usedElemSize * n)

inductive Dir | toDevice | toDriver | both
deriving DecidableEq, Repr

def Dir.str : Dir → String
  | .toDevice => "DriverToDevice" | .toDriver => "DeviceToDriver" | .both => "Both"

/-- a device address: (k-th DMA region of this run, byte offset) -/
structure Addr where
  region : Nat
  off : Nat
deriving DecidableEq, Repr

def Addr.str (a : Addr) : String := s!"D{a.region}+{a.off}"

inductive Ev
  | queueUsed (q : Nat)
  | maxSize (q : Nat)
  | legacyQ
  | alloc (pages : Nat) (dir : Dir) (ap : Bool) (ok : Bool)
  | queueSet (q size : Nat) (desc drv dev : Addr)
  | dealloc (region pages : Nat) (ap : Bool)
deriving DecidableEq, Repr

def Ev.str : Ev → String
  | .queueUsed q => s!"queue_used({q})"
  | .maxSize q => s!"max_queue_size({q})"
  | .legacyQ => "requires_legacy_layout"
  | .alloc p d ap ok => s!"dma_alloc({p},{d.str},{Proto.b2s ap})={if ok then "ok" else "fail"}"
  | .queueSet q s a b c => s!"queue_set({q},{s},{a.str},{b.str},{c.str})"
  | .dealloc r p ap => s!"dma_dealloc(D{r},{p},{Proto.b2s ap})"

inductive Err | alreadyUsed | invalidParam | dmaError | panic
deriving DecidableEq, Repr

def Err.str : Err → String
  | .alreadyUsed => "AlreadyUsed" | .invalidParam => "InvalidParam" | .dmaError => "DmaError"
  | .panic => "panic"

structure Cfg where
  n : Nat            -- SIZE
  idx : Nat          -- queue index
  legacy : Bool
  ap : Bool          -- access_platform
  inUse : Bool       -- transport.queue_used answer
  maxSize : Nat      -- transport.max_queue_size answer
  failAt : Nat       -- 0 = no failure; k = the k-th dma_alloc returns paddr 0
deriving Repr

/-- where the three areas ended up -/
structure Plan where
  regions : List (Nat × Dir)     -- (pages, direction) per allocated region, in allocation order
  desc : Addr
  avail : Addr
  used : Addr
deriving Repr, DecidableEq

structure Outcome where
  events : List Ev
  result : Except Err Plan

/-- `Dma::vaddr` asserts `offset < pages * PAGE_SIZE`. -/
def vaddrOk (pgs off : Nat) : Bool := off < pgs * PAGE

/-- `allocate_legacy`: one region of `(align_up(desc+avail) + align_up(used)) / PAGE_SIZE` pages -/
def legacyPlan (n : Nat) : Plan :=
  let (d, a, u) := partSizes n
  { regions := [((alignUp (d + a) + alignUp u) / PAGE, .both)],
    desc := ⟨0, 0⟩, avail := ⟨0, d⟩, used := ⟨0, alignUp (d + a)⟩ }

/-- `allocate_flexible`: `pages(desc+avail)` driver-to-device, `pages(used)` device-to-driver -/
def modernPlan (n : Nat) : Plan :=
  let (d, a, u) := partSizes n
  { regions := [(pages (d + a), .toDevice), (pages u, .toDriver)],
    desc := ⟨0, 0⟩, avail := ⟨0, d⟩, used := ⟨1, 0⟩ }

def planFor (legacy : Bool) (n : Nat) : Plan := if legacy then legacyPlan n else modernPlan n

def regionPages (p : Plan) (r : Nat) : Nat := (p.regions.getD r (0, .both)).1

/-- the three `Dma::vaddr` assertions executed by `VirtQueue::new` -/
def planVaddrOk (p : Plan) : Bool :=
  vaddrOk (regionPages p p.desc.region) p.desc.off
  && vaddrOk (regionPages p p.avail.region) p.avail.off
  && vaddrOk (regionPages p p.used.region) p.used.off

def allocEvs (ap : Bool) : List (Nat × Dir) → Nat → Nat → List Ev × Bool
  | [], _, _ => ([], true)
  | (pg, d) :: rest, k, failAt =>
    if failAt = k then ([Ev.alloc pg d ap false], false)
    else let (es, ok) := allocEvs ap rest (k + 1) failAt; (Ev.alloc pg d ap true :: es, ok)

/-- regions successfully allocated before the failing one (all, when none fails) -/
def allocatedBefore (regions : List (Nat × Dir)) (failAt : Nat) : List (Nat × Dir) :=
  if failAt = 0 then regions else regions.take (failAt - 1)

def deallocEvs (ap : Bool) (regions : List (Nat × Dir)) : List Ev :=
  (regions.zipIdx).map fun ((pgs, _), i) => Ev.dealloc i pgs ap

def newQueue (c : Cfg) : Outcome :=
  let e0 := [Ev.queueUsed c.idx]
  if c.inUse then ⟨e0, .error .alreadyUsed⟩ else
  let e1 := e0 ++ [Ev.maxSize c.idx]
  if c.maxSize < c.n then ⟨e1, .error .invalidParam⟩ else
  let e2 := e1 ++ [Ev.legacyQ]
  let plan := planFor c.legacy c.n
  let (ea, ok) := allocEvs c.ap plan.regions 1 c.failAt
  if !ok then
    -- `?` propagates `DmaError`; regions already allocated are dropped (in allocation order: a
    -- single earlier region at most)
    ⟨e2 ++ ea ++ deallocEvs c.ap (allocatedBefore plan.regions c.failAt), .error .dmaError⟩
  else
    let e3 := e2 ++ ea ++ [Ev.queueSet c.idx c.n plan.desc plan.avail plan.used]
    if planVaddrOk plan then ⟨e3, .ok plan⟩
    else ⟨e3 ++ deallocEvs c.ap plan.regions, .error .panic⟩

/-- dropping the queue: `Dma` fields are dropped in declaration order -/
def dropQueue (ap : Bool) (p : Plan) : List Ev := deallocEvs ap p.regions

/-- `desc[i].next` after `VirtQueue::new` (both shadow and device-visible table) -/
def initNext (n i : Nat) : Nat := if i + 1 < n then i + 1 else 0

/-! ### line protocol -/

def evsStr (l : List Ev) : String := Proto.joinWith " " (l.map Ev.str)

def cfgOfArgs (a : Proto.Args) : Cfg :=
  { n := a.nat "n", idx := a.nat "idx", legacy := a.bool "legacy", ap := a.bool "ap",
    inUse := a.bool "inuse", maxSize := a.nat "max", failAt := a.nat "fail" }

/-- `layout new n=.. idx=.. legacy=.. ap=.. inuse=.. max=.. fail=..` then (if ok) the drop events -/
def handle (op : String) (a : Proto.Args) : String :=
  match op with
  | "new" =>
    let c := cfgOfArgs a
    let o := newQueue c
    match o.result with
    | .error e => s!"{evsStr o.events} => err {e.str}"
    | .ok p => s!"{evsStr o.events} => ok ; drop: {evsStr (dropQueue c.ap p)}"
  | "align_up" => toString (alignUp (a.nat "s"))
  | "pages" => toString (pages (a.nat "s"))
  | "parts" => let (d, av, u) := partSizes (a.nat "n"); s!"{d},{av},{u}"
  | _ => "bad-op"

end VirtioVerif.Layout
