import VirtioVerif.Props.C09
#print axioms VirtioVerif.Props.C09.mem_allNeg
#print axioms VirtioVerif.Props.C09.mem_allCfg
#print axioms VirtioVerif.Props.C09.failTable_ok
#print axioms VirtioVerif.Props.C09.fail_kth
#print axioms VirtioVerif.Props.C09.totalAllocs_bounds
#print axioms VirtioVerif.Props.C09.cfg_fail_table
#print axioms VirtioVerif.Props.C09.cfg_fail
#print axioms VirtioVerif.Props.C09.p9_cfg_fail_before_queue
#print axioms VirtioVerif.Props.C09.refuse_table
#print axioms VirtioVerif.Props.C09.net_post_fail
#print axioms VirtioVerif.Props.C09.drop_table
#print axioms VirtioVerif.Props.C09.drop_after_construct
#print axioms VirtioVerif.Props.C09.no_reset_needed
#print axioms VirtioVerif.Props.C09.needs_reset_on_drop
#print axioms VirtioVerif.Props.C09.gpu_framebuffer_drop
