import VirtioVerif.Props.C05
#print axioms VirtioVerif.Props.C05.notify_sound
#print axioms VirtioVerif.Props.C05.batch_bound
#print axioms VirtioVerif.Props.C05.notify_exact_batch1
#print axioms VirtioVerif.Props.C05.notify_flag
#print axioms VirtioVerif.Props.C05.notify_flag_clear
#print axioms VirtioVerif.Props.C05.notify_flag_set
#print axioms VirtioVerif.Props.C05.old_code_unsound
#print axioms VirtioVerif.Props.C05.setDevNotify_exact
#print axioms VirtioVerif.Props.C05.setDevNotify_eventIdx
#print axioms VirtioVerif.Props.C05.usedEvent_rearmed
#print axioms VirtioVerif.Props.C05.device_must_interrupt_next
#print axioms VirtioVerif.Props.C05.blocking_told_event
#print axioms VirtioVerif.Props.C05.blocking_told_flag
#print axioms VirtioVerif.Props.C05.blocking_suppressed_flag
