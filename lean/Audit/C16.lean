import VirtioVerif.Props.C16
#print axioms VirtioVerif.Props.C16.supported_testBit
#print axioms VirtioVerif.Props.C16.hdr_sizes_spec
#print axioms VirtioVerif.Props.C16.hdrLen_choice
#print axioms VirtioVerif.Props.C16.hdrLen_pos
#print axioms VirtioVerif.Props.C16.zeros_length
#print axioms VirtioVerif.Props.C16.sendChain_bytes
#print axioms VirtioVerif.Props.C16.blockingQ_idle
#print axioms VirtioVerif.Props.C16.send_idle
#print axioms VirtioVerif.Props.C16.transmit_spec
#print axioms VirtioVerif.Props.C16.receiveComplete_spec
#print axioms VirtioVerif.Props.C16.receiveComplete_own
#print axioms VirtioVerif.Props.C16.packet_is_frame
#print axioms VirtioVerif.Props.C16.rxbuf_packet
#print axioms VirtioVerif.Props.C16.rxbuf_packet_panic_iff
#print axioms VirtioVerif.Props.C16.canSend_iff
#print axioms VirtioVerif.Props.C16.canRecv_iff
#print axioms VirtioVerif.Props.C16.receive_notReady
