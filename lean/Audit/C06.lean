import VirtioVerif.Props.C06
#print axioms VirtioVerif.Props.C06.pow2_shape
#print axioms VirtioVerif.Props.C06.sizeOk_pow2
#print axioms VirtioVerif.Props.C06.partSizes_spec
#print axioms VirtioVerif.Props.C06.refuse_in_use
#print axioms VirtioVerif.Props.C06.refuse_too_small
#print axioms VirtioVerif.Props.C06.refusal_no_side_effect
#print axioms VirtioVerif.Props.C06.legacyPlan_ok
#print axioms VirtioVerif.Props.C06.modernPlan_ok
#print axioms VirtioVerif.Props.C06.planFor_ok
#print axioms VirtioVerif.Props.C06.plan_vaddr_ok
#print axioms VirtioVerif.Props.C06.allocEvs_nofail
#print axioms VirtioVerif.Props.C06.new_ok
#print axioms VirtioVerif.Props.C06.release_once
#print axioms VirtioVerif.Props.C06.fail_kth
#print axioms VirtioVerif.Props.C06.initNext_lt
