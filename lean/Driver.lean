import VirtioVerif.Model.Proto
import VirtioVerif.Model.Layout
import VirtioVerif.Model.Gpu
import VirtioVerif.Model.Sound
import VirtioVerif.Model.SmallDevs
/-!
Native line-protocol driver over all models: one request line in, one reply line out.
`case …` lines reset per-case state and are echoed as `case`.
-/
open VirtioVerif

structure World where
  dummy : Unit := ()
  gpu : Gpu.St := {}
  snd : Sound.St := {}

def World.fresh : World := {}

def step (w : World) (line : String) : World × String :=
  match line.trimAscii.toString.splitOn " " with
  | "case" :: _ => (World.fresh, "case")
  | "layout" :: op :: rest => (w, Layout.handle op (Proto.parseArgs rest))
  | "rng" :: op :: rest => (w, Small.handle "rng" op (Proto.parseArgs rest))
  | "rtc" :: op :: rest => (w, Small.handle "rtc" op (Proto.parseArgs rest))
  | "p9" :: op :: rest => (w, Small.handle "p9" op (Proto.parseArgs rest))
  | "snd" :: op :: rest => let (g, o) := Sound.handle w.snd op (Proto.parseArgs rest); ({ w with snd := g }, o)
  | "gpu" :: op :: rest => let (g, o) := Gpu.handle w.gpu op (Proto.parseArgs rest); ({ w with gpu := g }, o)
  | _ => (w, "bad-op")

partial def loop (h : IO.FS.Stream) (out : IO.FS.Stream) (w : World) : IO Unit := do
  let line ← h.getLine
  if line.isEmpty then return ()
  let (w', o) := step w line
  out.putStrLn o
  loop h out w'

def main : IO Unit := do
  let out ← IO.getStdout
  loop (← IO.getStdin) out World.fresh
  out.flush
