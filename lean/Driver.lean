import VirtioVerif.Model.Proto
import VirtioVerif.Model.Layout
import VirtioVerif.Model.Queue
import VirtioVerif.Model.Blk
import VirtioVerif.Model.Net
import VirtioVerif.Model.Mmio
import VirtioVerif.Model.Config
import VirtioVerif.Model.PciBus
import VirtioVerif.Model.PciCap
import VirtioVerif.Model.VsockConn
import VirtioVerif.Model.Console
import VirtioVerif.Model.EventQueues
import VirtioVerif.Model.Init
import VirtioVerif.Model.Gpu
import VirtioVerif.Model.Sound
import VirtioVerif.Model.SmallDevs
/-!
Native line-protocol driver over all models: one request line in, one reply line out.
`case …` lines reset per-case state and are echoed as `case`.
-/
open VirtioVerif

structure World where
  dummy : Unit := ()
  queue : Queue.Q := Queue.Q.init 1 false false false
  blk : Option Blk.State := none
  net : Option Net.W := none
  pci : Option PciCap.Transport := none
  vsock : VsockConn.World := {}
  con : Console.PState := Console.PState.empty
  evq : EventQueues.PState := EventQueues.PState.empty
  gpu : Gpu.St := {}
  snd : Sound.St := {}

def World.fresh : World := {}

def step (w : World) (line : String) : World × String :=
  match line.trimAscii.toString.splitOn " " with
  | "case" :: _ => (World.fresh, "case")
  | "layout" :: op :: rest => (w, Layout.handle op (Proto.parseArgs rest))
  | "queue" :: op :: rest =>
    let (q, o) := Queue.handle w.queue op (Proto.parseArgs rest); ({ w with queue := q }, o)
  | "blk" :: op :: rest => let (s, o) := Blk.handle w.blk op (Proto.parseArgs rest); ({ w with blk := s }, o)
  | "net" :: op :: rest => let (s, o) := Net.handle w.net op (Proto.parseArgs rest); ({ w with net := s }, o)
  | "mmio" :: op :: rest => (w, Mmio.handle op (Proto.parseArgs rest))
  | "config" :: op :: rest => (w, Config.handle op (Proto.parseArgs rest))
  | "pci" :: op :: rest => (w, PciBus.handle op (Proto.parseArgs rest))
  | "pcicap" :: op :: rest =>
    let (t, o) := PciCap.handle w.pci op (Proto.parseArgs rest)
    ({ w with pci := t }, o)
  | "vsock" :: op :: rest => let (v, o) := VsockConn.handle w.vsock op (Proto.parseArgs rest); ({ w with vsock := v }, o)
  | "evq" :: op :: rest => let (c, o) := EventQueues.handle w.evq op (Proto.parseArgs rest); ({ w with evq := c }, o)
  | "con" :: op :: rest => let (c, o) := Console.handle w.con op (Proto.parseArgs rest); ({ w with con := c }, o)
  | "init" :: op :: rest => (w, Init.handle op (Proto.parseArgs rest))
  | "rng" :: op :: rest => (w, Small.handle "rng" op (Proto.parseArgs rest))
  | "rtc" :: op :: rest => (w, Small.handle "rtc" op (Proto.parseArgs rest))
  | "p9" :: op :: rest => (w, Small.handle "p9" op (Proto.parseArgs rest))
  | "snd" :: op :: rest => let (g, o) := Sound.handle w.snd op (Proto.parseArgs rest); ({ w with snd := g }, o)
  | "gpu" :: op :: rest => let (g, o) := Gpu.handle w.gpu op (Proto.parseArgs rest); ({ w with gpu := g }, o)
  | _ => (w, "bad-op")

partial def loop (h : IO.FS.Stream) (out : IO.FS.Stream) (w : World) : IO Unit := do
  let line ← h.getLine
  if line.isEmpty then return ()
  let (w', o) := step w line
  out.putStrLn o
  loop h out w'

def main : IO Unit := do
  let out ← IO.getStdout
  loop (← IO.getStdin) out World.fresh
  out.flush
