#!/usr/bin/env python3
"""Source extractors: regenerate model fragments from /repo's source text on every run.

usage: extract.py <repo> <outdir>
(fragments are added as the properties that need them come online)

DropPlan.lean (C08, C09): for each of the eleven drivers the struct field order (with a coarse
kind per field), the `queue_unset` calls of its `impl Drop`, and the constructor skeleton: the
statements of `new()` in source order with, per statement, the bound local and the ordered list of
events (begin_init, config reads, VirtQueue::new with its three flag arguments classified,
OwningQueue::new, Dma::new, boxed buffers, posting loops, notify, finish_init, the struct literal).
Technique: comment / string stripping, brace matching and a fixed table of regular expressions.
Anything the table does not cover makes the extractor fail (exit code 1), which `check` reports as
a broken obligation.
"""
import os
import re
import sys


class ExtractError(Exception):
    pass


# ---------------------------------------------------------------- lexical helpers

def strip_comments_and_strings(s):
    """remove // and /* */ comments; blank out the contents of string and char literals"""
    out = []
    i, n = 0, len(s)
    while i < n:
        c = s[i]
        if s.startswith("//", i):
            while i < n and s[i] != "\n":
                i += 1
        elif s.startswith("/*", i):
            depth = 1
            i += 2
            while i < n and depth:
                if s.startswith("/*", i):
                    depth += 1
                    i += 2
                elif s.startswith("*/", i):
                    depth -= 1
                    i += 2
                else:
                    if s[i] == "\n":
                        out.append("\n")
                    i += 1
        elif c == '"':
            out.append('"')
            i += 1
            while i < n and s[i] != '"':
                if s[i] == "\\":
                    i += 1
                if i < n and s[i] == "\n":
                    out.append("\n")
                i += 1
            out.append('"')
            i += 1
        elif c == "'" and re.match(r"'(\\.|[^\\'])'", s[i:i + 4]):
            m = re.match(r"'(\\.|[^\\'])'", s[i:i + 4])
            out.append("' '")
            i += m.end()
        else:
            out.append(c)
            i += 1
    return "".join(out)


OPEN = {"(": ")", "[": "]", "{": "}"}
CLOSE = {")", "]", "}"}


def match_close(s, i):
    """s[i] is an opening bracket; index of the matching closing bracket"""
    stack = []
    for j in range(i, len(s)):
        c = s[j]
        if c in OPEN:
            stack.append(OPEN[c])
        elif c in CLOSE:
            if not stack or stack.pop() != c:
                raise ExtractError("unbalanced brackets")
            if not stack:
                return j
    raise ExtractError("unbalanced brackets")


def split_top(s, sep=",", angles=False):
    """split at top-level separators (`angles`: also treat < > as brackets, for type contexts)"""
    parts, depth, cur = [], 0, []
    for i, c in enumerate(s):
        if c in OPEN or (angles and c == "<"):
            depth += 1
        elif c in CLOSE or (angles and c == ">" and s[i - 1:i] != "-"):
            depth -= 1
        if c == sep and depth == 0:
            parts.append("".join(cur))
            cur = []
        else:
            cur.append(c)
    if "".join(cur).strip():
        parts.append("".join(cur))
    return [p.strip() for p in parts]


def statements(body):
    """top-level statements of a block body: (text, start offset)"""
    res = []
    i, n = 0, len(body)
    start = 0
    depth = 0
    while i < n:
        c = body[i]
        if c in OPEN:
            j = match_close(body, i)
            # a block-like expression statement ends at its closing brace
            head = body[start:i].strip()
            if c == "{" and re.match(r"(for|while|loop|if|match|unsafe)\b", head) and not head.startswith("let"):
                k = j + 1
                # `if … {} else {}` chains
                m = re.match(r"\s*else\b", body[k:])
                if m:
                    i = k + m.end()
                    continue
                res.append((body[start:k], start))
                start = k
                i = k
                continue
            i = j + 1
            continue
        if c == ";":
            res.append((body[start:i + 1], start))
            start = i + 1
        i += 1
    if body[start:].strip():
        res.append((body[start:], start))
    return [(t.strip(), o) for t, o in res if t.strip()]


# ---------------------------------------------------------------- the eleven drivers

DRIVERS = [
    # short name, file, struct, extra files searched for constants
    ("blk", "src/device/blk.rs", "VirtIOBlk", []),
    ("console", "src/device/console.rs", "VirtIOConsole", []),
    ("gpu", "src/device/gpu/mod.rs", "VirtIOGpu", []),
    ("input", "src/device/input.rs", "VirtIOInput", []),
    ("netraw", "src/device/net/dev_raw.rs", "VirtIONetRaw", ["src/device/net/mod.rs"]),
    ("net", "src/device/net/dev.rs", "VirtIONet", ["src/device/net/mod.rs", "src/device/net/dev_raw.rs"]),
    ("rng", "src/device/rng.rs", "VirtIORng", []),
    ("rtc", "src/device/rtc.rs", "VirtIORtc", []),
    ("socket", "src/device/socket/vsock.rs", "VirtIOSocket", []),
    ("sound", "src/device/sound.rs", "VirtIOSound", []),
    ("p9", "src/device/virtio_9p.rs", "VirtIO9p", []),
]

FIELD_KINDS = [
    (r"^T$", "transport"),
    (r"^VirtQueue\s*<", "queue"),
    (r"^OwningQueue\s*<", "owning"),
    (r"^Option\s*<\s*Dma\s*<", "dmaOpt"),
    (r"^Dma\s*<", "dma"),
    (r"^Box\s*<", "boxed"),
    (r"^VirtIONetRaw\s*<", "inner"),
    (r"^\[\s*Option\s*<\s*RxBuffer\s*>", "rxbufs"),
]

FEATURE_BITS = {"RING_INDIRECT_DESC": 28, "RING_EVENT_IDX": 29, "ACCESS_PLATFORM": 33}


def field_kind(ty, texts, depth=0):
    """kind of a struct field from its type; a private single-field wrapper type (newtype or one-field
    struct) defined next to the driver is looked through"""
    for pat, k in FIELD_KINDS:
        if re.match(pat, ty):
            return k
    m = re.match(r"^(\w+)\b", ty)
    if m and depth < 3:
        name = m.group(1)
        for t in texts:
            tm = re.search(r"\bstruct\s+" + re.escape(name) + r"\b[^;{(]*\(", t)
            if tm:
                pclose = match_close(t, tm.end() - 1)
                parts = [x for x in split_top(t[tm.end():pclose], angles=True) if x.strip()]
                if len(parts) == 1:
                    inner = re.sub(r"^\s*pub(?:\s*\([^)]*\))?\s+", "", parts[0].strip())
                    return field_kind(inner, texts, depth + 1)
            bm = re.search(r"\bstruct\s+" + re.escape(name) + r"\b[^;{(]*\{", t)
            if bm:
                close = match_close(t, bm.end() - 1)
                parts = [re.sub(r"#\[[^\]]*\]", "", x).strip() for x in split_top(t[bm.end():close], angles=True)]
                parts = [x for x in parts if x]
                if len(parts) == 1:
                    fm2 = re.match(r"(?:pub(?:\s*\([^)]*\))?\s+)?\w+\s*:\s*(.+)$", parts[0], flags=re.S)
                    if fm2:
                        return field_kind(fm2.group(1).strip(), texts, depth + 1)
    return "plain"


def const_value(name, texts):
    if re.fullmatch(r"\d+", name):
        return int(name)
    for t in texts:
        m = re.search(r"\bconst\s+" + re.escape(name) + r"\s*:\s*\w+\s*=\s*(\d+)\s*;", t)
        if m:
            return int(m.group(1))
    raise ExtractError(f"cannot resolve constant {name}")


def classify_flag(expr, body):
    expr = expr.strip()
    if expr in ("true", "false"):
        return f".const {expr}"
    # `contains` and `intersects` coincide for a single flag
    m = re.fullmatch(r"\w+\s*\.\s*(?:contains|intersects)\s*\(\s*\w+\s*::\s*(\w+)\s*\)", expr)
    if m:
        if m.group(1) not in FEATURE_BITS:
            raise ExtractError(f"queue flag taken from unexpected feature {m.group(1)}")
        return f".neg {FEATURE_BITS[m.group(1)]}"
    if re.fullmatch(r"\w+", expr):
        # a local: look at its initialiser
        mm = re.search(r"\blet\s+(?:mut\s+)?" + re.escape(expr) + r"\s*(?::[^=;]+)?=\s*([^;]+);", body)
        if mm:
            return classify_flag(mm.group(1), "")
    raise ExtractError(f"cannot classify queue flag argument `{expr}`")


def followed_by_try(text, close):
    return bool(re.match(r"\s*\?", text[close + 1:]))


def lstr(s):
    return '"' + s + '"'


def lopt(s):
    return "none" if s is None else f"(some {lstr(s)})"


def nopt(n):
    return "none" if n is None else f"(some {n})"


def events_of(text, body, consts, resolve):
    """ordered events of one statement"""
    evs = []  # (position, lean term)
    claimed_try = set()

    def call(m_end_open):
        close = match_close(text, m_end_open)
        t = followed_by_try(text, close)
        if t:
            claimed_try.add(close + 1 + re.match(r"\s*", text[close + 1:]).end())
        return close, t

    def b(x):
        return "true" if x else "false"

    for m in re.finditer(r"\.\s*begin_init\s*\(", text):
        evs.append((m.start(), ".beginInit"))
    for m in re.finditer(r"\.\s*finish_init\s*\(\s*\)", text):
        evs.append((m.start(), ".finishInit"))
    for m in re.finditer(r"\bVirtQueue\s*::\s*new\s*\(", text):
        close, t = call(m.end() - 1)
        args = split_top(text[m.end():close])
        if len(args) != 5:
            raise ExtractError(f"VirtQueue::new with {len(args)} arguments")
        q = const_value(args[1], consts)
        fl = [classify_flag(a, body) for a in args[2:5]]
        # the event happens when the call returns: position = closing parenthesis
        evs.append((close, f".queueNew {q} ({fl[0]}) ({fl[1]}) ({fl[2]}) {b(t)}"))
    for m in re.finditer(r"\bOwningQueue\s*::\s*new\s*\(", text):
        close, t = call(m.end() - 1)
        arg = text[m.end():close].strip()
        moved = resolve(arg) if re.fullmatch(r"\w+", arg) else None
        if moved is None and not re.match(r"VirtQueue\s*::\s*new\s*\(", arg):
            raise ExtractError(f"OwningQueue::new with unexpected argument `{arg[:40]}`")
        evs.append((close, f".owningNew {nopt(moved)} {b(t)}"))
    for m in re.finditer(r"\bDma\s*::\s*new\s*\(", text):
        close, t = call(m.end() - 1)
        evs.append((close, f".dmaNew {b(t)}"))
    for m in re.finditer(r"\bVirtIONetRaw\s*::\s*new\s*\(", text):
        close, t = call(m.end() - 1)
        arg = text[m.end():close].strip()
        if not re.fullmatch(r"\w+", arg):
            raise ExtractError(f"VirtIONetRaw::new with unexpected argument `{arg[:40]}`")
        evs.append((close, f".innerNew {resolve(arg)} {b(t)}"))
    cfg_spans = []
    for m in re.finditer(r"\b(?:read_config\s*!|\w+\s*\.\s*read_config_space(?:\s*::\s*<[^>]*>)?|read_mount_tag|\w+\s*\.\s*read_consistent)\s*\(", text):
        # reads nested in the closure of an enclosing read_consistent(..) belong to that one read
        if any(a < m.start() < z for a, z in cfg_spans):
            continue
        close, t = call(m.end() - 1)
        cfg_spans.append((m.end() - 1, close))
        evs.append((close, f".cfgRead {b(t)}"))
    for m in re.finditer(r"\bBox\s*::\s*new\s*\(|\bnew_box_zeroed(?:_with_elems)?\s*\(", text):
        evs.append((m.start(), ".boxNew"))
    for m in re.finditer(r"\b(\w+)\s*\.\s*(add|receive_begin|poll_retrieve)\s*\(", text):
        close, t = call(m.end() - 1)
        # a posting *method* of the driver may notify by itself: look into its body
        notifies = None
        if m.group(2) != "add":
            fm = None
            for ctext in consts:
                fm = re.search(r"\bfn\s+" + m.group(2) + r"\s*(?:<[^>]*>)?\s*\([^{]*\{", ctext)
                if fm:
                    fb = ctext[fm.end():match_close(ctext, fm.end() - 1)]
                    ns = re.findall(r"\.\s*notify\s*\(\s*(\w+)\s*\)", fb)
                    if len(ns) > 1:
                        raise ExtractError(f"{m.group(2)} notifies more than once")
                    if ns:
                        notifies = const_value(ns[0], consts)
                    break
            if not fm:
                raise ExtractError(f"posting method {m.group(2)} not found")
        evs.append((close, f".post {resolve(m.group(1))} {b(t)} {nopt(notifies)}"))
    for m in re.finditer(r"\.\s*notify\s*\(", text):
        close = match_close(text, m.end() - 1)
        q = const_value(text[m.end():close].strip(), consts)
        evs.append((close, f".notify {q}"))
    for m in re.finditer(r"\.\s*queue_unset\s*\(", text):
        raise ExtractError("queue_unset inside a constructor")
    # any other `?` is an unknown fallible operation: keep its position
    for m in re.finditer(r"\?", text):
        if m.start() not in claimed_try and not any(a < m.start() < z for a, z in cfg_spans):
            evs.append((m.start(), ".other true"))
    evs.sort(key=lambda e: e[0])
    # a `?` inside a closure passed to read_consistent belongs to the closure; nested config reads
    # are kept (adjacent config reads are merged by the model)
    return evs


def inline_helpers(body, impl_text, depth=0):
    """A constructor may create its queues through a private associated helper (`Self::helper(..)`)
    whose body is one expression: the call is replaced by that expression with the arguments
    substituted textually, so that the skeleton of events is the same as for the inlined code.
    Anything more complicated is left alone (and shows up as a skeleton mismatch)."""
    if depth > 2:
        return body
    out, pos = [], 0
    for m in re.finditer(r"\bSelf\s*::\s*(\w+)\s*\(", body):
        if m.start() < pos:
            continue
        fm = re.search(r"\bfn\s+" + m.group(1) + r"\s*(?:<[^>]*>)?\s*\(([^)]*)\)\s*(?:->\s*[^{]*)?\{", impl_text)
        if not fm or m.group(1) == "new":
            continue
        hclose = match_close(impl_text, fm.end() - 1)
        hbody = impl_text[fm.end():hclose].strip()
        if ";" in hbody or not re.search(r"\b(VirtQueue|OwningQueue|Dma)\s*::\s*new\s*\(", hbody):
            continue
        names = []
        for prm in split_top(fm.group(1), angles=True):
            pm = re.match(r"\s*(?:mut\s+)?(\w+)\s*:", prm)
            if pm:
                names.append(pm.group(1))
        close = match_close(body, m.end() - 1)
        args = split_top(body[m.end():close]) if body[m.end():close].strip() else []
        if len(args) != len(names):
            continue
        expr = hbody
        for n, a in zip(names, args):
            a = a.strip()
            a = re.sub(r"^&\s*(?:mut\s+)?", "", a) if re.fullmatch(r"&\s*(?:mut\s+)?\w+", a) else a
            rep = a if re.fullmatch(r"[\w:]+", a) else "(" + a + ")"
            expr = re.sub(r"\b" + re.escape(n) + r"\b", lambda _m, rep=rep: rep, expr)
        out.append(body[pos:m.start()])
        out.append(expr)
        pos = close + 1
    out.append(body[pos:])
    res = "".join(out)
    return inline_helpers(res, impl_text, depth + 1) if res != body else res


def extract_driver(repo, short, path, struct, extra):
    raw = open(os.path.join(repo, path)).read()
    s = strip_comments_and_strings(raw)
    consts = [s] + [strip_comments_and_strings(open(os.path.join(repo, e)).read()) for e in extra]
    # every source file in the driver's directory (wrapper types of its fields may live in a sibling file)
    ddir = os.path.dirname(os.path.join(repo, path))
    neighbours = [s] + [strip_comments_and_strings(open(os.path.join(ddir, f)).read()) for f in sorted(os.listdir(ddir)) if f.endswith(".rs") and os.path.join(ddir, f) != os.path.join(repo, path)]
    m = re.search(r"\bpub\s+struct\s+" + struct + r"\b[^{;]*\{", s)
    if not m:
        raise ExtractError(f"{path}: struct {struct} not found")
    close = match_close(s, m.end() - 1)
    fields = []
    for part in split_top(s[m.end():close], angles=True):
        part = re.sub(r"#\[[^\]]*\]", "", part).strip()
        if not part:
            continue
        fm = re.match(r"(?:pub(?:\s*\([^)]*\))?\s+)?(\w+)\s*:\s*(.+)$", part, flags=re.S)
        if not fm:
            raise ExtractError(f"{path}: cannot parse field `{part[:40]}`")
        ty = fm.group(2).strip()
        kind = field_kind(ty, neighbours)
        fields.append((fm.group(1), kind))
    if not fields:
        raise ExtractError(f"{path}: struct {struct} has no fields")
    # impl Drop
    unset = []
    has_drop = False
    dm = re.search(r"\bimpl\s*<[^{]*?\bDrop\s+for\s+" + struct + r"\b[^{]*\{", s, flags=re.S)
    if dm:
        has_drop = True
        dclose = match_close(s, dm.end() - 1)
        dbody = s[dm.end():dclose]
        fm = re.search(r"\bfn\s+drop\s*\(\s*&mut\s+self\s*\)\s*\{", dbody)
        if not fm:
            raise ExtractError(f"{path}: Drop impl without fn drop")
        fclose = match_close(dbody, fm.end() - 1)
        fb = dbody[fm.end():fclose]
        for st, _ in statements(fb):
            st = st.strip()
            um = re.fullmatch(r"self\s*\.\s*transport\s*\.\s*queue_unset\s*\(\s*(\w+)\s*\)\s*;", st)
            if um:
                unset.append(const_value(um.group(1), consts))
                continue
            # `for q in [A, B, C] { self.transport.queue_unset(q); }` is the same sequence, in array order
            lm = re.fullmatch(r"for\s+(\w+)\s+in\s+\[([^\]]*)\]\s*\{\s*self\s*\.\s*transport\s*\.\s*queue_unset\s*\(\s*(\w+)\s*\)\s*;?\s*\}", st, flags=re.S)
            if lm and lm.group(1) == lm.group(3):
                for name in [x.strip() for x in lm.group(2).split(",") if x.strip()]:
                    unset.append(const_value(name, consts))
                continue
            raise ExtractError(f"{path}: unexpected statement in Drop: `{st[:60]}`")
    # constructor
    im = re.search(r"\bimpl\s*<[^{]*?>\s*" + struct + r"\s*<[^{]*\{", s, flags=re.S)
    if not im:
        raise ExtractError(f"{path}: inherent impl of {struct} not found")
    iclose = match_close(s, im.end() - 1)
    ibody = s[im.end():iclose]
    nm = re.search(r"\bpub\s+fn\s+new\s*\(([^)]*)\)\s*->\s*[^{]*\{", ibody)
    if not nm:
        raise ExtractError(f"{path}: {struct}::new not found")
    params = []
    for p in split_top(nm.group(1), angles=True):
        pm = re.match(r"(?:mut\s+)?(\w+)\s*:", p)
        if not pm:
            raise ExtractError(f"{path}: cannot parse parameter `{p}`")
        params.append(pm.group(1))
    nclose = match_close(ibody, nm.end() - 1)
    nbody = inline_helpers(ibody[nm.end():nclose], ibody)
    stmts = []
    local_names = list(params)
    cur = {p: i for i, p in enumerate(params)}

    def resolve(name):
        if name not in cur:
            raise ExtractError(f"{path}: `{name}` is not a local of new()")
        return cur[name]

    for st, _ in statements(nbody):
        bind = None
        lm = re.match(r"let\s+(?:mut\s+)?(\w+)\s*(?::[^=]+)?=", st)
        if re.match(r"let\b", st) and not lm:
            raise ExtractError(f"{path}: unsupported let pattern `{st[:50]}`")
        evs = [e for _, e in events_of(st, nbody, consts, resolve)]
        # the struct literal
        if re.search(r"\b(" + struct + r"|Self)\s*\{", st):
            lit = re.search(r"\b(" + struct + r"|Self)\s*\{", st)
            lclose = match_close(st, lit.end() - 1)
            inits = {}
            for part in split_top(st[lit.end():lclose]):
                pm = re.match(r"(\w+)\s*(?::\s*(.+))?$", part, flags=re.S)
                if not pm:
                    raise ExtractError(f"{path}: cannot parse struct literal entry `{part[:40]}`")
                src = pm.group(2).strip() if pm.group(2) else pm.group(1)
                inits[pm.group(1)] = cur[src] if src in cur else None
            if sorted(inits) != sorted(f for f, _ in fields):
                raise ExtractError(f"{path}: struct literal fields differ from the struct definition")
            evs.append(".build [" + ", ".join(nopt(inits[f]) for f, _ in fields) + "]")
        if lm:
            # the new binding becomes visible after its initialiser has been evaluated
            bind = len(local_names)
            local_names.append(lm.group(1))
            cur[lm.group(1)] = bind
        if evs or bind is not None:
            stmts.append((bind, evs))
    if not any(".build" in e for _, evs in stmts for e in evs):
        raise ExtractError(f"{path}: struct literal of {struct} not found in new()")
    return {"short": short, "struct": struct, "fields": fields, "unset": unset, "has_drop": has_drop, "params": params, "stmts": stmts, "locals": local_names}


HEADER = '''/-! GENERATED by tools/extract.py from the driver sources of /repo — do not edit.
Struct field order, `impl Drop` calls and constructor skeleton of every driver. -/
namespace VirtioVerif.Generated.DropPlan

/-- where a `VirtQueue::new` flag argument comes from -/
inductive Flag
  | neg (bit : Nat)       -- `negotiated.contains(<feature bit>)`
  | const (b : Bool)
deriving DecidableEq, Repr

inductive FieldKind
  | transport | queue | owning | dmaOpt | dma | boxed | inner | rxbufs | plain
deriving DecidableEq, Repr

/-- constructor events, in evaluation order; `fallible` = the call is followed by `?` -/
inductive CEv
  | beginInit
  | cfgRead (fallible : Bool)
  | queueNew (q : Nat) (ind ev ap : Flag) (fallible : Bool)
  | owningNew (moved : Option Nat) (fallible : Bool)
  | dmaNew (fallible : Bool)
  | boxNew
  | post (var : Nat) (fallible : Bool) (notifies : Option Nat)   -- posts driver-owned buffers; a posting method may notify
  | notify (q : Nat)
  | finishInit
  | innerNew (moved : Nat) (fallible : Bool)
  | build (inits : List (Option Nat))
  | other (fallible : Bool)
deriving DecidableEq, Repr

/-- locals are numbered in declaration order (parameters first); a shadowing `let` gets a new number -/
structure Stmt where
  bind : Option Nat
  evs : List CEv
deriving DecidableEq, Repr

structure Driver where
  name : String
  struct : String
  fieldNames : List String
  fields : List FieldKind
  hasDrop : Bool
  dropUnset : List Nat
  localNames : List String
  nparams : Nat
  body : List Stmt
deriving DecidableEq, Repr

'''


def render(ds):
    out = [HEADER]
    for d in ds:
        out.append(f"def {d['short']} : Driver where\n")
        out.append(f"  name := {lstr(d['short'])}\n  struct := {lstr(d['struct'])}\n")
        out.append("  fieldNames := [" + ", ".join(lstr(f) for f, _ in d["fields"]) + "]\n")
        out.append("  fields := [" + ", ".join(f".{k}" for _, k in d["fields"]) + "]\n")
        out.append(f"  hasDrop := {'true' if d['has_drop'] else 'false'}\n")
        out.append("  dropUnset := [" + ", ".join(str(u) for u in d["unset"]) + "]\n")
        out.append("  localNames := [" + ", ".join(lstr(p) for p in d["locals"]) + "]\n")
        out.append(f"  nparams := {len(d['params'])}\n")
        out.append("  body := [\n")
        rows = []
        for bind, evs in d["stmts"]:
            rows.append(f"    ⟨{nopt(bind)}, [" + ", ".join("CEv" + e for e in evs) + "]⟩")
        out.append(",\n".join(rows) + "]\n\n")
    out.append("def all : List Driver := [" + ", ".join(d["short"] for d in ds) + "]\n\n")
    out.append("end VirtioVerif.Generated.DropPlan\n")
    return "".join(out)


def write_if_changed(path, content):
    if os.path.exists(path) and open(path).read() == content:
        return False
    with open(path, "w") as f:
        f.write(content)
    return True


def main():
    repo, outdir = sys.argv[1], sys.argv[2]
    os.makedirs(outdir, exist_ok=True)
    try:
        ds = [extract_driver(repo, *d) for d in DRIVERS]
    except (ExtractError, OSError) as e:
        # leave a file that cannot satisfy the theorems rather than a stale one
        print(f"extract: FAILED: {e}")
        return 1
    changed = write_if_changed(os.path.join(outdir, "DropPlan.lean"), render(ds))
    print("extract: ok" + (" (DropPlan.lean rewritten)" if changed else ""))
    return 0


if __name__ == "__main__":
    sys.exit(main())
