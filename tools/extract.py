#!/usr/bin/env python3
"""Source extractors: regenerate model fragments from /repo's source text on every run.

usage: extract.py <repo> <outdir>
(fragments are added as the properties that need them come online)
"""
import os
import sys


def main():
    repo, outdir = sys.argv[1], sys.argv[2]
    os.makedirs(outdir, exist_ok=True)
    print("extract: ok")


if __name__ == "__main__":
    main()
