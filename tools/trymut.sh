#!/bin/sh
# usage: trymut.sh <patchfile> <prop>...   applies a patch to /repo, runs the checks, reverts
P="$1"; shift
git -C /repo apply "$P" || exit 2
for p in "$@"; do (cd /verif && ./check $p 2>&1 | tail -4); done
git -C /repo checkout -- .
git -C /repo status --short
