#!/bin/sh
# usage: merge_agent.sh <branch> <Cxx>...   (run after `git merge` stopped on conflicts)
B="$1"; shift
git show "$B:tools/props.py" > /tmp/props_x.py 2>/dev/null
git checkout --ours tools/props.py 2>/dev/null
python3 - "$@" <<'PY'
import pprint, sys
ns={}
try:
    exec(open('/tmp/props_x.py').read(), ns)
    for k in sys.argv[1:]:
        if k in ns.get('PROPS',{}):
            open(f'/verif/tools/props.d/{k}.py','w').write('ENTRY = '+pprint.pformat(ns['PROPS'][k],width=110,sort_dicts=False)+'\n')
except Exception as e:
    print('props merge:', e)
PY
python3 tools/merge_both.py harness/src/main.rs lean/Driver.lean lean/VirtioVerif.lean KNOWN_FINDINGS .gitignore
git rm -rq --cached lean/Audit 2>/dev/null; rm -f lean/Audit/*.lean
grep -n "<<<<\|>>>>" harness/src/main.rs lean/Driver.lean lean/VirtioVerif.lean KNOWN_FINDINGS tools/props.py
(cd lean && lake build 2>&1 | grep -E "error" -A5 | head -20)
(cd harness && cargo build 2>&1 | grep -E "^error" -A8 | head -20)
