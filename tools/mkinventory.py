#!/usr/bin/env python3
"""Regenerates DESIGN.md §10.3 (theorem inventory) from evidence/*.json (numbers) and the headline
statements kept here."""
import json, os, re
ROOT = os.path.dirname(os.path.dirname(os.path.abspath(__file__)))
HEAD = {
 "C01": "`add_publishes` (any reachable state: device parser ⇒ caller's buffers, designated slot, +1), `direct/indirect_chain_parses`, `indirect_only_if_enabled`",
 "C02": "`publish_order`, `idx_store_last`, `one_idx_store`, `pop_stores`, `prefix_safe` (every store prefix, every reachable state); `decide` theorems over the regenerated publish skeleton",
 "C03": "`reachable_inv`, `reachable_no_panic`, `count_exact`, `add_accepts_iff`, `pop_releases_exactly`, `pop_notReady/wrongToken`, `pop_ok`, `anwp_foreign_first`, `add_longer_than_queue_refused`; refinement to `AbsQueue`: `add_refines`, `pop_refines`, `devUsed_refines`, `reachable_refinement_invariants`",
 "C04": "`share_once`, `unshare_once`, `unshare_matches_share`, `share_ids_fresh`, `refused_shares_nothing`, `ledger_never_violated` (history level)",
 "C05": "`notify_sound` (all indices, batches ≤ 2^15), `notify_flag`, `usedEvent_rearmed`, `device_must_interrupt_next`, `blocking_told_event/flag`, `blocking_keeps_suppression_word`",
 "C06": "`new_ok` + `PlanOk`, `refuse_*`, `fail_kth`, `release_once`",
 "C07": "`hostile_device_harmless`, `add/pop/queries_noninterference`, `ledger_never_violated`",
 "C08": "`handshake_order`, `version1_accepted`, `skeleton_no_notify_before_driver_ok`, `queue_flags_are_negotiated_bits`, `legacyHeader_iff`, `supported_within_implemented`; queue level (`C08Queue`): `add/pop/setDevNotify/blocking_no_usedEvent`",
 "C09": "`fail_kth`, `cfg_fail`, `drop_after_construct`, `no_reset_needed`, `needs_reset_on_drop`",
 "C10": "`all_legal`, `sel_discipline`, `modern_queue_set_ready_last`, `legacy_queue_set_ok`, `probe_accepts_iff`, `probe_no_write`",
 "C11": "`new_ok`, `scan_first`, `ops_only_windows`, `notify_address`, `drop_resets_and_waits`, `common_accesses_aligned` (every access naturally aligned in physical address space)",
 "C12": "`barInfo_decodes/restores/decode_off`, `cam_injective`, `enumerate_exact`, `capabilities_wellformed`, `capWalk_length_le`",
 "C13": "`access_ok_iff`, `fail_no_access`, `access_ok_exact`, `read_consistent_untorn` (any closure, any schedule), `schedule_contract` / `scheduleCyc_contract`, contract necessity examples",
 "C14": "`decode_encode`, `encode_matches_spec`, chain shapes, `any_completion_order`, `wf_run`",
 "C15": "`stream_exactly_once_in_order`, `at_most_one_outstanding`, `repost_only_when_consumed`, `step_faults`, `utf8_roundtrip`; `EvQueueRefines` (event/console queue ⊑ `AbsQueue`)",
 "C16": "`sendChain_bytes`, `receiveComplete_spec`, `inv_run`, `buffers_never_lost`",
 "C17": "`ring_refines_fifo`, `send_keeps_window`, `one_credit_request`, `lossfree`, `arith_panic_free`",
 "C18": "`frame`, `request_listening/not_listening`, `unknown_no_effect`, `recv_after_peer_shutdown`, `posted_step`",
 "C19": "`same_token_again` (concrete queue), `stocking_fresh_queue`, `owning_exactly_once_in_order`, `poll_spec`, `input_exactly_once_in_order`; `EvQueueRefines`",
 "C20": "request encoders vs spec tables, `order_prefix`, `ok_only_if_all_expected`, `backing_never_released_while_attached`, `backing_never_released_any_device` (every device, every history), `pcmChunks_concat/bounds`, `pcm_xfer_any_device`, `pcm_xfer_no_device_errors`, EDID `preferred_eq_spec`, `no_panic`; `CmdQueueRefines` (command queue ⊑ `AbsQueue`)",
}
def k(n):
    return f"{n:,}".replace(",", " ")
rows, total, axioms = [], 0, set()
for i in range(1, 21):
    p = f"C{i:02d}"
    e = json.load(open(os.path.join(ROOT, "evidence", p + ".json")))
    c = e["coverage"]
    total += c["obligations"]
    for t in c.get("trusted_base", []):
        m = re.match(r"axioms used by the property theorems \(from #print axioms\): (.*)", t)
        if m and m.group(1) != "none":
            axioms.update(a.strip() for a in m.group(1).split(","))
    rows.append(f"| {p} | {c['discharged']}/{c['obligations']} | {HEAD[p]} | {k(c['evaluations'])} / {k(c.get('steps_compared_with_model', 0))} ({e['tier']}) |")
text = ("| id | theorems audited (discharged/obligations) | headline statements | cases / steps compared with the model |\n|---|---|---|---|\n" + "\n".join(rows) +
        f"\n\nAxioms printed by `#print axioms` over all {total} audited theorems: " + ", ".join(f"`{a}`" for a in sorted(axioms)) +
        " only; no `sorry`/`admit`/`axiom`/`native_decide`/`bv_decide`.  `decide +kernel` is used for finite tables (C09, examples).\n")
p = os.path.join(ROOT, "DESIGN.md")
s = open(p).read()
a = s.index("### 10.3 Theorem inventory")
b = s.index("### 10.4 What is")
s = s[:a] + "### 10.3 Theorem inventory (numbers from the committed evidence; regenerate with `tools/mkinventory.py`)\n\n" + text + "\n" + s[b:]
open(p, "w").write(s)
print(total, "theorems")
