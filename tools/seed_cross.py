#!/usr/bin/env python3
"""Runs further (related) checks against each seeded change and records the verdicts in
seeded/<name>/meta.json under "cross_checks" (sequential: /repo is shared)."""
import json, os, re, subprocess, sys
ROOT = os.path.dirname(os.path.dirname(os.path.abspath(__file__)))
QUEUE = ["C01", "C02", "C03", "C04", "C05", "C07", "C19"]
EXTRA = {
    "C06-1": ["C01", "C03"], "C06-2": ["C09"],
    "C08-1": ["C16"], "C08-2": ["C17", "C18"], "C09-1": ["C06"], "C09-2": ["C16"],
    "C11-1": ["C13"], "C11-2": ["C13"], "C13-2": ["C11"], "C13-1": ["C20"],
    "C14-1": ["C07"], "C14-2": ["C07"], "C15-1": ["C07"], "C15-2": ["C07"],
    "C16-1": ["C07"], "C16-2": ["C07"], "C17-1": ["C18"], "C17-2": ["C18"],
    "C18-1": ["C17"], "C18-2": ["C19", "C07", "C17"], "C19-1": ["C18", "C07"],
    "C20-1": ["C09"], "C20-2": ["C07"], "C10-1": ["C08"], "C10-2": ["C08"], "C12-1": ["C11"], "C12-2": ["C11"],
    "C07-2": ["C16"],
}
def sh(cmd, cwd=None, timeout=3600):
    p = subprocess.run(cmd, cwd=cwd, shell=True, stdout=subprocess.PIPE, stderr=subprocess.STDOUT, text=True, timeout=timeout,
                       env=dict(os.environ, VERIF_NO_ESCALATE="1", VERIF_EVIDENCE_DIR=os.path.join(ROOT, "out", "evidence_seeded")))
    return p.returncode, p.stdout
for name in sorted(os.listdir(os.path.join(ROOT, "seeded"))):
    d = os.path.join(ROOT, "seeded", name)
    mp = os.path.join(d, "meta.json")
    if not os.path.exists(mp):
        continue
    m = json.load(open(mp))
    own = m["property"]
    patch = os.path.join(d, "patch.diff")
    files = m.get("files_changed") or []
    others = list(EXTRA.get(name, []))
    if any("queue.rs" in f for f in files):
        others += [p for p in QUEUE if p != own]
    others = [p for p in dict.fromkeys(others) if p != own and p not in m.get("cross_checks", {})]
    if not others:
        continue
    rc, out = sh("git -C /repo status --short")
    if out.strip():
        print("repo dirty"); sys.exit(1)
    rc, out = sh(f"git -C /repo apply {patch}")
    cross = m.get("cross_checks", {})
    try:
        if rc == 0:
            for p in others:
                rc, out = sh(f"./check {p} --tier quick", cwd=ROOT)
                v = [l for l in out.splitlines() if l.startswith("VIOLATION")]
                first = [l for l in out.splitlines() if l.startswith("#")][:1]
                cross[p] = {"verdict": ("concrete" if v and "no-failing-input-found" not in v[0] else "no-failing-input-found" if v else "silent"), "first": first}
                print(name, p, cross[p]["verdict"], flush=True)
    finally:
        sh("git -C /repo checkout -- .")
    m["cross_checks"] = cross
    json.dump(m, open(mp, "w"), indent=1)
print("cross done")
