ENTRY = {'modules': ['VirtioVerif.Props.C18'],
 'assumptions': ['environment: the transmit queue accepts and completes every packet; the device returns '
                 'only receive buffers it was given, in order (hostile used-ring contents are C07)',
                 'per-connection capacity > 0 for the data-path statements'],
 'explanation': 'Lean: the connection table (Vec with swap_remove) refines a map keyed by (peer cid, peer '
                'port, local port): keys stay distinct; requests to listening ports are accepted and '
                'reported, others reset and unreported leaving the table untouched; packets matching no '
                "connection change nothing; every operation and packet leaves every other key's connection "
                'unchanged (frame theorem); shutdown-with-buffered-data semantics; NotConnected / '
                'ConnectionExists; posted + unpolled receive buffers = queue size after every operation '
                'whatever the handler result. Correspondence: lock-step reference connection table in the '
                'harness over several peers/ports incl. foreign, malformed and burst packets; posted-buffer '
                'count observed on the device side after every poll; every other connection probed after '
                'every operation.'}
