ENTRY = {'asan': 'always',
 'modules': ['VirtioVerif.Props.C07', 'VirtioVerif.Props.C04Ledger'],
 'assumptions': ['PARTIAL: memory safety proper (no out-of-bounds or use-after-free access inside the unsafe '
                 'blocks; supported by re-running the stream under AddressSanitizer in both tiers, '
                 'which is testing, not proof) is not exhibited by the model; the model carries the logic (which indices index '
                 'what, what is unshared, which slice bounds are handed out) with Rust panics as explicit '
                 'outcomes, and the executable behaviour is compared with the real code',
                 'the caller follows the contract of the unsafe fns (polls only tokens it holds, with their '
                 'buffers); the device is unconstrained',
                 'driver-level slice bounds (OwningQueue / input / sound / vsock / net / console) are '
                 'carried by the theorems of C19Drivers, C18, C16, C15 and exercised here through their '
                 'hostile streams'],
 'explanation': 'Theorems: (i) for every history with ARBITRARY device writes to the used ring, used index, '
                'flags and event index (the device steps of the op language take any values), a '
                'contract-following caller never sees a panic and the structural invariant (exact descriptor '
                'accounting, pairwise disjoint chains) is preserved (hostile_device_harmless, from the '
                'invariant proofs); a foreign or out-of-range id is rejected with WrongToken without effect; '
                '(ii) NON-INTERFERENCE: results, platform calls, stores and the driver-private successor '
                'state of add / pop_used / the queries do not depend on the contents of the descriptor '
                'table, available ring, avail.idx, avail.flags, used_event (add_noninterference, '
                'pop_noninterference, queries_noninterference). Correspondence: hostile-device stream on the '
                'real queue (never-issued / out-of-range / u16-aliasing / repeated ids, arbitrary lengths, '
                'index jumps, scribbling over driver-owned areas) compared with the model on results, '
                'private state and platform events, with ledger (double unshare, unknown address) and '
                'accounting oracles; plus the hostile / malformed streams of the event-queue, console, net '
                'and vsock modules.',
 'technique': 'Lean 4 invariant + non-interference theorems over an executable model, differential '
              'correspondence under a hostile device, ledger oracles'}
