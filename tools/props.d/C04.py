ENTRY = {'modules': ['VirtioVerif.Props.C04', 'VirtioVerif.Props.C04Inv', 'VirtioVerif.Props.C04Ledger'],
 'assumptions': ['caller contract of the unsafe fns (buffers stay valid and untouched until popped; pop_used '
                 "gets the same buffers as add) — the harness's structured stream honours it, the malformed "
                 "stream deliberately does not and is compared with the model's explicit panic outcomes",
                 'Hal contract: share returns an address usable by the device until unshare; the ledger HAL '
                 'bounces every buffer to a distinct fake device address',
                 'device-visible memory is observed under sequential consistency (store hook between '
                 'consecutive stores); hardware reordering is outside the model (fence presence/strength is '
                 'extracted from the source text for C02)'],
 'explanation': 'Invariant theorems over ALL histories (Lemmas/QueueInv, QueuePop, QueueReach): the '
                'structural invariant of the driver state (free list = duplicate-free in-range chain '
                'disjoint from all outstanding chains, chains pairwise disjoint, num_used exact, shadow and '
                'device-visible descriptors encode each chain) holds in every state reachable from a fresh '
                'queue of any size n<=32768 and mode by any sequence of submissions, polls and arbitrary '
                'device writes to its own areas, and no operation panics under the caller contract. '
                'unshare_matches_share: the platform calls of a pop are exactly the matching images (same '
                'range, same direction, the device address share returned) of the platform calls of the add '
                'that created the chain; share ids are fresh. Theorems for every state: an accepted add '
                'emits exactly one share per caller buffer, in order, with its identity, length and the '
                "direction of its role (no 'Both' exists in the event type), plus one device-readable share "
                'of the indirect table; a refused add and a failed pop emit nothing; a successful pop emits '
                'exactly the matching unshares. The ledger HAL (bounce buffers at distinct device addresses) '
                'checks every unshare tuple against its share, double unshares, leaks after draining, that '
                "the device only resolves live ranges, and that device-written bytes appear in the caller's "
                'buffers exactly at pop. ledger_never_violated: along EVERY history the platform ledger '
                '(fresh id per share, unshare must name a live id with the recorded range and direction) '
                'never reports a violation - no double unshare, no unknown address, no mismatch - and the '
                'live shares are exactly the buffers and indirect tables of the outstanding chains.'}
