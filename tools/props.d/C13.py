ENTRY = {'modules': ['VirtioVerif.Props.C13'],
 'assumptions': ['legacy MMIO devices have no configuration generation (read_config_generation is the constant 0 there, /repo 058e2dd); C13\'s untorn clause is claimed for modern MMIO and PCI (and any transport with a real generation counter); Props.C13.legacy_contract_unsatisfiable and legacy_read_can_tear show that no contract can hold and a torn value can be returned on a legacy device whose configuration changes; legacy MMIO remains in the bounds part',
                 'device contract for read_consistent (explicit hypotheses of Props.C13.Contract): the '
                 'generation register shows a change counter modulo 2^32 (MMIO) / 2^8 (PCI) that increases '
                 'whenever the configuration changes, and fewer than that many changes happen inside one '
                 'iteration of the loop; shown satisfiable (contract_satisfiable) and necessary '
                 '(torn_without_generation_change, torn_when_counter_aliases)',
                 'safe-mmio splits a config access of size 1/2/4/8 into one bus access and any other size '
                 'greedily by address alignment (modelled in Config.chunks, compared on every case)',
                 'PCI: the config window was exercised through a minimal emulated PCI function (one 32-bit '
                 'memory BAR, common/notify/ISR/device capabilities); capability parsing and BAR handling '
                 'themselves belong to C11/C12'],
 'trusted': ['the scheduler device of the harness (Sched) changes configuration and generation together, '
             'i.e. it follows the contract'],
 'explanation': 'Bounds: theorems for every window (MMIO / PCI, present or absent, any length), type size, '
                'alignment and offset: success iff the access lies wholly inside the window (type alignment '
                '<= 4, offset aligned, no usize overflow), in which case the bus accesses tile [off, '
                'off+size) exactly once and stay inside the window; every failure (ConfigSpaceTooSmall, '
                'ConfigSpaceMissing, panic) happens before any access. The model is compared with the real '
                'MmioTransport (legacy, modern) and the real PciTransport on every (offset, type, window '
                'length) combination up to the largest config struct, and an oracle checks containment / '
                'exact coverage / memory effect on the byte-level bus trace. Untorn reads: theorem '
                'read_consistent_untorn for every closure (decision tree of reads), schedule, start time and '
                'retry count under the stated device contract; the five multi-field reads named in the '
                'property are executed in the real drivers on ModelTransport, modern MMIO and PCI '
                'with a configuration change + generation bump inserted before every read position and every '
                'pair of positions; the returned value must be one exposed under a single generation and '
                "must equal the model's.",
 'timeout': {'quick': 1800, 'thorough': 3600}}
