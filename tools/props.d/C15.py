ENTRY = {'modules': ['VirtioVerif.Props.C15', 'VirtioVerif.Props.EvQueueRefines'],
 'assumptions': ['abstract queue (Model/EvQueue.lean, assumptions A1-A4): one-descriptor chains; add fails '
                 'with QueueFull iff posted+used+1 > SIZE; peek/pop follow used-ring order; pop_used returns '
                 "the device's length and copies the device-visible bytes back; the device completes only "
                 'posted chains',
                 'token choice enters only through the hypotheses Alloc.Lifo and Alloc.InitSeq of the '
                 'theorems (instance: Alloc.stack, the free list of queue.rs); the queue-core refinement '
                 '(C01-C03/C19) has to discharge them for the concrete VirtQueue',
                 'honest device for the theorems: each fill writes 1..cap bytes and reports exactly that '
                 'length; the device never suppresses notifications (should_notify() = true) -- the harness '
                 'device behaves so, with and without EVENT_IDX',
                 'blocking calls are modelled with the device acting inside the busy-wait (one script entry '
                 'per firing of the spin hook); a script that never delivers data yields the explicit '
                 'outcome `blocked` (the real call would spin for ever)',
                 'buffer size (PAGE_SIZE) and queue size are parameters of the model (theorems hold for '
                 'every cap >= 1, n >= 1); the harness passes the values it observes (length of the posted '
                 'chain, queue_set size) and separately checks cap = PAGE_SIZE'],
 'trusted': ['reference console device and stream generator in harness/src/c15_console.rs; the stream '
             'formula is duplicated in Lean (Console.streamByte) and Rust (stream_byte)',
             'unwritten receive-buffer bytes read back as 0xA5 (LedgerHal bounce-buffer poison); only '
             'hostile over-reported lengths make them observable'],
 'explanation': 'Lean: invariant `returned ++ queue_buf_rx[cursor..pending_len] ++ chunk-in-used-ring = '
                'bytes written by the device` proved by induction over arbitrary operation lists (all '
                'interleavings of recv peek/pop, read n, fill_buf, consume k, read_ready, ack_interrupt, '
                'sends, size, emergency_write, device fills between calls and inside blocking calls, any '
                'chunking 1..cap), plus: at most one receive buffer outstanding in every reachable state, '
                'buffer outstanding => nothing pending (re-post only after full consumption), wire = exactly '
                'the non-empty buffers sent, and a complete characterisation of the faults (only '
                'out-of-range consume, empty send_bytes, config errors). Harness: the real VirtIOConsole '
                'incl. embedded-io Read/BufRead/ReadReady/Write and fmt::Write against a reference device '
                'feeding a known pseudo-random stream in random chunks at random moments (spin hook inside '
                'wait_for_receive), compared step by step with the model (returned values, buffers the '
                'device sees posted, notifications, transmit chains), plus independent '
                'stream/posting/transmit oracles and a final drain.',
 'timeout': {'quick': 900, 'thorough': 3600}}
