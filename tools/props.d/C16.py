ENTRY = {'modules': ['VirtioVerif.Props.C16'],
 'assumptions': ["abstract queue (Model/AbsQueue.lean), as for C14: fresh tokens < size, VirtQueue::add's "
                 'descriptor accounting, device completes any outstanding chain once in any order with any '
                 'length/contents, pop_used only for the head of the used ring — to be discharged by the '
                 "concrete queue's refinement theorem (C01-C03)",
                 'Hal::share/unshare contract (C04): after pop_used the receive buffer holds the '
                 'device-visible content at completion time; the device reads transmit buffers as the caller '
                 'left them',
                 'RxBuffer is not Clone and is moved into/out of rx_buffers: duplication of a buffer is '
                 "excluded by Rust's ownership typing; the model tracks where each of the QUEUE_SIZE "
                 'allocations is (slot, caller, dropped) and proves none is dropped and slot <-> outstanding '
                 'token agree',
                 "the property's quantifier (frames of length 0..buffer size) means used length >= header "
                 'size; for used < header VirtIONet::receive returns IoError and DROPS the buffer it took '
                 'out of rx_buffers (modelled as `lost`, shown by the malformed stream; reported as an '
                 'observation, outside the property)',
                 'VirtIONet::new asserts token == i: relies on the concrete queue handing out descriptors '
                 '0,1,2,... on a fresh queue (allocation policy, C01); the model takes the tokens from the '
                 'run and reproduces the assertion',
                 'caller honours the safety contracts of the raw API (same buffer to *_complete as to '
                 '*_begin) and recycles only buffers obtained from receive of the same device'],
 'explanation': 'Theorems about the executable network-driver model over the abstract queue: header size '
                "selection (10/12) equals the specification's for the negotiated features, transmit bytes = "
                'zero header ++ payload for every payload (empty payload special case), packet_len = used - '
                'hdr and IoError (no panic) below the header, RxBuffer::packet bounds, VirtIONet buffer '
                'invariant over all histories (slot[t] = some <-> token t outstanding, posted + held + '
                'dropped = QUEUE_SIZE, nothing dropped while used >= hdr, recycle always succeeds, hence '
                'posted returns to QUEUE_SIZE), readiness queries agree with queue state. Compared step by '
                'step with the real VirtIONetRaw and VirtIONet (QUEUE_SIZE 1,2,4,16; real VirtQueue; '
                'bouncing LedgerHal) against a spec-written reference NIC; independent oracles: tx chain '
                'validation (header size from negotiated features, zeroed, payload bytes), frame integrity '
                'on receive, device-side posted-buffer accounting by memory identity, can_send/can_recv '
                'against device-side state.',
 'trusted': ['Spec/Net.lean: transcription of struct virtio_net_hdr and the legacy header rule']}
