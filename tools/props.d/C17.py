ENTRY = {'modules': ['VirtioVerif.Props.C17'],
 'assumptions': ['environment: the transmit queue accepts and completes every packet '
                 '(send_packet_to_tx_queue returns Ok); the reference device does so',
                 'usize is 64 bits (ring-buffer index arithmetic is modelled with an explicit 2^64 overflow '
                 'outcome and proved unreachable for capacities < 2^32)',
                 'capacity 0 is excluded from the theorems (Ring.Wf needs cap > 0): RingBuffer panics on `% '
                 '0` there (theorems cap0_*), DESIGN.md §6 records it as outside the property',
                 "honest peer (loss-freedom): after each data packet the peer's total sent bytes do not "
                 'exceed some earlier advertised fwd_cnt plus buf_alloc (Rx.Honest)'],
 'trusted': ['the >4 GiB receive soak (fwd_cnt wrap through the real ring buffer) is checked by the '
             'reference peer only; the list-based Lean model cannot replay gigabytes (theorem rx_cycle / '
             'lossfree cover it)'],
 'explanation': 'Lean: RingBuffer (buffer, used, start) refines a bounded FIFO for every capacity and every '
                'add/drain sequence; send guard keeps (tx_cnt - peer_fwd_cnt) mod 2^32 <= peer_buf_alloc, '
                'also in true byte counts after any number of wraps; refused sends change no counter and '
                'emit at most one credit request until the next credit update; every header field against '
                "the specification's virtio_vsock_hdr table; panic-freedom of all counter arithmetic for all "
                '32-bit states with negation witnesses for the pre-fix checked arithmetic; loss-freedom '
                'invariant delivered ++ ring ++ wire = sent and exactness of the advertised credit. '
                'Correspondence: the real VsockConnectionManager/VirtIOSocket over LedgerHal + '
                'ModelTransport + reference split-queue device is compared step by step (results, errors, '
                'all 44 header bytes of every transmitted packet, delivered bytes, posted buffers) with the '
                'model; the reference peer independently checks both credit windows and both byte streams, '
                'incl. tx_cnt and fwd_cnt crossing 2^32.'}
