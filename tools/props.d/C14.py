ENTRY = {'modules': ['VirtioVerif.Props.C14'],
 'assumptions': ['abstract queue (Model/AbsQueue.lean): add yields a token that is < size and not '
                 "outstanding, capacity follows VirtQueue::add's descriptor accounting (direct: one "
                 'descriptor per buffer; indirect: one per chain), the device completes any outstanding '
                 'chain once, in any order, with any length and contents, pop_used(token) succeeds only for '
                 'the head of the used ring — to be discharged by the refinement theorem of the concrete '
                 'queue (C01-C03); the correspondence run exercises the real queue under exactly this '
                 'interface',
                 "Hal::share/unshare contract (C04): after a successful pop_used the caller's "
                 'device-writable buffers hold the device-visible content of those segments at completion '
                 'time; the device reads device-readable segments as the caller left them at submission',
                 'the caller honours the safety contract of the *_nb API (same buffers passed to complete_* '
                 'as to *_nb, complete_read for read tokens and complete_write for write tokens)',
                 'usize is 64 bits (block_id as u64 is lossless); targets are little-endian '
                 '(BlkReq::as_bytes is the repr(C) image)',
                 'construction failures of VirtIOBlk::new (missing or short config space, queue allocation) '
                 'belong to C08/C09/C13 and are not modelled here'],
 'explanation': 'Theorems about the executable block-driver model over the abstract queue: header '
                "encode/decode round trip and field positions against the specification's table of struct "
                'virtio_blk_req, chain shapes for every operation, sector and length, total status mapping, '
                'capacity/read-only/flush gating, per-token completion (each accepted complete_* returns the '
                'status and data of its own request, in every reachable state and for every device '
                'completion order), blocking calls on an idle queue. The model is compared step by step with '
                'the real VirtIOBlk (ModelTransport + bouncing LedgerHal + real VirtQueue) served by a '
                'reference block device written from the specification; independent oracles: device-side '
                'decoding of every chain against the spec structure, status semantics, flush suppression, '
                'and end-to-end data integrity of the disk image against a shadow copy kept by the '
                'generator.',
 'trusted': ["Spec/Blk.lean: transcription of the specification's struct virtio_blk_req table and constants"]}
