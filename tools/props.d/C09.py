ENTRY = {'modules': ['VirtioVerif.Props.C09'],
 'assumptions': ['constructor skeletons, struct field orders and Drop bodies are regenerated from the source '
                 "text by tools/extract.py on every run; Rust's drop order (Drop::drop body, then fields in "
                 'declaration order; early return: live locals in reverse declaration order, parameters '
                 'last) is interpreted by Model/DropPlan.lean and confirmed dynamically',
                 'transports reset the device when dropped (MmioTransport, PciTransport: see their Drop '
                 'impls; the model transport emulates it); drivers without a Drop calling queue_unset '
                 '(sound, 9p, buffered net wrapper) rely on that',
                 'VirtQueue::add on a fresh queue of SIZE single-descriptor chains cannot fail (C01/C03), so '
                 'OwningQueue::new and the posting loops fail only as modelled'],
 'explanation': 'Theorems (decide over the regenerated tables, every driver x layout x flag combination x '
                'k): failing the k-th DMA allocation yields DmaError, the ledger of the emitted events is '
                'balanced (each region released exactly once with its page count, nothing else released), '
                'and no queue region / posted buffer is released while the device is live on that queue; '
                'same for config-space failures, queue refusals and for dropping the constructed driver. '
                'Correspondence: fault injection at every k, config failures, refusals, drop after '
                'construction and after use on the model transport, fault injection + drop on the real '
                'MmioTransport (legacy, modern; PciTransport not run), ordered log compared with the model; '
                'oracles: ledger balanced, no release while live (status/queue state at each dealloc), '
                'error-not-panic.',
 'timeout': {'quick': 900, 'thorough': 3600}}
