ENTRY = {'modules': ['VirtioVerif.Props.C10'],
 'assumptions': ['the emulated register device answers reads with scripted values only; the theorems '
                 'quantify over every answer list, the harness samples boundary-biased answers (incl. a '
                 'device that never clears QueueReady)',
                 "register map Spec/MmioRegs.lean and the oracle's Rust table were each written by hand from "
                 'VirtIO 1.2 sections 4.2.2 (Table 4.1) and 4.2.4 (Table 4.2)',
                 'SomeTransport::Mmio is covered by running the same sessions through it (pure delegation); '
                 'its PCI arms belong to C11'],
 'trusted': ['safe-mmio 0.3.1 custom-mmio backend: one MmioOps call per field!/field_shared! access, with '
             'the access width of the field type'],
 'explanation': 'Theorems over every queue index, size, 64-bit address, feature word, status value, '
                'interrupt status and every list of device read answers, for the legacy and the modern '
                "interface, about the executable trace model Mmio.run/probe; the model's complete ordered "
                '(R|W, width, offset, value) trace is compared op by op with the real MmioTransport '
                "(directly and through SomeTransport) on a scripted register-level device behind safe-mmio's "
                "custom backend; an independent oracle evaluates the specification's register-map predicates "
                '(32-bit width, table offsets, direction, interface version, QueueSel discipline, '
                'ready-last, write-back of the interrupt status, Status:=0 on drop, probe acceptance) on the '
                'real trace. The one deviation found (read_config_generation read offset 0xfc on legacy '
                'devices) was fixed in /repo 058e2dd; all_legal is now proved without exception and the '
                'legacy-generation stream keeps the regression covered.'}
