ENTRY = {'modules': ['VirtioVerif.Props.C12'],
 'assumptions': ['reference PCI function (lean Model/PciBus `Fn`/`BarReg`/`BarDecl`, harness pciref.rs '
                 '`RefFn`) follows the PCI 3.0 / PCIe specification: BAR low bits read-only (I/O bit, memory '
                 'type, prefetchable), address bits above the size exponent writable, unimplemented BARs '
                 'hard-wired to zero, status error bits write-one-to-clear, absent functions read all-ones',
                 'CmdOk: the command register implements only the bits the specification defines (0x077f; '
                 'bit 7 and bits 11-15 hard-wired zero); bar_info restores the command through '
                 'Command::from_bits_truncate, so a non-conforming function with a writable reserved bit '
                 'would lose it when decoding was enabled',
                 'I/O BARs are modelled with all 32 address bits above the size exponent writable (a '
                 "16-bit-decode I/O BAR with hard-wired zero upper half is outside the property's "
                 'quantifier; bar_info would report size 0xffff0000+2^k for it)',
                 'bit operations of bus.rs are modelled arithmetically on Nat (x & 7 as x % 8, a | b<<32 as '
                 'a + b*2^32 for disjoint operands, !x+1 on u64 as (2^64-x) % 2^64); this transcription is '
                 'what the correspondence run validates'],
 'explanation': 'Theorems over every BAR declaration (kind, prefetchability, exponent, address), slot, '
                'command and status value about the executable model of bar_info/bars (decoded result = '
                'declaration; final state = initial state on every path; access list is an execution of the '
                'reference function with decode bits clear at every BAR write), closed form + '
                'range/alignment/injectivity of cam_offset for both mechanisms, exactness of bus enumeration '
                'for every population, and the capability walk (well-formed list yielded once in order; at '
                'most 48 entries for any configuration space). The model is compared access-for-access with '
                'the real PciRoot over a reference PCI function reached through a ConfigurationAccess '
                'implementation and through the real MmioCam (CAM and ECAM) on the custom safe-mmio bus; '
                'independent oracles: declared BAR reported, configuration space restored, no BAR write '
                'while decoding enabled, no write outside command/BAR registers, CAM offsets = specification '
                'layout and injective (bitmap), enumeration = populated set, well-formed list walked '
                'exactly, walk terminates.',
 'timeout': {'quick': 600, 'thorough': 1800}}
