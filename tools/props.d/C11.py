ENTRY = {'modules': ['VirtioVerif.Props.C11'],
 'assumptions': ['reference PCI function and CmdOk as for C12 (PCI 3.0 / PCIe register semantics); '
                 'configuration reads return 32-bit values (h32)',
                 'BarDecl.Ok: an assigned BAR address is a multiple of the BAR size and fits the register '
                 'width (a BAR register cannot hold anything else)',
                 'Hal::mmio_phys_to_virt preserves the offset within a page (LedgerHal does: fake vaddr low '
                 '12 bits = paddr low 12 bits), so the alignment test of get_bar_region is decided on the '
                 'physical address',
                 'align_of::<CommonCfg>() = 8 and size_of = 56 on the harness target (x86-64); observed '
                 'black-box through the Misaligned{alignment} payload and the length boundary in the '
                 'correspondence run',
                 'device-status values of a conforming device use only defined status bits, so '
                 'DeviceStatus::from_bits_truncate(v) is empty iff v = 0 (the drop oracle is evaluated on '
                 'such scripts only; the model covers arbitrary bytes)',
                 'MMIO windows larger than 0xffffe000 bytes are emulated only up to that length '
                 '(fake-address stride of LedgerHal); operations are not generated beyond it'],
 'explanation': 'Theorems for all BAR assignments, command/status values, other configuration contents (all '
                'capability lists), 32-bit offsets/lengths/multipliers: PciTransport::new never panics '
                '(u8/u64 overflow outcomes are explicit in the model and proved unreachable), restores '
                'configuration space, and returns an error or four windows each inside an allocated memory '
                'BAR (never the upper half of a 64-bit BAR), long enough, aligned, even multiplier; chosen '
                'capability = first admissible of its type; operations touch only the windows at the '
                "specification's common-cfg offsets/widths, queue_select first, queue_enable last, notify at "
                'queue_notify_off x multiplier inside the window or panic before touching it, drop = write '
                'status 0 then poll until it reads empty. The model is compared access-for-access '
                '(configuration accesses merged with mmio_phys_to_virt requests, final configuration state, '
                'Result, then register traces and results of every Transport operation and the drop) with '
                'the real PciTransport over generated configuration spaces through a ConfigurationAccess '
                'reference function and the real MmioCam (CAM/ECAM). Independent oracles: phys-to-virt '
                'requests inside allocated memory BARs, window length/alignment, first admissible capability '
                '(structured stream), configuration space restored, no BAR write while decoding, no write '
                'outside command/BARs, no MMIO outside windows, common-cfg accesses only at specification '
                'fields, queue_set order, notify address, reset-and-wait on drop, no panic in new, access '
                'budgets against runaway loops.',
 'timeout': {'quick': 600, 'thorough': 1800}}
