ENTRY = {'modules': ['VirtioVerif.Props.C02', 'VirtioVerif.Props.C02Skeleton', 'VirtioVerif.Props.C02Inv'],
 'assumptions': ['caller contract of the unsafe fns (buffers stay valid and untouched until popped; pop_used '
                 "gets the same buffers as add) — the harness's structured stream honours it, the malformed "
                 "stream deliberately does not and is compared with the model's explicit panic outcomes",
                 'Hal contract: share returns an address usable by the device until unshare; the ledger HAL '
                 'bounces every buffer to a distinct fake device address',
                 'device-visible memory is observed under sequential consistency (store hook between '
                 'consecutive stores); hardware reordering is outside the model (fence presence/strength is '
                 'extracted from the source text for C02)'],
 'explanation': 'Theorems: the device-visible stores of a submission are descriptor stores, then the ring '
                'slot, then - last and exactly once, +1 - the available index; pop_used and set_dev_notify '
                'never store to ring or index; plus decide-theorems over the publish skeleton regenerated '
                'from src/queue.rs on every run (fence(SeqCst) between ring store and a Release-or-stronger '
                'index store, every store followed by its hook, no unknown raw access). The real store '
                "sequence is compared with the model's through the store hook, and at every single store the "
                'reference device re-validates on the real memory that everything below the readable index '
                'is complete and in-flight chains are intact. Partial: real hardware memory ordering is not '
                'modelled. prefix_safe: in any reachable state, after ANY prefix of the device-visible '
                'stores of an accepted submission the available index still has its old value unless the '
                'prefix is complete, no descriptor of an already outstanding chain has changed, and no ring '
                'slot other than the designated one has changed.'}
