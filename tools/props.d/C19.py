ENTRY = {'modules': ['VirtioVerif.Props.C19Drivers', 'VirtioVerif.Props.C19', 'VirtioVerif.Props.C19Init', 'VirtioVerif.Props.EvQueueRefines'],
 'assumptions': ['abstract queue (Model/EvQueue.lean, assumptions A1-A4): one-descriptor chains; add fails '
                 'with QueueFull iff posted+used+1 > SIZE; peek/pop follow used-ring order; pop_used returns '
                 "the device's length and copies the device-visible bytes back; the device completes only "
                 "chains it holds, each once, in any order, writing at most the buffer's capacity and "
                 'reporting ANY length (hostile ids / index jumps are C07)',
                 'token choice: hypotheses Alloc.InitSeq (a fresh queue hands out 0,1,2,...) and '
                 'Alloc.Refill (with no other free descriptor, the descriptor just freed is handed out next) '
                 "-- Refill is the instance of Alloc.Lifo ('after pop_used t of a one-descriptor chain, add "
                 "of one buffer returns t') that the fully stocked queues need; Alloc.Lifo.refill derives "
                 'it; the queue-core proof discharges Lifo/InitSeq for queue.rs (instance here: Alloc.stack)',
                 'the device does not suppress notifications (should_notify() = true after every re-post)',
                 'u32 -> usize conversion of the used length cannot fail (64-bit target)'],
 'trusted': ['reference event device and accounting in harness/src/c19_events.rs; event payload formula '
             'duplicated in Lean (EventQueues.evByte) and Rust (ev_byte)',
             'bytes of a buffer the device did not write read back as 0xA5 (LedgerHal bounce poison); '
             'visible only for under-written completions and for input events shorter than 8 bytes'],
 'explanation': 'Queue level: same_token_again (in any reachable state, after a completion is consumed the '
                'next accepted submission gets the same token) and fresh-queue token order discharge the '
                'allocator hypothesis of the driver-level theorems. Lean: for '
                'OwningQueue::{new,pop,add_buffer_to_queue,poll}, VirtIOInput::pop_pending_event and '
                'VirtIOSound::latest_notification over the abstract queue: construction posts buffer i under '
                'token i; one poll with a completion pending pops exactly the head of the used ring, hands '
                'out exactly len bytes (IoError for len > BUFFER_SIZE, handler not called) and in every case '
                're-posts the same buffer under the same token; by induction over arbitrary histories (any '
                'completion order, burst, data, reported length, handler results): delivered ++ '
                'still-in-used-ring = completed (exactly once, in order) and posted + unpolled = SIZE with '
                'the tokens a permutation of 0..SIZE-1 (fully stocked). Harness: floods of up to 60 x SIZE '
                'events against the real OwningQueue (six SIZE/BUFFER_SIZE pairs, three handler kinds), '
                'VirtIOInput and VirtIOSound with random completion order, bursts, every length '
                '0..=BUFFER_SIZE plus under-written and oversized lengths, compared step by step with the '
                'model and checked by device-side posted/returned accounting. stocking_fresh_queue: stocking '
                'a fresh queue of any size and mode with one-buffer chains yields tokens 0,1,2,... (the '
                "constructors' assert_eq!(token, i) cannot fire).",
 'timeout': {'quick': 900, 'thorough': 3600}}
