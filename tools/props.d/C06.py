ENTRY = {'modules': ['VirtioVerif.Props.C06'],
 'assumptions': ['Hal contract: dma_alloc returns zeroed, page-aligned, non-aliasing memory (the ledger HAL '
                 'provides exactly that and the oracle checks zero-fill of the registered areas)',
                 'element sizes (Descriptor 16 bytes, UsedElem 8 bytes) are regenerated from the current '
                 'tree by `vh consts` (rustc is the translator) and imported by the theorems'],
 'explanation': 'Theorems over every size n=2^k (any k), both layouts, all flags and transport answers about '
                'the executable layout model; the model is compared event-for-event with VirtQueue::new + '
                'drop on the exhaustive configuration grid, and an independent oracle checks alignment, '
                'containment, disjointness, direction and zero-fill on the real memory.'}
