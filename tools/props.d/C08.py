ENTRY = {'modules': ['VirtioVerif.Props.C08', 'VirtioVerif.Props.C08Queue'],
 'assumptions': ['constructor skeletons (statement order, flag arguments, `?`), struct field orders and Drop '
                 'bodies of the eleven drivers are regenerated from the source text by tools/extract.py on '
                 'every run; SUPPORTED_FEATURES and queue (index, size) pairs by `vh features` (all 64 bits '
                 'offered on the model transport, value written to the driver-features register)',
                 'the device is passive during construction (writes neither used.flags nor avail_event), so '
                 "a posting constructor's `should_notify()` is true",
                 "max_queue_size answer of the transport >= the driver's queue size in the theorems "
                 '(refusals are compared dynamically under C09)',
                 'transport/x86_64 (hypercalls) cannot run in user space: excluded'],
 'explanation': 'Theorems: begin_init/finish_init shape; for each of the 11 drivers, every offered word and '
                'both layouts the composed constructor runs the status automaton '
                '0,3,read,write,11,queues..,15 with notifications only after 15 and writes offered&supported '
                'once; VERSION_1 accepted when offered; decide-theorems over the regenerated skeletons (no '
                'notify before finish_init, queues between begin_init and finish_init, queue flags = '
                'negotiated bits 28/29/33); gated operations silent without their feature; net header 12 '
                'bytes iff VERSION_1. Correspondence: ordered transport/HAL event list of every driver x '
                'feature word x layout on the model transport, and the register trace of the real '
                'MmioTransport (legacy and modern) over an emulated virtio-mmio device folded back to calls, '
                'against the model (PciTransport not run by this check); oracles written from virtio 1.x '
                '3.1.1.',
 'timeout': {'quick': 900, 'thorough': 3600}}
