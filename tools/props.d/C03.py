ENTRY = {'modules': ['VirtioVerif.Props.C03', 'VirtioVerif.Props.C03Inv', 'VirtioVerif.Props.QueueRefines'],
 'assumptions': ['caller contract of the unsafe fns (buffers stay valid and untouched until popped; pop_used '
                 "gets the same buffers as add) — the harness's structured stream honours it, the malformed "
                 "stream deliberately does not and is compared with the model's explicit panic outcomes",
                 'Hal contract: share returns an address usable by the device until unshare; the ledger HAL '
                 'bounces every buffer to a distinct fake device address',
                 'device-visible memory is observed under sequential consistency (store hook between '
                 'consecutive stores); hardware reordering is outside the model (fence presence/strength is '
                 'extracted from the source text for C02)'],
 'explanation': 'Invariant theorems over ALL histories (Lemmas/QueueInv, QueuePop, QueueReach): the '
                'structural invariant of the driver state (free list = duplicate-free in-range chain '
                'disjoint from all outstanding chains, chains pairwise disjoint, num_used exact, shadow and '
                'device-visible descriptors encode each chain) holds in every state reachable from a fresh '
                'queue of any size n<=32768 and mode by any sequence of submissions, polls and arbitrary '
                'device writes to its own areas, and no operation panics under the caller contract. '
                'count_exact, add_accepts_iff, pop_releases_exactly (exactly the presented chain is '
                'released, its descriptors become free, others stay). Theorems for every state (hence every '
                'history and every 16-bit index value): NotReady/WrongToken change nothing, a successful pop '
                'returns the recorded length for exactly the token at the head of the used ring and advances '
                "last_used_idx by one mod 2^16, refusal of add is exactly 'no buffers' or 'capacity test', "
                'refused add has no side effect, device writes never touch driver-private state; the '
                'accounting statements over whole histories are compared op by op with the real queue '
                '(private counters, available_desc, peek, can_pop) including index soaks across several 2^16 '
                'wraps, with the device-side chain accounting as oracle. QueueRefines: the concrete queue '
                'refines the abstract queue the driver models are written against (add_refines, pop_refines, '
                'devUsed_refines; side invariants hold in every reachable state).'}
