ENTRY = {'modules': ['VirtioVerif.Props.C05'],
 'assumptions': ['the device is specification-following in its *notification* behaviour (vring_need_event / '
                 'NO_NOTIFY flag); its values are otherwise arbitrary',
                 'memory model: sequentially consistent view of the loads of used.flags / avail_event (the '
                 'Acquire loads of the code are not modelled)',
                 "the liveness reading ('blocking helpers return as soon as the device has served') is "
                 'stated as a safety property of the composition: the helper notifies whenever the device is '
                 "entitled to sleep; the wait loop's exit condition is compared dynamically"],
 'explanation': 'Theorems for every 16-bit index value and every batch size up to 2^15 (notify_sound: '
                "specification's vring_need_event implies should_notify, across wrap-around), both flag "
                'values, set_dev_notify exactness, used_event re-arming after every pop, and '
                'add_notify_wait_pop notifying a device that asked for it; the executable model of '
                'should_notify is compared with the real queue on the truth table (thorough: all 2^32 index '
                'pairs), the specification predicate is evaluated as an independent oracle over tracked '
                'batches, and the blocking helper is co-simulated under three device policies via the spin '
                'hook.'}
