ENTRY = {'modules': ['VirtioVerif.Props.C20', 'VirtioVerif.Props.CmdQueueRefines'],
 'assumptions': ['the split-virtqueue core is abstracted by Model/CmdQueue.lean (add returns a token; the '
                 'device completes outstanding chains in any order with any bytes; pop_used only in '
                 'used-ring order) - its refinement by queue.rs is the subject of C01-C05; CmdQueueRefines proves that CmdQueue is the '
                 'abstract queue AbsQueue up to token names (add / refuse / complete in any order / pop / NotReady / '
                 'WrongToken simulation lemmas), and QueueRefines (C03) that the concrete queue refines AbsQueue',
                 'the device is the environment: a universally quantified function from requests to response '
                 'bytes / a universally quantified completion schedule',
                 'Hal contract: dma_alloc returns non-aliasing page-aligned memory; share/unshare bounce '
                 '(the ledger HAL poisons device-writable bounce buffers with 0xA5, which the model takes as '
                 'the initial content of response buffers)'],
 'explanation': 'Byte-level encoders of every GPU/sound/rng/rtc/9p request proved against structure tables '
                'written from the VirtIO specification for all parameter values (decode(encode p) = p, field '
                'k at the specified offset/width/endianness); response checking for all type/status values '
                '(Ok only if every response carried exactly the expected success value); command order of '
                'the multi-command GPU operations for every device behaviour (prefix theorem) and exact '
                'event lists on success; GPU backing-lifetime invariant over arbitrary histories via a '
                'specification-level tracker of the event trace (absent device errors and panics); PCM '
                'chunking (concatenation, bounds) for all lengths/periods; pcm_xfer delivers exactly once in '
                'order against any in-order all-OK device (pcm_xfer_partial) with negation witnesses for the '
                'known finding F10 (out-of-order completion / error status leave buffers shared); EDID '
                'parser equal to a specification-level decode for every blob and size, sorted, stable, at '
                'most 8 entries, no index panic. The models are compared request-for-request, '
                'event-for-event and result-for-result with the real drivers running on ModelTransport + '
                'LedgerHal against reference devices that decode every chain by the specification.',
 'trusted': ['reference GPU/sound/entropy/clock/9P devices and the EDID specification decoder in '
             'harness/src/c20_cmd/ (written from the specification texts)',
             "RTC structure layouts taken from the VirtIO 1.4 RTC device section as cited in the driver's "
             'doc aliases (virtio_rtc_req_*/virtio_rtc_resp_*)'],
 'timeout': {'quick': 600, 'thorough': 3000}}
