ENTRY = {'modules': ['VirtioVerif.Props.C01', 'VirtioVerif.Props.C01Inv'],
 'assumptions': ['caller contract of the unsafe fns (buffers stay valid and untouched until popped; pop_used '
                 "gets the same buffers as add) — the harness's structured stream honours it, the malformed "
                 "stream deliberately does not and is compared with the model's explicit panic outcomes",
                 'Hal contract: share returns an address usable by the device until unshare; the ledger HAL '
                 'bounces every buffer to a distinct fake device address',
                 'device-visible memory is observed under sequential consistency (store hook between '
                 'consecutive stores); hardware reordering is outside the model (fence presence/strength is '
                 'extracted from the source text for C02)'],
 'explanation': 'Invariant theorems over ALL histories (Lemmas/QueueInv, QueuePop, QueueReach): the '
                'structural invariant of the driver state (free list = duplicate-free in-range chain '
                'disjoint from all outstanding chains, chains pairwise disjoint, num_used exact, shadow and '
                'device-visible descriptors encode each chain) holds in every state reachable from a fresh '
                'queue of any size n<=32768 and mode by any sequence of submissions, polls and arbitrary '
                'device writes to its own areas, and no operation panics under the caller contract. '
                'add_publishes: in every reachable state an accepted submission yields a ring entry from '
                "which the DEVICE'S parser (written from the spec: bounds, fuel-bounded walk, flag checks, "
                "readable-before-writable, indirect table shape) obtains exactly the caller's buffers with "
                'the addresses share returned; descriptors of outstanding chains are pairwise disjoint. '
                'Theorems about the executable queue model for every state: an accepted submission fills '
                'exactly the ring slot designated by the previous available index with the returned token, '
                'advances the index by one mod 2^16, and uses an indirect table only if enabled; the chain '
                'the device parses is checked on every submission by the reference device against the '
                'platform ledger (oracle), and the full device-visible image of every store is compared with '
                'the model (store-hook snapshot diffing).'}
