"""Per-property configuration of ./check: which Lean modules carry the property theorems."""

PROPS = {
    "C06": {
        "modules": ["VirtioVerif.Props.C06"],
        "assumptions": [
            "Hal contract: dma_alloc returns zeroed, page-aligned, non-aliasing memory (the ledger HAL provides exactly that and the oracle checks zero-fill of the registered areas)",
            "element sizes (Descriptor 16 bytes, UsedElem 8 bytes) are regenerated from the current tree by `vh consts` (rustc is the translator) and imported by the theorems",
        ],
        "explanation": "Theorems over every size n=2^k (any k), both layouts, all flags and transport answers about the executable layout model; the model is compared event-for-event with VirtQueue::new + drop on the exhaustive configuration grid, and an independent oracle checks alignment, containment, disjointness, direction and zero-fill on the real memory.",
    },
    "C14": {
        "modules": ["VirtioVerif.Props.C14"],
        "assumptions": [
            "abstract queue (Model/AbsQueue.lean): add yields a token that is < size and not outstanding, capacity follows VirtQueue::add's descriptor accounting (direct: one descriptor per buffer; indirect: one per chain), the device completes any outstanding chain once, in any order, with any length and contents, pop_used(token) succeeds only for the head of the used ring — to be discharged by the refinement theorem of the concrete queue (C01-C03); the correspondence run exercises the real queue under exactly this interface",
            "Hal::share/unshare contract (C04): after a successful pop_used the caller's device-writable buffers hold the device-visible content of those segments at completion time; the device reads device-readable segments as the caller left them at submission",
            "the caller honours the safety contract of the *_nb API (same buffers passed to complete_* as to *_nb, complete_read for read tokens and complete_write for write tokens)",
            "usize is 64 bits (block_id as u64 is lossless); targets are little-endian (BlkReq::as_bytes is the repr(C) image)",
            "construction failures of VirtIOBlk::new (missing or short config space, queue allocation) belong to C08/C09/C13 and are not modelled here",
        ],
        "explanation": "Theorems about the executable block-driver model over the abstract queue: header encode/decode round trip and field positions against the specification's table of struct virtio_blk_req, chain shapes for every operation, sector and length, total status mapping, capacity/read-only/flush gating, per-token completion (each accepted complete_* returns the status and data of its own request, in every reachable state and for every device completion order), blocking calls on an idle queue. The model is compared step by step with the real VirtIOBlk (ModelTransport + bouncing LedgerHal + real VirtQueue) served by a reference block device written from the specification; independent oracles: device-side decoding of every chain against the spec structure, status semantics, flush suppression, and end-to-end data integrity of the disk image against a shadow copy kept by the generator.",
        "trusted": ["Spec/Blk.lean: transcription of the specification's struct virtio_blk_req table and constants"],
    },
    "C16": {
        "modules": ["VirtioVerif.Props.C16"],
        "assumptions": [
            "abstract queue (Model/AbsQueue.lean), as for C14: fresh tokens < size, VirtQueue::add's descriptor accounting, device completes any outstanding chain once in any order with any length/contents, pop_used only for the head of the used ring — to be discharged by the concrete queue's refinement theorem (C01-C03)",
            "Hal::share/unshare contract (C04): after pop_used the receive buffer holds the device-visible content at completion time; the device reads transmit buffers as the caller left them",
            "RxBuffer is not Clone and is moved into/out of rx_buffers: duplication of a buffer is excluded by Rust's ownership typing; the model tracks where each of the QUEUE_SIZE allocations is (slot, caller, dropped) and proves none is dropped and slot <-> outstanding token agree",
            "the property's quantifier (frames of length 0..buffer size) means used length >= header size; for used < header VirtIONet::receive returns IoError and DROPS the buffer it took out of rx_buffers (modelled as `lost`, shown by the malformed stream; reported as an observation, outside the property)",
            "VirtIONet::new asserts token == i: relies on the concrete queue handing out descriptors 0,1,2,... on a fresh queue (allocation policy, C01); the model takes the tokens from the run and reproduces the assertion",
            "caller honours the safety contracts of the raw API (same buffer to *_complete as to *_begin) and recycles only buffers obtained from receive of the same device",
        ],
        "explanation": "Theorems about the executable network-driver model over the abstract queue: header size selection (10/12) equals the specification's for the negotiated features, transmit bytes = zero header ++ payload for every payload (empty payload special case), packet_len = used - hdr and IoError (no panic) below the header, RxBuffer::packet bounds, VirtIONet buffer invariant over all histories (slot[t] = some <-> token t outstanding, posted + held + dropped = QUEUE_SIZE, nothing dropped while used >= hdr, recycle always succeeds, hence posted returns to QUEUE_SIZE), readiness queries agree with queue state. Compared step by step with the real VirtIONetRaw and VirtIONet (QUEUE_SIZE 1,2,4,16; real VirtQueue; bouncing LedgerHal) against a spec-written reference NIC; independent oracles: tx chain validation (header size from negotiated features, zeroed, payload bytes), frame integrity on receive, device-side posted-buffer accounting by memory identity, can_send/can_recv against device-side state.",
        "trusted": ["Spec/Net.lean: transcription of struct virtio_net_hdr and the legacy header rule"],
    },
}
