"""Per-property configuration of ./check: which Lean modules carry the property theorems."""

PROPS = {
    "C06": {
        "modules": ["VirtioVerif.Props.C06"],
        "assumptions": [
            "Hal contract: dma_alloc returns zeroed, page-aligned, non-aliasing memory (the ledger HAL provides exactly that and the oracle checks zero-fill of the registered areas)",
            "element sizes (Descriptor 16 bytes, UsedElem 8 bytes) are regenerated from the current tree by `vh consts` (rustc is the translator) and imported by the theorems",
        ],
        "explanation": "Theorems over every size n=2^k (any k), both layouts, all flags and transport answers about the executable layout model; the model is compared event-for-event with VirtQueue::new + drop on the exhaustive configuration grid, and an independent oracle checks alignment, containment, disjointness, direction and zero-fill on the real memory.",
    },
    "C15": {
        "modules": ["VirtioVerif.Props.C15"],
        "assumptions": [
            "abstract queue (Model/EvQueue.lean, assumptions A1-A4): one-descriptor chains; add fails with QueueFull iff posted+used+1 > SIZE; peek/pop follow used-ring order; pop_used returns the device's length and copies the device-visible bytes back; the device completes only posted chains",
            "token choice enters only through the hypotheses Alloc.Lifo and Alloc.InitSeq of the theorems (instance: Alloc.stack, the free list of queue.rs); the queue-core refinement (C01-C03/C19) has to discharge them for the concrete VirtQueue",
            "honest device for the theorems: each fill writes 1..cap bytes and reports exactly that length; the device never suppresses notifications (should_notify() = true) -- the harness device behaves so, with and without EVENT_IDX",
            "blocking calls are modelled with the device acting inside the busy-wait (one script entry per firing of the spin hook); a script that never delivers data yields the explicit outcome `blocked` (the real call would spin for ever)",
            "buffer size (PAGE_SIZE) and queue size are parameters of the model (theorems hold for every cap >= 1, n >= 1); the harness passes the values it observes (length of the posted chain, queue_set size) and separately checks cap = PAGE_SIZE",
        ],
        "trusted": [
            "reference console device and stream generator in harness/src/c15_console.rs; the stream formula is duplicated in Lean (Console.streamByte) and Rust (stream_byte)",
            "unwritten receive-buffer bytes read back as 0xA5 (LedgerHal bounce-buffer poison); only hostile over-reported lengths make them observable",
        ],
        "explanation": "Lean: invariant `returned ++ queue_buf_rx[cursor..pending_len] ++ chunk-in-used-ring = bytes written by the device` proved by induction over arbitrary operation lists (all interleavings of recv peek/pop, read n, fill_buf, consume k, read_ready, ack_interrupt, sends, size, emergency_write, device fills between calls and inside blocking calls, any chunking 1..cap), plus: at most one receive buffer outstanding in every reachable state, buffer outstanding => nothing pending (re-post only after full consumption), wire = exactly the non-empty buffers sent, and a complete characterisation of the faults (only out-of-range consume, empty send_bytes, config errors). Harness: the real VirtIOConsole incl. embedded-io Read/BufRead/ReadReady/Write and fmt::Write against a reference device feeding a known pseudo-random stream in random chunks at random moments (spin hook inside wait_for_receive), compared step by step with the model (returned values, buffers the device sees posted, notifications, transmit chains), plus independent stream/posting/transmit oracles and a final drain.",
        "timeout": {"quick": 900, "thorough": 3600},
    },
    "C19": {
        # driver-level half (OwningQueue / VirtIOInput / VirtIOSound over the abstract queue); the
        # queue-level half (LIFO "same token again" on the concrete queue model) belongs to
        # VirtioVerif.Props.C19 of the queue-core work and is to be appended to this list
        "modules": ["VirtioVerif.Props.C19Drivers"],
        "assumptions": [
            "abstract queue (Model/EvQueue.lean, assumptions A1-A4): one-descriptor chains; add fails with QueueFull iff posted+used+1 > SIZE; peek/pop follow used-ring order; pop_used returns the device's length and copies the device-visible bytes back; the device completes only chains it holds, each once, in any order, writing at most the buffer's capacity and reporting ANY length (hostile ids / index jumps are C07)",
            "token choice: hypotheses Alloc.InitSeq (a fresh queue hands out 0,1,2,...) and Alloc.Refill (with no other free descriptor, the descriptor just freed is handed out next) -- Refill is the instance of Alloc.Lifo ('after pop_used t of a one-descriptor chain, add of one buffer returns t') that the fully stocked queues need; Alloc.Lifo.refill derives it; the queue-core proof discharges Lifo/InitSeq for queue.rs (instance here: Alloc.stack)",
            "the device does not suppress notifications (should_notify() = true after every re-post)",
            "u32 -> usize conversion of the used length cannot fail (64-bit target)",
        ],
        "trusted": [
            "reference event device and accounting in harness/src/c19_events.rs; event payload formula duplicated in Lean (EventQueues.evByte) and Rust (ev_byte)",
            "bytes of a buffer the device did not write read back as 0xA5 (LedgerHal bounce poison); visible only for under-written completions and for input events shorter than 8 bytes",
        ],
        "explanation": "Lean: for OwningQueue::{new,pop,add_buffer_to_queue,poll}, VirtIOInput::pop_pending_event and VirtIOSound::latest_notification over the abstract queue: construction posts buffer i under token i; one poll with a completion pending pops exactly the head of the used ring, hands out exactly len bytes (IoError for len > BUFFER_SIZE, handler not called) and in every case re-posts the same buffer under the same token; by induction over arbitrary histories (any completion order, burst, data, reported length, handler results): delivered ++ still-in-used-ring = completed (exactly once, in order) and posted + unpolled = SIZE with the tokens a permutation of 0..SIZE-1 (fully stocked). Harness: floods of up to 60 x SIZE events against the real OwningQueue (six SIZE/BUFFER_SIZE pairs, three handler kinds), VirtIOInput and VirtIOSound with random completion order, bursts, every length 0..=BUFFER_SIZE plus under-written and oversized lengths, compared step by step with the model and checked by device-side posted/returned accounting.",
        "timeout": {"quick": 900, "thorough": 3600},
    },
}
