"""Per-property configuration of ./check: which Lean modules carry the property theorems."""

PROPS = {
    "C06": {
        "modules": ["VirtioVerif.Props.C06"],
        "assumptions": [
            "Hal contract: dma_alloc returns zeroed, page-aligned, non-aliasing memory (the ledger HAL provides exactly that and the oracle checks zero-fill of the registered areas)",
            "element sizes (Descriptor 16 bytes, UsedElem 8 bytes) are regenerated from the current tree by `vh consts` (rustc is the translator) and imported by the theorems",
        ],
        "explanation": "Theorems over every size n=2^k (any k), both layouts, all flags and transport answers about the executable layout model; the model is compared event-for-event with VirtQueue::new + drop on the exhaustive configuration grid, and an independent oracle checks alignment, containment, disjointness, direction and zero-fill on the real memory.",
    },
    "C12": {
        "modules": ["VirtioVerif.Props.C12"],
        "assumptions": [
            "reference PCI function (lean Model/PciBus `Fn`/`BarReg`/`BarDecl`, harness pciref.rs `RefFn`) follows the PCI 3.0 / PCIe specification: BAR low bits read-only (I/O bit, memory type, prefetchable), address bits above the size exponent writable, unimplemented BARs hard-wired to zero, status error bits write-one-to-clear, absent functions read all-ones",
            "CmdOk: the command register implements only the bits the specification defines (0x077f; bit 7 and bits 11-15 hard-wired zero); bar_info restores the command through Command::from_bits_truncate, so a non-conforming function with a writable reserved bit would lose it when decoding was enabled",
            "I/O BARs are modelled with all 32 address bits above the size exponent writable (a 16-bit-decode I/O BAR with hard-wired zero upper half is outside the property's quantifier; bar_info would report size 0xffff0000+2^k for it)",
            "bit operations of bus.rs are modelled arithmetically on Nat (x & 7 as x % 8, a | b<<32 as a + b*2^32 for disjoint operands, !x+1 on u64 as (2^64-x) % 2^64); this transcription is what the correspondence run validates",
        ],
        "explanation": "Theorems over every BAR declaration (kind, prefetchability, exponent, address), slot, command and status value about the executable model of bar_info/bars (decoded result = declaration; final state = initial state on every path; access list is an execution of the reference function with decode bits clear at every BAR write), closed form + range/alignment/injectivity of cam_offset for both mechanisms, exactness of bus enumeration for every population, and the capability walk (well-formed list yielded once in order; at most 48 entries for any configuration space). The model is compared access-for-access with the real PciRoot over a reference PCI function reached through a ConfigurationAccess implementation and through the real MmioCam (CAM and ECAM) on the custom safe-mmio bus; independent oracles: declared BAR reported, configuration space restored, no BAR write while decoding enabled, no write outside command/BAR registers, CAM offsets = specification layout and injective (bitmap), enumeration = populated set, well-formed list walked exactly, walk terminates.",
        "timeout": {"quick": 600, "thorough": 1800},
    },
    "C11": {
        "modules": ["VirtioVerif.Props.C11"],
        "assumptions": [
            "reference PCI function and CmdOk as for C12 (PCI 3.0 / PCIe register semantics); configuration reads return 32-bit values (h32)",
            "BarDecl.Ok: an assigned BAR address is a multiple of the BAR size and fits the register width (a BAR register cannot hold anything else)",
            "Hal::mmio_phys_to_virt preserves the offset within a page (LedgerHal does: fake vaddr low 12 bits = paddr low 12 bits), so the alignment test of get_bar_region is decided on the physical address",
            "align_of::<CommonCfg>() = 8 and size_of = 56 on the harness target (x86-64); observed black-box through the Misaligned{alignment} payload and the length boundary in the correspondence run",
            "device-status values of a conforming device use only defined status bits, so DeviceStatus::from_bits_truncate(v) is empty iff v = 0 (the drop oracle is evaluated on such scripts only; the model covers arbitrary bytes)",
            "MMIO windows larger than 0xffffe000 bytes are emulated only up to that length (fake-address stride of LedgerHal); operations are not generated beyond it",
        ],
        "explanation": "Theorems for all BAR assignments, command/status values, other configuration contents (all capability lists), 32-bit offsets/lengths/multipliers: PciTransport::new never panics (u8/u64 overflow outcomes are explicit in the model and proved unreachable), restores configuration space, and returns an error or four windows each inside an allocated memory BAR (never the upper half of a 64-bit BAR), long enough, aligned, even multiplier; chosen capability = first admissible of its type; operations touch only the windows at the specification's common-cfg offsets/widths, queue_select first, queue_enable last, notify at queue_notify_off x multiplier inside the window or panic before touching it, drop = write status 0 then poll until it reads empty. The model is compared access-for-access (configuration accesses merged with mmio_phys_to_virt requests, final configuration state, Result, then register traces and results of every Transport operation and the drop) with the real PciTransport over generated configuration spaces through a ConfigurationAccess reference function and the real MmioCam (CAM/ECAM). Independent oracles: phys-to-virt requests inside allocated memory BARs, window length/alignment, first admissible capability (structured stream), configuration space restored, no BAR write while decoding, no write outside command/BARs, no MMIO outside windows, common-cfg accesses only at specification fields, queue_set order, notify address, reset-and-wait on drop, no panic in new, access budgets against runaway loops.",
        "timeout": {"quick": 600, "thorough": 1800},
    },
}
