"""Per-property configuration of ./check: which Lean modules carry the property theorems."""

PROPS = {
    "C06": {
        "modules": ["VirtioVerif.Props.C06"],
        "assumptions": [
            "Hal contract: dma_alloc returns zeroed, page-aligned, non-aliasing memory (the ledger HAL provides exactly that and the oracle checks zero-fill of the registered areas)",
            "element sizes (Descriptor 16 bytes, UsedElem 8 bytes) are regenerated from the current tree by `vh consts` (rustc is the translator) and imported by the theorems",
        ],
        "explanation": "Theorems over every size n=2^k (any k), both layouts, all flags and transport answers about the executable layout model; the model is compared event-for-event with VirtQueue::new + drop on the exhaustive configuration grid, and an independent oracle checks alignment, containment, disjointness, direction and zero-fill on the real memory.",
    },
    "C17": {
        "modules": ["VirtioVerif.Props.C17"],
        "assumptions": [
            "environment: the transmit queue accepts and completes every packet (send_packet_to_tx_queue returns Ok); the reference device does so",
            "usize is 64 bits (ring-buffer index arithmetic is modelled with an explicit 2^64 overflow outcome and proved unreachable for capacities < 2^32)",
            "capacity 0 is excluded from the theorems (Ring.Wf needs cap > 0): RingBuffer panics on `% 0` there (theorems cap0_*), DESIGN.md §6 records it as outside the property",
            "honest peer (loss-freedom): after each data packet the peer's total sent bytes do not exceed some earlier advertised fwd_cnt plus buf_alloc (Rx.Honest)",
        ],
        "trusted": [
            "the >4 GiB receive soak (fwd_cnt wrap through the real ring buffer) is checked by the reference peer only; the list-based Lean model cannot replay gigabytes (theorem rx_cycle / lossfree cover it)",
        ],
        "explanation": "Lean: RingBuffer (buffer, used, start) refines a bounded FIFO for every capacity and every add/drain sequence; send guard keeps (tx_cnt - peer_fwd_cnt) mod 2^32 <= peer_buf_alloc, also in true byte counts after any number of wraps; refused sends change no counter and emit at most one credit request until the next credit update; every header field against the specification's virtio_vsock_hdr table; panic-freedom of all counter arithmetic for all 32-bit states with negation witnesses for the pre-fix checked arithmetic; loss-freedom invariant delivered ++ ring ++ wire = sent and exactness of the advertised credit. Correspondence: the real VsockConnectionManager/VirtIOSocket over LedgerHal + ModelTransport + reference split-queue device is compared step by step (results, errors, all 44 header bytes of every transmitted packet, delivered bytes, posted buffers) with the model; the reference peer independently checks both credit windows and both byte streams, incl. tx_cnt and fwd_cnt crossing 2^32.",
    },
    "C18": {
        "modules": ["VirtioVerif.Props.C18"],
        "assumptions": [
            "environment: the transmit queue accepts and completes every packet; the device returns only receive buffers it was given, in order (hostile used-ring contents are C07)",
            "per-connection capacity > 0 for the data-path statements",
        ],
        "explanation": "Lean: the connection table (Vec with swap_remove) refines a map keyed by (peer cid, peer port, local port): keys stay distinct; requests to listening ports are accepted and reported, others reset and unreported leaving the table untouched; packets matching no connection change nothing; every operation and packet leaves every other key's connection unchanged (frame theorem); shutdown-with-buffered-data semantics; NotConnected / ConnectionExists; posted + unpolled receive buffers = queue size after every operation whatever the handler result. Correspondence: lock-step reference connection table in the harness over several peers/ports incl. foreign, malformed and burst packets; posted-buffer count observed on the device side after every poll; every other connection probed after every operation.",
    },
}
