"""Per-property configuration of ./check: which Lean modules carry the property theorems."""

PROPS = {
    "C06": {
        "modules": ["VirtioVerif.Props.C06"],
        "assumptions": [
            "Hal contract: dma_alloc returns zeroed, page-aligned, non-aliasing memory (the ledger HAL provides exactly that and the oracle checks zero-fill of the registered areas)",
            "element sizes (Descriptor 16 bytes, UsedElem 8 bytes) are regenerated from the current tree by `vh consts` (rustc is the translator) and imported by the theorems",
        ],
        "explanation": "Theorems over every size n=2^k (any k), both layouts, all flags and transport answers about the executable layout model; the model is compared event-for-event with VirtQueue::new + drop on the exhaustive configuration grid, and an independent oracle checks alignment, containment, disjointness, direction and zero-fill on the real memory.",
    },
    "C20": {
        "modules": ["VirtioVerif.Props.C20"],
        "assumptions": [
            "the split-virtqueue core is abstracted by Model/CmdQueue.lean (add returns a token; the device completes outstanding chains in any order with any bytes; pop_used only in used-ring order) - its refinement by queue.rs is the subject of C01-C05",
            "the device is the environment: a universally quantified function from requests to response bytes / a universally quantified completion schedule",
            "Hal contract: dma_alloc returns non-aliasing page-aligned memory; share/unshare bounce (the ledger HAL poisons device-writable bounce buffers with 0xA5, which the model takes as the initial content of response buffers)",
        ],
        "explanation": "Byte-level encoders of every GPU/sound/rng/rtc/9p request proved against structure tables written from the VirtIO specification for all parameter values; sequencing machines of the multi-command operations; response checking for all type values; GPU backing lifetime invariant; PCM chunking and in-order delivery; EDID parser equal to a specification-level decode for every blob. The models are compared request-for-request with the real drivers running against reference devices that decode every chain by the specification.",
        "timeout": {"quick": 600, "thorough": 3000},
    },
}
