"""Per-property configuration of ./check: which Lean modules carry the property theorems."""

PROPS = {
    "C06": {
        "modules": ["VirtioVerif.Props.C06"],
        "assumptions": [
            "Hal contract: dma_alloc returns zeroed, page-aligned, non-aliasing memory (the ledger HAL provides exactly that and the oracle checks zero-fill of the registered areas)",
            "element sizes (Descriptor 16 bytes, UsedElem 8 bytes) are regenerated from the current tree by `vh consts` (rustc is the translator) and imported by the theorems",
        ],
        "explanation": "Theorems over every size n=2^k (any k), both layouts, all flags and transport answers about the executable layout model; the model is compared event-for-event with VirtQueue::new + drop on the exhaustive configuration grid, and an independent oracle checks alignment, containment, disjointness, direction and zero-fill on the real memory.",
    },
    "C08": {
        "modules": ["VirtioVerif.Props.C08"],
        "assumptions": [
            "constructor skeletons (statement order, flag arguments, `?`), struct field orders and Drop bodies of the eleven drivers are regenerated from the source text by tools/extract.py on every run; SUPPORTED_FEATURES and queue (index, size) pairs by `vh features` (all 64 bits offered on the model transport, value written to the driver-features register)",
            "the device is passive during construction (writes neither used.flags nor avail_event), so a posting constructor's `should_notify()` is true",
            "max_queue_size answer of the transport >= the driver's queue size in the theorems (refusals are compared dynamically under C09)",
            "transport/x86_64 (hypercalls) cannot run in user space: excluded",
        ],
        "explanation": "Theorems: begin_init/finish_init shape; for each of the 11 drivers, every offered word and both layouts the composed constructor runs the status automaton 0,3,read,write,11,queues..,15 with notifications only after 15 and writes offered&supported once; VERSION_1 accepted when offered; decide-theorems over the regenerated skeletons (no notify before finish_init, queues between begin_init and finish_init, queue flags = negotiated bits 28/29/33); gated operations silent without their feature; net header 12 bytes iff VERSION_1. Correspondence: ordered transport/HAL event list of every driver x feature word x layout on the model transport, and the register trace of the real MmioTransport (legacy and modern) over an emulated virtio-mmio device folded back to calls, against the model (PciTransport not run by this check); oracles written from virtio 1.x 3.1.1.",
        "timeout": {"quick": 900, "thorough": 3600},
    },
    "C09": {
        "modules": ["VirtioVerif.Props.C09"],
        "assumptions": [
            "constructor skeletons, struct field orders and Drop bodies are regenerated from the source text by tools/extract.py on every run; Rust's drop order (Drop::drop body, then fields in declaration order; early return: live locals in reverse declaration order, parameters last) is interpreted by Model/DropPlan.lean and confirmed dynamically",
            "transports reset the device when dropped (MmioTransport, PciTransport: see their Drop impls; the model transport emulates it); drivers without a Drop calling queue_unset (sound, 9p, buffered net wrapper) rely on that",
            "VirtQueue::add on a fresh queue of SIZE single-descriptor chains cannot fail (C01/C03), so OwningQueue::new and the posting loops fail only as modelled",
        ],
        "explanation": "Theorems (decide over the regenerated tables, every driver x layout x flag combination x k): failing the k-th DMA allocation yields DmaError, the ledger of the emitted events is balanced (each region released exactly once with its page count, nothing else released), and no queue region / posted buffer is released while the device is live on that queue; same for config-space failures, queue refusals and for dropping the constructed driver. Correspondence: fault injection at every k, config failures, refusals, drop after construction and after use on the model transport, fault injection + drop on the real MmioTransport (legacy, modern; PciTransport not run), ordered log compared with the model; oracles: ledger balanced, no release while live (status/queue state at each dealloc), error-not-panic.",
        "timeout": {"quick": 900, "thorough": 3600},
    },
}
