"""Per-property configuration of ./check (which Lean modules carry the property theorems, the
assumptions and the level text).  One file per property under tools/props.d/<id>.py defining ENTRY."""
import glob
import os

PROPS = {}
NOT_APPLICABLE = {}
_d = os.path.join(os.path.dirname(os.path.abspath(__file__)), "props.d")
for _p in sorted(glob.glob(os.path.join(_d, "C*.py"))):
    _ns = {}
    exec(compile(open(_p).read(), _p, "exec"), _ns)
    PROPS[os.path.basename(_p)[:-3]] = _ns["ENTRY"]
