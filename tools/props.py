"""Per-property configuration of ./check: which Lean modules carry the property theorems."""

PROPS = {
    "C06": {
        "modules": ["VirtioVerif.Props.C06"],
        "assumptions": [
            "Hal contract: dma_alloc returns zeroed, page-aligned, non-aliasing memory (the ledger HAL provides exactly that and the oracle checks zero-fill of the registered areas)",
            "element sizes (Descriptor 16 bytes, UsedElem 8 bytes) are regenerated from the current tree by `vh consts` (rustc is the translator) and imported by the theorems",
        ],
        "explanation": "Theorems over every size n=2^k (any k), both layouts, all flags and transport answers about the executable layout model; the model is compared event-for-event with VirtQueue::new + drop on the exhaustive configuration grid, and an independent oracle checks alignment, containment, disjointness, direction and zero-fill on the real memory.",
    },
    "C10": {
        "modules": ["VirtioVerif.Props.C10"],
        "assumptions": [
            "the emulated register device answers reads with scripted values only; the theorems quantify over every answer list, the harness samples boundary-biased answers (incl. a device that never clears QueueReady)",
            "register map Spec/MmioRegs.lean and the oracle's Rust table were each written by hand from VirtIO 1.2 sections 4.2.2 (Table 4.1) and 4.2.4 (Table 4.2)",
            "SomeTransport::Mmio is covered by running the same sessions through it (pure delegation); its PCI arms belong to C11",
        ],
        "trusted": ["safe-mmio 0.3.1 custom-mmio backend: one MmioOps call per field!/field_shared! access, with the access width of the field type"],
        "explanation": "Theorems over every queue index, size, 64-bit address, feature word, status value, interrupt status and every list of device read answers, for the legacy and the modern interface, about the executable trace model Mmio.run/probe; the model's complete ordered (R|W, width, offset, value) trace is compared op by op with the real MmioTransport (directly and through SomeTransport) on a scripted register-level device behind safe-mmio's custom backend; an independent oracle evaluates the specification's register-map predicates (32-bit width, table offsets, direction, interface version, QueueSel discipline, ready-last, write-back of the interrupt status, Status:=0 on drop, probe acceptance) on the real trace. One deviation is recorded as a known finding: read_config_generation reads offset 0xfc on legacy devices.",
    },
    "C13": {
        "modules": ["VirtioVerif.Props.C13"],
        "assumptions": [
            "device contract for read_consistent (explicit hypotheses of Props.C13.Contract): the generation register shows a change counter modulo 2^32 (MMIO) / 2^8 (PCI) that increases whenever the configuration changes, and fewer than that many changes happen inside one iteration of the loop; shown satisfiable (contract_satisfiable) and necessary (torn_without_generation_change, torn_when_counter_aliases)",
            "safe-mmio splits a config access of size 1/2/4/8 into one bus access and any other size greedily by address alignment (modelled in Config.chunks, compared on every case)",
            "PCI: the config window was exercised through a minimal emulated PCI function (one 32-bit memory BAR, common/notify/ISR/device capabilities); capability parsing and BAR handling themselves belong to C11/C12",
        ],
        "trusted": ["the scheduler device of the harness (Sched) changes configuration and generation together, i.e. it follows the contract"],
        "explanation": "Bounds: theorems for every window (MMIO / PCI, present or absent, any length), type size, alignment and offset: success iff the access lies wholly inside the window (type alignment <= 4, offset aligned, no usize overflow), in which case the bus accesses tile [off, off+size) exactly once and stay inside the window; every failure (ConfigSpaceTooSmall, ConfigSpaceMissing, panic) happens before any access. The model is compared with the real MmioTransport (legacy, modern) and the real PciTransport on every (offset, type, window length) combination up to the largest config struct, and an oracle checks containment / exact coverage / memory effect on the byte-level bus trace. Untorn reads: theorem read_consistent_untorn for every closure (decision tree of reads), schedule, start time and retry count under the stated device contract; the five multi-field reads named in the property are executed in the real drivers on ModelTransport, MMIO (legacy, modern) and PCI with a configuration change + generation bump inserted before every read position and every pair of positions; the returned value must be one exposed under a single generation and must equal the model's.",
        "timeout": {"quick": 1800, "thorough": 3600},
    },
}
