"""Per-property configuration of ./check: which Lean modules carry the property theorems."""

PROPS = {
    "C06": {
        "modules": ["VirtioVerif.Props.C06"],
        "assumptions": [
            "Hal contract: dma_alloc returns zeroed, page-aligned, non-aliasing memory (the ledger HAL provides exactly that and the oracle checks zero-fill of the registered areas)",
            "element sizes (Descriptor 16 bytes, UsedElem 8 bytes) are regenerated from the current tree by `vh consts` (rustc is the translator) and imported by the theorems",
        ],
        "explanation": "Theorems over every size n=2^k (any k), both layouts, all flags and transport answers about the executable layout model; the model is compared event-for-event with VirtQueue::new + drop on the exhaustive configuration grid, and an independent oracle checks alignment, containment, disjointness, direction and zero-fill on the real memory.",
    },
    "C05": {
        "modules": ["VirtioVerif.Props.C05"],
        "assumptions": [
            "the device is specification-following in its *notification* behaviour (vring_need_event / NO_NOTIFY flag); its values are otherwise arbitrary",
            "memory model: sequentially consistent view of the loads of used.flags / avail_event (the Acquire loads of the code are not modelled)",
            "the liveness reading ('blocking helpers return as soon as the device has served') is stated as a safety property of the composition: the helper notifies whenever the device is entitled to sleep; the wait loop's exit condition is compared dynamically",
        ],
        "explanation": "Theorems for every 16-bit index value and every batch size up to 2^15 (notify_sound: specification's vring_need_event implies should_notify, across wrap-around), both flag values, set_dev_notify exactness, used_event re-arming after every pop, and add_notify_wait_pop notifying a device that asked for it; the executable model of should_notify is compared with the real queue on the truth table (thorough: all 2^32 index pairs), the specification predicate is evaluated as an independent oracle over tracked batches, and the blocking helper is co-simulated under three device policies via the spin hook.",
    },
}
