#!/usr/bin/env python3
"""Re-runs only the confirmation part of seed_eval.py for seeds whose confirmation was spoilt by the
load-sensitive baseline test `console::embedded_io::tests::read_exact` (DESIGN §9): scratch worktree of
/repo HEAD, patch, build, suite (up to 5 attempts when read_exact is the only failure), demonstration
both ways.  Updates `confirmed_by_me` in seeded/<name>/meta.json; the check verdicts are left as they are.

usage: seed_reconfirm.py <name> [...]
"""
import json, os, re, subprocess, sys
ROOT = os.path.dirname(os.path.dirname(os.path.abspath(__file__)))


def sh(cmd, cwd=None, timeout=1800):
    p = subprocess.run(cmd, cwd=cwd, shell=True, stdout=subprocess.PIPE, stderr=subprocess.STDOUT, text=True, timeout=timeout, env=dict(os.environ, CARGO_NET_OFFLINE="true"))
    return p.returncode, p.stdout


# demonstrations that enable safe-mmio's `custom-mmio` feature through a dev-dependency can only be run as
# their own test target (the crate's other test binaries do not link with that feature on)
DEMO_TARGET = {"C10-7": "--test c10_demo1", "C11-8": "--test demo_c11_drop_reset"}


def suite(cwd, flags="", target=""):
    out = ""
    for attempt in range(5):
        rc, out = sh(f"{flags} cargo test --offline {target} > .suite.log 2>&1; echo RC=$?; tail -60 .suite.log; rm -f .suite.log", cwd=cwd)
        res = re.findall(r"test result: (\w+)\. (\d+) passed; (\d+) failed", out)
        if bool(res) and all(r[0] == "ok" for r in res) and "RC=0" in out:
            return True, attempt + 1
        if "read_exact" not in out:
            break
    return False, out[-800:]


for name in sys.argv[1:]:
    d = os.path.join(ROOT, "seeded", name)
    meta = json.load(open(os.path.join(d, "meta.json")))
    wt = f"/tmp/reconf_{name}"
    sh(f"git -C /repo worktree remove --force {wt}; rm -rf {wt}")
    sh(f"git -C /repo worktree add -q --detach {wt} HEAD && cp /repo/Cargo.lock {wt}/")
    r = {}
    try:
        rc, out = sh(f"git apply {d}/patch.diff", cwd=wt)
        if rc != 0:
            r["error"] = "patch does not apply: " + out[-300:]
        else:
            rc, o1 = sh("cargo build --offline 2>&1 | tail -3", cwd=wt)
            rc, o2 = sh(f"RUSTFLAGS='--cfg virtio_drivers_verif' cargo build --offline --target-dir {wt}/tgt2 2>&1 | tail -3", cwd=wt)
            r["builds"] = "Finished" in o1 and "Finished" in o2
            ok, info = suite(wt)
            r["suite_passes_with_change"] = ok
            r["suite_attempts"] = info if ok else None
            rc, out = sh(f"git apply {d}/demo.diff", cwd=wt)
            if rc != 0:
                r["error"] = "demo.diff does not apply on top of the patch: " + out[-300:]
            else:
                # a demonstration that drives the device from the observation hooks is built with the guard on
                agent = open(os.path.join(d, "meta.agent.json")).read() if os.path.exists(os.path.join(d, "meta.agent.json")) else ""
                flags = f"RUSTFLAGS='--cfg virtio_drivers_verif' CARGO_TARGET_DIR={wt}/tgt2" if re.search(r"cfg virtio_drivers_verif[^\n]*cargo test", agent) else ""
                r["demo_built_with_guard"] = bool(flags)
                okw, _ = suite(wt, flags, DEMO_TARGET.get(name, ""))
                r["demo_fails_with_change"] = not okw
                sh(f"git apply -R {d}/patch.diff", cwd=wt)
                oko, _ = suite(wt, flags, DEMO_TARGET.get(name, ""))
                r["demo_passes_without_change"] = oko
        r["confirmed"] = bool(r.get("builds") and r.get("suite_passes_with_change") and r.get("demo_fails_with_change") and r.get("demo_passes_without_change"))
        r.setdefault("error", None)
    finally:
        sh(f"git -C /repo worktree remove --force {wt}; rm -rf {wt}")
    meta["confirmed_by_me"] = r
    json.dump(meta, open(os.path.join(d, "meta.json"), "w"), indent=1)
    print(name, r)
