#!/usr/bin/env python3
"""Regenerates DESIGN.md §13 (harmless changes) from benign/*/meta.json and out/benign_first/*.json."""
import json, glob, os, re
ROOT = os.path.dirname(os.path.dirname(os.path.abspath(__file__)))
KIND = {1: "extract/inline helper, control flow", 2: "equivalent arithmetic", 3: "reorder independent statements", 4: "unobserved representation", 5: "defensive hardening"}
rows = []
first = {os.path.basename(p)[:-5]: json.load(open(p)) for p in glob.glob(os.path.join(ROOT, "out", "benign_first", "*.json"))}
nsil = nal = 0
for p in sorted(glob.glob(os.path.join(ROOT, "benign", "*", "meta.json"))):
    m = json.load(open(p)); name = p.split("/")[-2]
    ch = m.get("checks", {})
    if not m.get("applies_and_suite_passes"):
        summ = re.sub(r"\s+", " ", m.get("summary") or "")[:160]
        rows.append(f"| {name} | {KIND.get(m.get('kind'), m.get('kind'))} | {summ} | – | does not apply to the current tree (overlaps a later repair: F15 / F16) |")
        continue
    sil = [k for k, v in sorted(ch.items()) if v["verdict"] == "silent"]
    al = [f"{k} ({v['verdict']})" for k, v in sorted(ch.items()) if v["verdict"] != "silent"]
    nsil += len(sil); nal += len(al)
    note = ""
    if name in first:
        fa = [k for k, v in sorted(first[name].get("checks", {}).items()) if v["verdict"] != "silent"]
        if fa:
            note = " — first pass: " + ", ".join(fa) + " alarmed (no failing input); fixed, see below"
    summ = re.sub(r"\s+", " ", m.get("summary") or "")[:160]
    rows.append(f"| {name} | {KIND.get(m.get('kind'), m.get('kind'))} | {summ} | {', '.join(sil) or '–'} | {', '.join(al) or 'none'}{note} |")
text = f"""| change | kind | what (agent's summary) | checks that stayed silent | alarms |
|---|---|---|---|---|
""" + "\n".join(rows) + f"\n\nTotals on the current checks: {nsil} check runs silent, {nal} alarms.\n"
p = os.path.join(ROOT, "DESIGN.md")
s = open(p).read()
s = re.sub(r"<!-- benign:begin -->.*?<!-- benign:end -->", lambda _: "<!-- benign:begin -->\n" + text + "<!-- benign:end -->", s, flags=re.S)
open(p, "w").write(s)
print(len(rows), "rows", nsil, "silent", nal, "alarms")
