#!/usr/bin/env python3
"""Resolve git conflict markers in the given files by keeping both sides (ours first)."""
import re, sys
for p in sys.argv[1:]:
    s = open(p).read()
    s = re.sub(r'<<<<<<< [^\n]*\n(.*?)=======\n(.*?)>>>>>>> [^\n]*\n', lambda m: m.group(1) + m.group(2), s, flags=re.S)
    open(p, 'w').write(s)
