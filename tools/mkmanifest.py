#!/usr/bin/env python3
"""Regenerates MANIFEST.json from tools/props.py and properties.jsonl."""
import json, os, sys
ROOT = os.path.dirname(os.path.dirname(os.path.abspath(__file__)))
sys.path.insert(0, os.path.join(ROOT, "tools"))
import props as P
props = [json.loads(l) for l in open(os.path.join(ROOT, "properties.jsonl"))]
checks = []
for p in props:
    c = P.PROPS.get(p["id"])
    if not c:
        continue
    checks.append({
        "property_id": p["id"],
        "quick_cmd": f"./check {p['id']} --tier quick",
        "thorough_cmd": f"./check {p['id']} --tier thorough",
        "evidence_file": f"/verif/evidence/{p['id']}.json",
        "replay_cmd_template": "cat {path}",
        "engine": "lean4-proof+correspondence",
        "level_claimed": {"category": "proof", "text": c["explanation"], "design_ref": "DESIGN.md §5 " + p["id"]},
        "level_note": "Trusted: Lean 4.33 kernel; axioms within {propext, Quot.sound, Classical.choice} (audited with #print axioms on every run); the hand-written model is tied to the code by the correspondence run (counts in the evidence file) and by the fragments regenerated from source. " + " ".join(c.get("assumptions", [])),
        "technique": c.get("technique", "Lean 4 theorems over an executable model + differential correspondence with the real code + independent oracle"),
    })
na = getattr(P, "NOT_APPLICABLE", {})
m = {
    "version": 1,
    "setup_cmd": "./setup.sh",
    "hooks": {
        "guard": "--cfg virtio_drivers_verif",
        "enable": "harness/.cargo/config.toml sets rustflags = [\"--cfg\", \"virtio_drivers_verif\"]; the harness compiles /repo as a path dependency with the guard on",
        "baseline_off_cmd": "cd /repo && cargo test --workspace --no-fail-fast --offline",
        "source_commits": ["7e8a738"],
        "add_only": True,
    },
    "engines": [{
        "name": "lean4-proof+correspondence", "path": "/verif/check", "serves_properties": sorted(P.PROPS.keys()),
        "kind_free_text": "Lean 4 kernel-checked theorems about executable models (lean/), Rust harness running the real crate in-process and diffing against the native Lean model driver (harness/), independent oracles, source extractors (tools/extract.py)",
    }],
    "checks": checks,
    "not_applicable": [
        {"property_id": p["id"], "reason": na.get(p["id"], "check not built yet in this session (planned as proof + correspondence, DESIGN.md §5); not claimed until it runs end to end")}
        for p in props if p["id"] not in P.PROPS
    ],
    "notes": "All checks share ./check; evidence is rewritten on every run; fixes applied to /repo are listed in KNOWN_FINDINGS.",
}
json.dump(m, open(os.path.join(ROOT, "MANIFEST.json"), "w"), indent=1)
print("MANIFEST.json:", len(checks), "checks")
