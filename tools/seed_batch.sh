#!/bin/sh
# evaluates every seed under /tmp/seeds that has not been evaluated yet (sequential: /repo is shared)
cd /verif
for d in /tmp/seeds/C*/[12]; do
  [ -f "$d/meta.json" ] || continue
  [ -f "$d/patch.diff" ] || continue
  p=$(basename $(dirname $d)); k=$(basename $d); name="$p-$k"
  [ -f "seeded/$name/meta.json" ] && continue
  echo "=== $name $(date +%H:%M:%S)"
  python3 tools/seed_eval.py $d $name 2>&1 | python3 -c "
import sys,json
t=sys.stdin.read()
try:
    r=json.loads(t); print(' confirmed=',r.get('confirmed'),' err=',r.get('error'),' checks=',{k:v['verdict'] for k,v in r.get('checks',{}).items()})
except Exception as e: print(t[-800:])
"
done
echo "=== batch done $(date +%H:%M:%S)"
