#!/bin/sh
# usage: seed_batch.sh [seeds-root [name-offset]]
# evaluates every seed under the root that has not been evaluated yet (sequential: /repo is shared)
cd /verif
SEEDS=${1:-/tmp/seeds}; OFF=${2:-0}
for d in $SEEDS/C*/[12]; do
  [ -f "$d/meta.json" ] || continue
  [ -f "$d/patch.diff" ] || continue
  p=$(basename $(dirname $d)); k=$(( $(basename $d) + OFF )); name="$p-$k"
  [ -f "seeded/$name/meta.json" ] && continue
  echo "=== $name $(date +%H:%M:%S)"
  python3 tools/seed_eval.py $d $name 2>&1 | python3 -c "
import sys,json
t=sys.stdin.read()
try:
    r=json.loads(t); print(' confirmed=',r.get('confirmed'),' err=',r.get('error'),' checks=',{k:v['verdict'] for k,v in r.get('checks',{}).items()})
except Exception as e: print(t[-800:])
"
done
echo "=== batch done $(date +%H:%M:%S)"
