#!/usr/bin/env python3
"""Confirm a seeded change and run the checks against it.

usage: seed_eval.py <seed-dir> <name> [Cxx ...]
  <seed-dir> contains patch.diff, demo.diff (+ demo sources), meta.json as produced by a sub-agent.
Steps (all in a scratch worktree of /repo, removed afterwards):
  1. patch applies, crate builds, the unchanged test suite passes with it;
  2. with patch + demo the demonstration fails; with demo alone it passes;
then the patch is applied to /repo itself, the given checks (default: the seed's property) are run,
and /repo is restored.  Results go to /verif/seeded/<name>/ (patch.diff, demo files, meta.json).
"""
import json
import os
import re
import shutil
import subprocess
import sys

ROOT = os.path.dirname(os.path.dirname(os.path.abspath(__file__)))


def sh(cmd, cwd=None, timeout=1800):
    p = subprocess.run(cmd, cwd=cwd, shell=True, stdout=subprocess.PIPE, stderr=subprocess.STDOUT, text=True, timeout=timeout,
                       env=dict(os.environ, CARGO_NET_OFFLINE="true", VERIF_EVIDENCE_DIR=os.path.join(ROOT, "out", "evidence_seeded")))
    return p.returncode, p.stdout


def suite(cwd, extra=""):
    """returns (ok, summary) for the full test suite"""
    for attempt in range(2):  # one retry: console read_exact is timing sensitive under load
        rc, out = sh(f"cargo test --offline {extra} > .suite.log 2>&1; echo RC=$?; tail -40 .suite.log; rm -f .suite.log", cwd=cwd)
        res = re.findall(r"test result: (\w+)\. (\d+) passed; (\d+) failed", out)
        ok = bool(res) and all(r[0] == "ok" for r in res) and "RC=0" in out
        if ok:
            return True, res
        if "read_exact" not in out:
            break
    return False, out[-1500:]


def main():
    seed, name = sys.argv[1], sys.argv[2]
    meta = json.load(open(os.path.join(seed, "meta.json")))
    props = sys.argv[3:] or [meta.get("property")]
    wt = f"/tmp/seedwt_{name}"
    sh(f"git -C /repo worktree remove --force {wt}; rm -rf {wt}")
    rc, out = sh(f"git -C /repo worktree add -q {wt} HEAD && cp /repo/Cargo.lock {wt}/")
    result = {"seed": name, "property": meta.get("property"), "confirmed": False}
    try:
        patch = os.path.join(seed, "patch.diff")
        demo = os.path.join(seed, "demo.diff")
        rc, out = sh(f"git apply {patch}", cwd=wt)
        if rc != 0:
            result["error"] = "patch does not apply to /repo HEAD: " + out[-400:]
            return result
        rc, out = sh("cargo build --offline 2>&1 | tail -5", cwd=wt)
        rc2, out2 = sh(f"RUSTFLAGS='--cfg virtio_drivers_verif' cargo build --offline --target-dir {wt}/tgt2 2>&1 | tail -5", cwd=wt)
        result["builds"] = "Finished" in out and "Finished" in out2
        ok, summ = suite(wt)
        result["suite_passes_with_change"] = ok
        result["suite_summary"] = str(summ)[:300]
        demo_ok = None
        if os.path.exists(demo):
            rc, out = sh(f"git apply {demo}", cwd=wt)
            if rc != 0:
                result["error"] = "demo.diff does not apply on top of the patch: " + out[-300:]
            else:
                ok_with, s1 = suite(wt)
                result["demo_fails_with_change"] = not ok_with
                sh(f"git apply -R {patch}", cwd=wt)
                ok_without, s2 = suite(wt)
                result["demo_passes_without_change"] = ok_without
                result["demo_with_change"] = str(s1)[-600:]
        result["confirmed"] = bool(result.get("builds") and result.get("suite_passes_with_change") and result.get("demo_fails_with_change") and result.get("demo_passes_without_change"))
    finally:
        sh(f"git -C /repo worktree remove --force {wt}; rm -rf {wt}")
    # run the checks against the patched /repo
    checks = {}
    rc, out = sh("git -C /repo status --short")
    if out.strip():
        result["error"] = "/repo working tree is not clean"
        return result
    rc, out = sh(f"git -C /repo apply {patch}")
    try:
        if rc == 0:
            for p in props:
                rc, out = sh(f"./check {p} --tier quick", cwd=ROOT, timeout=3600)
                lines = [l for l in out.splitlines() if l.startswith(("VIOLATION", "KNOWN-FINDING", "#", p + ":"))]
                v = [l for l in lines if l.startswith("VIOLATION")]
                checks[p] = {
                    "exit": rc,
                    "verdict": ("concrete" if v and "no-failing-input-found" not in v[0] else "no-failing-input-found" if v else "MISSED"),
                    "lines": lines[:6],
                }
    finally:
        sh("git -C /repo checkout -- . && git -C /repo clean -fdq -e Cargo.lock -e target")
    result["checks"] = checks
    # keep
    dst = os.path.join(ROOT, "seeded", name)
    os.makedirs(dst, exist_ok=True)
    for f in os.listdir(seed):
        if f.endswith((".diff", ".rs")) or f == "meta.json":
            shutil.copy(os.path.join(seed, f), os.path.join(dst, f if f != "meta.json" else "meta.agent.json"))
    out_meta = {
        "property": meta.get("property"),
        "summary": meta.get("summary"),
        "needs_to_manifest": meta.get("what_it_needs_to_manifest"),
        "files_changed": meta.get("files_changed"),
        "confirmed_by_me": {k: result.get(k) for k in ("builds", "suite_passes_with_change", "demo_fails_with_change", "demo_passes_without_change", "confirmed", "error")},
        "what_i_ran": [
            "scratch worktree of /repo HEAD: git apply patch.diff; cargo build --offline (with and without --cfg virtio_drivers_verif); cargo test --offline",
            "git apply demo.diff; cargo test --offline (expected to fail); git apply -R patch.diff; cargo test --offline (expected to pass)",
            "git -C /repo apply patch.diff; ./check <property> --tier quick; git -C /repo checkout -- .",
        ],
        "checks": checks,
    }
    json.dump(out_meta, open(os.path.join(dst, "meta.json"), "w"), indent=1)
    return result


if __name__ == "__main__":
    r = main()
    print(json.dumps(r, indent=1)[:3000])
