#!/usr/bin/env python3
"""Regenerates DESIGN.md §12 (between the markers) from seeded/*/meta.json."""
import json, glob, os, re
ROOT = os.path.dirname(os.path.dirname(os.path.abspath(__file__)))
rows = []
for p in sorted(glob.glob(os.path.join(ROOT, "seeded", "*", "meta.json"))):
    m = json.load(open(p)); name = p.split("/")[-2]
    own = m["property"]
    chk = m.get("checks", {}).get(own, {})
    first = ""
    for l in chk.get("lines", []):
        if l.startswith("#"):
            first = l.split(":", 1)[1].strip(); break
    first = re.sub(r"\s+", " ", first)[:150]
    cross = m.get("cross_checks", {})
    also = ", ".join(f"{k}" + ("" if v["verdict"] == "concrete" else "†" if v["verdict"].startswith("no-") else "") for k, v in sorted(cross.items()) if v["verdict"] != "silent")
    silent = ", ".join(k for k, v in sorted(cross.items()) if v["verdict"] == "silent")
    summ = re.sub(r"\s+", " ", m.get("summary") or "")[:170]
    files = ", ".join(f.replace("src/", "") for f in (m.get("files_changed") or []))
    rows.append(f"| {name} | {files} | {summ} | {chk.get('verdict','?')}: {first} | {also or '–'} | {silent or '–'} |")
text = f"""Three hundred and nineteen changes were produced in eight rounds by fresh sub-agents (twenty agents per
round, two changes per property and round — one agent of the last round delivered a single change; from round 2 on each agent was told which
ideas round 1 had used and asked for different functions, drivers and kinds of mistake), each given
only the property text and its own scratch worktree of `/repo` — nothing from `/verif`.  Each change
compiles, passes the 57 existing tests, and comes with a demonstration that fails with it and passes
without it; all of that was re-confirmed by `tools/seed_eval.py` in a scratch worktree (build with and
without the guard, suite, demonstration both ways) before the checks were run against it.  They are kept
under `seeded/<id>/` (`patch.diff`, the demonstration, `meta.json` with what was run and the verdicts;
ids `Cxx-1/2` = round 1, `Cxx-3/4` = round 2, `Cxx-5/6` = round 3, `Cxx-7/8` = round 4, `Cxx-9/10` = round 5, `Cxx-11/12` = round 6, `Cxx-13/14` = round 7, `Cxx-15/16` = round 8; the agents of
rounds 3 to 8 were additionally asked
for changes that would slip past a differential test driven by mostly well-formed random sequences
and a simple device model: single feature combinations or transports, behaviour after an error
path, numeric boundaries, interleavings of two queues or of blocking and non-blocking calls, unusual
but legal device behaviour, memory-safety-relevant and ordering code, less-travelled files).

Round 1, first pass: 37 of 40 were reported with a concrete replay, 2 as `no-failing-input-found`
(C07-1: available index read back from device memory — only the model disagreed; C08-2: queue flags
of the vsock TX queue swapped — only the extractor theorem broke), 1 was missed (C19-2: `peek_used`
compares with `>` instead of `!=`, which needs more than 65 536 completions on an event queue).
The checks were strengthened: C07 got an oracle that the driver's own indices equal its own
submission/consumption counts under scribbling; C08 got a feature-use oracle for the vsock TX queue
(a credit update is injected, a packet with a body is sent: INDIRECT only if negotiated, NO_NOTIFY
honoured without EVENT_IDX); C19 got floods of more than 65 536 events.

Round 2, first pass: 29 of 40 concrete, 3 `no-failing-input-found` (C07-3, C08-3, C13-3), 8 missed.  What
was missing and what was added (all in the harness; no oracle was loosened):

| missed | why | added |
|---|---|---|
| C02-4 `add_direct` returns `Err` for an empty buffer after taking descriptors | the generators never submitted empty buffers (the code panics on them) | 1 submission in 25 on the direct path contains an empty buffer; the model says `panic`; a refusal must leave bookkeeping, memory and platform untouched |
| C04-3 net `recycle_rx_buffer` files the buffer under its old slot | C04 only ran the bare queue | C04 also runs the block, console, net, socket and event-queue streams and reports their share/unshare ledger failures |
| C04-4 MMIO `queue_set` writes the driver area's upper word into QueueDeviceHigh | fake DMA addresses all had the same upper word | consecutive DMA regions now differ in both halves; every driver is built over the real MMIO transport and each latched queue address must lie in live DMA memory |
| C05-4 net `receive_begin` asks the *send* queue whether to notify | notification decisions were only checked on a bare queue | (a) lost-notification oracle on every driver-level stream (`wake.rs`); (b) per-driver matrix: suppression words of all queues set independently, `notify` calls counted per queue and compared with the model's `should_notify` |
| C07-3 `OwningQueue::poll` drops the buffer on a handler error | reported only as model disagreement | event-queue walks end with the device completing every id it does not hold: a dropped buffer is recycled twice (ledger) |
| C07-4 console clears its receive token before validating the id | the device never reported a foreign id | console walks end with a foreign id followed by reads: the buffer must not be shared a second time |
| C13-3 `read_consistent` returns a closure error without re-reading the generation | all 9P tags were ASCII, no torn read was invalid | tags with two-byte UTF-8 characters: a torn read that is invalid UTF-8 must be retried |
| C14-4 block capacity read outside `read_consistent` | C14 never changed the configuration mid-read (C13 did) | C14 includes the block cases of C13's changing-configuration stream |
| C15-3 `recv(pop)` loads the byte after re-posting the buffer | needs in-place sharing and a device that fills at the notification | `LedgerHal` can share in place; half of the honest console cases use it; the device may fill the re-posted buffer inside the notifying call |
| C16-4 `receive_wait` completes whatever token is reported first | blocking receive was never issued behind a pending completion | it is now; expected `WrongToken`, nothing consumed |
| C08-3 `finish_init` writes `get_status() \| DRIVER_OK` | the model transport's status register read back exactly what was written (only the extra `get_status` call showed, as a model disagreement) | the register reads back with FEATURES_OK cleared or DEVICE_NEEDS_RESET raised: the driver's status writes must not depend on it |

Round 3, first pass: 23 of 40 concrete, 2 `no-failing-input-found` (C03-5, C10-6), 15 missed:

| missed | why | added |
|---|---|---|
| C01-5 `set_buf` stores `buf.len() as u32` | no buffer of 4 GiB or more was ever submitted | one case in 40 ends with a 4 GiB + 16 byte buffer (lazily mapped, never touched): refusal or clean panic, never publication |
| C03-5 `add` drops `needed > SIZE` (indirect queues accept chains longer than the queue) | only the model disagreed | oracle: no accepted chain is longer than the queue |
| C04-5 `add_indirect` returns `Err` for an empty buffer after sharing the earlier ones | empty buffers were generated on the direct path only | also on the indirect path (accepted today with a zero-length table entry; a refusal must have no side effects) |
| C05-6 vsock notifies its receive queue before DRIVER_OK | buffers posted during construction created no obligation | at DRIVER_OK every queue with pending entries and an unsuppressed device must be notified before the constructor returns |
| C07-5 `pcm_xfer` never returns after a failure | C07 did not run the sound stream | it does (spin budget ⇒ "does not return") |
| C07-6 / C11-6 PCI config bounds check rounds the wrong way / saturating subtraction | only C13 ran the type × offset × window sweep | C07 and C11 include C13's bounds streams |
| C08-5 empty frame sent with the 12-byte header in legacy mode | the header size was only read through `fill_buffer_header` | frames of 0, 3 and 64 bytes are sent and the device-readable byte count is checked |
| C09-5 `pcm_xfer_ok` frees its buffers before `pop_used` succeeds | the heap was only watched during construction and drop | heap watched during `pcm_xfer_ok` polls (before completion, out of order) |
| C09-6 net `receive` keeps a stale slot after a runt frame; `recycle_rx_buffer` then frees the posted buffer | same | heap watched during `recycle_rx_buffer`; C09 includes the net stream |
| C10-6 probe accepts a DeviceID with a non-zero upper half | the probe oracle did not demand rejection of unknown types (model disagreement only) | it does |
| C14-6 `can_pop` uses `<` | C14 never completed 65 536 requests | `blk-wrap`: 66 000 non-blocking reads on one device |
| C19-5 input returns `*event` after re-queuing the buffer | needs in-place sharing and a device that writes at once | the in-place platform scribbles over a device-writable buffer at share time (its contents are the device's from then on); half of the event-queue cases run in place |
| C19-6 sound event queue gets INDIRECT/EVENT_IDX swapped | only visible with exactly one of the two features and after 32 768 events | `wrap-sound` floods with exactly one ring feature; oracle: every re-post is announced to an unsuppressed device |
| C20-5 9P tag length read outside `read_consistent` | C20 never changed the configuration mid-read (C13 did) | C20 includes the 9P cases of C13's changing-configuration stream |

Round 4 (same brief as round 3, with the ideas of rounds 1–3 listed as taken), first pass: 21 of 40
concrete, 5 `no-failing-input-found` (C05-8, C11-7, C13-8, C14-7, C20-8: only the model disagreed),
14 missed:

| missed | why | added |
|---|---|---|
| C01-7 `add_notify_wait_pop` recycles its own still-published chain when another chain's completion ends its wait | blocking calls were only issued on otherwise idle queues | `foreign-first` histories (earlier chain reported during the wait or pending before the call): `WrongToken`, own chain still published / shared / counted, history continues to full return; model op `anwpf`, theorem `anwp_foreign_first` |
| C01-8 vsock TX queue gets INDIRECT/EVENT_IDX swapped | C01 looked at indirect tables on the bare queue only | C01 runs C08's construction + feature-gated operations for every driver: an indirect table only on queues that negotiated it |
| C02-8 / C06-7 modern MMIO `queue_set` writes the wrong area's upper word into QueueDriverHigh / QueueDeviceHigh | the address oracle of the MMIO stream was only reported under C04 | the same oracle (each latched area address is the live DMA region of that area) is reported for C02, C04 and C06 |
| C03-8 `pop_used` clamps the reported length to the writable capacity | the reference device never recorded more than it wrote | one completion in 16 records the readable part as well or an arbitrary 32-bit value; the recorded value must be handed on |
| C04-8 GPU cursor backing attached by virtual address | C04 did not look inside request bodies | C04 runs the GPU stream: every `RESOURCE_ATTACH_BACKING` entry must be live DMA memory of its length |
| C07-7 / C09-7 GPU `change_resolution` releases the old framebuffer before a failing tear-down has detached it | releases "after a device error" were excused (C20 speaks of error-free histories) | strict oracle in C20 and, via the GPU stream, in C07 and C09 — which fired on the unchanged set-up path too: defect F16, repaired (§11); theorem `backing_never_released_any_device` |
| C07-8 `Dma::new` releases a region it never got when allocation fails | C07 did not inject allocation failures | C07 includes C09's fault-injection stream (ledger: release of something never allocated) |
| C08-7 `add` falls back to an indirect table when the chain does not fit, feature or not | no oracle tied INDIRECT flags to the queue's configuration in the structured stream | oracle `[C08]`: a published head with INDIRECT on a queue created without the feature |
| C10-8 MMIO config bounds check underflows for windows shorter than the access | only C13 swept offsets × widths × window lengths on MMIO | C10 includes C13's MMIO bounds stream |
| C11-8 PCI `drop` gives up waiting for the reset after 1000 polls | the scripted device completed a reset within four polls | one drop in twelve needs 1001–3000 polls |
| C15-7 `fmt::Write::write_char` override sends `c as u8` | only ASCII `write_str` went through `fmt::Write` | `write_char` / `write!("{{}}", c)` with 1- to 4-byte characters: the UTF-8 encoding must reach the device; encoder theorems |
| C17-8 connection manager drops the last connection instead of the rejected one | C17 did not run the connection-table stream | C17 includes C18's stream |
| C05-8 blocking request rewrites the caller's interrupt-suppression word | only the model disagreed | the caller's setting is varied before blocking requests; oracle: `avail.flags` unchanged across the call |
| C11-7 common-configuration window accepted at 4 mod 8 | only the model disagreed (the success-path oracle used the specification's 4) | the driver uses 64-bit stores there: alignment 8 is demanded of an accepted window |
| C13-8 block capacity read with "high, low, high" instead of the generation counter | only the model disagreed | A-B-A configuration changes (upper word returns to its earlier value): the result must be a value the device presented as a whole |
| C14-7 `flush` skipped on read-only devices | only the model disagreed | oracle: with FLUSH negotiated, `Ok` requires that a flush request reached the device |
| C20-8 9P reply buffer of exactly 7 bytes refused | only the model disagreed | oracle: a request with a 7-byte reply buffer must be emitted |

Round 5 (asked in addition to read the statement clause by clause and to look for code far from the
anchors: helpers, trait default methods, wrappers, `Drop` impls, constants, conversions), first pass:
21 of 40 concrete, 8 `no-failing-input-found`, 10 missed, and one (C09-9) made the harness process
itself die with SIGSEGV, which at that time was reported without a failing input:

| missed | why | added |
|---|---|---|
| C01-9 `VirtQueue::new` registers the queue with the device's maximum size instead of `SIZE` (model only) | the queue streams used devices whose maximum equals `SIZE` | two thirds of the live queues sit on devices offering 2·`SIZE` or 32768 entries; the registered size must be `SIZE` |
| C02-9 PCI `queue_set` never writes `queue_size` | C02 did not look at the PCI registers | register oracle in C11's stream (size and the three addresses the caller passed are written), run by C02 and C06 as well |
| C02-10 blocking request withdraws its chain (available index decremented) when another completion ends its wait | the foreign-completion histories of round 4 ran in C01/C03/C04/C05 only | C02 runs them too (per-store oracle: the index only ever advances by one) |
| C03-10 `add` counts its buffers in `u16` | no submission of 65 536 buffers or more | one case in 25 submits 65536/65537/65539/131073 one-byte buffers: refused without side effects (model op `add_many`) |
| C04-10 `pcm_xfer_ok` takes its buffers out of the maps before `pop_used` succeeds | C04 did not run the sound stream (C07 and C09 did and caught the same change as C07-9) | C04 runs it (heap watch: driver-owned buffers released while shared) |
| C06-9 legacy MMIO `QueueAlign` written once at initialisation instead of per queue | C06 had no register-level device | C06 runs the MMIO construction stream; the device model keeps `QueueAlign` per queue, clears it with the queue and checks it when the page frame is registered |
| C08-9 `set_dev_notify(true)` writes `used_event` without EVENT_IDX (model only) | no oracle on that field | per-store oracle: `used_event` changes only on queues that negotiated EVENT_IDX |
| C08-10 clock driver accepts ALARM; C14-10 block driver accepts IN_ORDER (model only; the regenerated feature table would have followed the code) | nothing said what a driver may accept | the implemented feature set of every driver, written down independently: oracle on every construction and theorem `supported_within_implemented` over the regenerated table; C14 runs the block rows |
| C09-9 net `recycle_rx_buffer` drops a buffer it has just posted | the harness died of the resulting use-after-free | `check` pins a dead or hung harness on the cases that were in flight (re-run one by one): concrete replay "the process running the implementation was killed by signal 11 in case …" |
| C09-10 net constructor reads `status` after `finish_init` (model only) | configuration space was complete or absent | construction against configuration spaces cut off at every length, all drivers: a failing constructor must not release queue memory while the device is live |
| C13-9 `read_consistent` gives up after 16 retries | at most three updates per read were scheduled | update storms (an update before each of the first 17·n / 41·n reads, configurations cycling); theorem `scheduleCyc_contract` |
| C13-10 the last device-configuration capability defines the window | the PCI function had one | a second, larger device-configuration capability further down the list |
| C14-9 PCI configuration bounds check refuses a read that ends exactly at the end of the window (model only in C14) | C14 had the capacity read only through full-size windows | C14 runs C13's window sweep |
| C15-9 `can_pop` compares with `>` | no console case lived for 65 536 completions | long-run epilogue: 66 000 one-byte chunks read one by one |
| C15-10 `read` re-posts the buffer and copies the next chunk without advancing the cursor (model only) | needs a device that refills at the notification inside `read` | such a device is armed whenever `read` is called with data pending |
| C16-9 `transmit_begin` consults the receive queue's suppression state | C16 never suppressed the two queues differently, and lost notifications were C05's business only | every driver check runs its rows of C05's notification matrix; a lost notification counts in the driver's own check |
| C19-10 sound events parsed with `ref_from_bytes` (fails on unaligned buffers, silently) | the host allocator aligns byte buffers to 16 | the harness allocator hands out byte buffers (`align == 1`) at odd addresses |
| C20-10 tear-down decided by `rect.is_some()` (model only) | sequencing complaints were dropped after a device error | oracle: detach/unref/attach only for a resource whose creation the device acknowledged |

Round 6 (asked in addition for changes whose effect depends on the execution environment — allocator
alignment, addresses above 4 GiB, device maxima above the driver's sizes, in-place vs. bouncing
platforms, short or long configuration spaces —, on long histories, or on recovery after an error),
first pass: 27 of 40 concrete, 5 `no-failing-input-found`, 8 missed:

| missed | why | added |
|---|---|---|
| C03-12 `add` gains a non-wrapping "ring full" guard (`avail_idx - last_used_idx`), which underflows once the available index has wrapped and a chain is still outstanding (model only: the debug build panics) | a panic of `add` with non-empty buffers ended the case silently | oracle: `add` must not panic under the caller contract |
| C04-12 GPU tear-down releases the old framebuffer on a failing SET_SCANOUT / DETACH (model only in C04) | C04 looked at the GPU stream only for attach addresses | C04 keeps the stream's backing-lifetime oracles as well |
| C05-11 `VirtQueue::new` silently drops EVENT_IDX on transports that require the legacy layout | the queue streams used modern-layout transports only | every other triple of live queues sits on a legacy-layout transport; `used_event` must be re-armed there too |
| C06-11 legacy MMIO `queue_used` reads `QueueReady` | C06 did not look at the per-queue registers | C06 runs C10's session stream (registers of the other interface version must not be touched; "in use" is `QueuePFN ≠ 0` on legacy) |
| C08-11 `RxBuffer::packet_mut` always skips 12 header bytes | only `packet()` was read | `packet_mut()` must be the frame `packet()` returns; C08 runs the net stream for the header-length clause |
| C08-12 EDID helper functions send GET_EDID without the feature | only `get_edid` itself was exercised as a gated operation | the helpers are called when EDID was not negotiated: nothing may reach the queue |
| C09-11 block driver declares its queue before its transport (model only: the regenerated `DropPlan` broke a theorem) | the model transport's `queue_unset` disables the queue, which hides the order | a second pass over every teardown with the `queue_unset` calls removed — PCI semantics, where only the reset at the transport's drop quiesces the device |
| C14-12 modern MMIO `queue_set` writes the driver area's upper word into `QueueDeviceHigh` (known to C02/C04/C06 since round 4; model only in C14) | driver checks did not look at queue registration | every driver check runs its driver's rows of the MMIO construction stream with the registration oracles |
| C15-12 console writes into its receive buffer after re-posting it (in-place platform, device that fills at once) | the device filled at the notification, the write happens between index store and notification | the console device may fill at the index store (store hook), in flag mode |
| C16-11 `can_pop` compares with `>` | the net streams never reached 65 536 completions | `net-wrap`: 66 000 frames received and recycled; likewise `rng-wrap` for the command drivers |
| C19-12 socket receive path panics on a packet shorter than its header says | C19 drove the socket queue below the socket driver | C19 runs C18's packet stream with the no-panic and posted-count oracles |
| C02-12 console `Drop` leaves the transmit queue programmed | — | not strengthened: with the transports' reset at drop the device is quiesced before the memory goes (C09's oracles agree); the model transcript differs, so C02/C08/C09 report it without a failing input |
| C07-11 `recycle_descriptors` no longer clears freed shadow descriptors | — | **rejected as a seed**: it only shows when a caller pops a token it no longer has outstanding, which the `unsafe fn pop_used` contract excludes (the unchanged code corrupts its free list and calls `unshare` with address 0 in the same situation) |

Round 7 (additionally: provided trait methods, `as` casts, Display/From impls, rarely used public entry
points, slow leaks, second attempts after a failure), first pass: 26 of 40 concrete, one more
(C14-13, a free list that runs into a live chain) killed the harness with SIGSEGV and was pinned on its
case by `check`, 8 `no-failing-input-found`, 4 missed, 1 out of reach:

| missed | why | added |
|---|---|---|
| C01-13 `add` falls back to a direct chain when the indirect table cannot be allocated, after a capacity check made for the indirect case | the heap never failed | the harness allocator can fail the next 16-aligned zeroed allocation; indirect queues get a multi-buffer submission at that moment (model op `add_oom`: refused) |
| C03-13 `pop_used` compares the token with the stale used element before checking that anything is pending (model only) | no oracle distinguished the two refusals | `WrongToken` while nothing is pending is a failure (`NotReady` is what keeps a caller polling) |
| C05-14 console `wait_for_receive` no longer posts a buffer (model only in C05) | the blocking co-simulation watched notifications, not what the call was waiting for | a blocking receive call that keeps spinning with nothing posted is reported |
| C06-13 `VirtQueue::new` reads `queue_used` back after `queue_set` and fails without unregistering (model only) | every transport reported a configured queue as in use | the layout grid's transport never reports "in use" unless told to |
| C06-14 `PciTransport` caches the selected queue across a device reset (model only in C06) | C06 kept only its own tags of the PCI stream | the "queue_select first" oracles of the PCI stream carry a C06 copy |
| C09-13 blocking helper returns `IoError` when the status register shows `DEVICE_NEEDS_RESET`, leaving its chain posted | the status register read back what was written during requests | one blocking request in five runs with `DEVICE_NEEDS_RESET` reading back while the device still completes it; C03, C04 and C09 run those cases |
| C10-13 `read_consistent` samples the generation once, then never terminates after a change | C10 did not run multi-field reads; in C13 the runaway read ended in an abort: the access-budget panic unwound into `MmioTransport::drop`, whose register write panicked again | C10 runs C13's MMIO rows; after a budget panic the bus grants a fresh allowance to the destructors (§9.22) |
| C10-14 MMIO config accessors accept 8-aligned types (model only) | — | oracle: an 8-aligned type is refused, not read as one 64-bit access |
| C16-14 `RxBuffer::packet_len` narrowed to `u16` | receive buffers were at most 4 KiB | `net-jumbo`: 70 000-byte buffers, frames of 65 535 … 69 000 bytes |
| C19-13 / C19-14 connection manager: ring buffer indexed with a mask; a reset discards unread data (model only in C19) | C19 kept only two oracles of the socket stream | C19 keeps all of them (the connection manager is the caller-facing end of the socket receive path) |
| C07-13 block constructor reads the capacity after creating its queue; on a short configuration space the queue memory is released while still registered | — | not strengthened: the device is not live (no `DRIVER_OK` yet) and the transport, dropped with the failed constructor, resets it; reported without a failing input (constructor transcript differs) |
| C03-14 capacity clause of `add` lost in builds without the `alloc` feature | — | out of reach: the harness builds the crate with its default features (§7) |

Round 8 (same brief as round 7 with its ideas listed as taken, and about 25 minutes per agent; 39
changes), first pass: 30 concrete, 5 `no-failing-input-found`, 4 missed.  Several agents independently
chose the same places (the `+= 1` on a ring index, `can_pop` with `<`, the early `?` in
`OwningQueue::poll`, the swapped areas in `SomeTransport::queue_set`, the early exit of `pcm_xfer`), which is
itself a sign that the supply of new single-site ideas is thinning; what this round exposed is mostly
that a stream which already decides a change in one check was not yet part of a neighbouring check:

| missed | why | added |
|---|---|---|
| C01-15 `SomeTransport::queue_set` passes the driver and device areas to the MMIO transport in swapped order | known to C02/C04/C10 through the MMIO session stream (`via=some` rows); C01 did not run that stream | C01 runs it as well: the ring the device is told about is the ring the chain is published in |
| C02-16 block driver passes `event_idx` / `indirect` to `VirtQueue::new` in swapped order | C01 kept the indirect-descriptor oracles of the construction stream, C02 did not | C02 keeps them too (a device that did not negotiate indirect descriptors parses the entry as a plain descriptor) |
| C03-16 `OwningQueue::poll` returns early on a handler error and never re-adds the consumed buffer | C03 drove `VirtQueue` only; the wrapper was C17/C18/C19's | C03 runs the owning-queue stream (handlers returning Some/None/Err): after every poll the device sees exactly the consumed buffer again |
| C08-16 GPU cursor queue created with `SUPPORTED_FEATURES.contains(EVENT_IDX)` (always true) | C05 and C20 saw it in the notification matrix (`gpu.move_cursor`, second command not announced); C08 did not run the matrix | C08 runs its flag-mode rows: where EVENT_IDX was not negotiated the decision to notify must follow `used.flags` |
| C04-15 / C09-15 blocking `pcm_xfer` returns at the first error status with later chunks still posted (model only: `shared=6`) | the "buffers still shared" oracle of the sound stream was C20's only | C04 and C09 keep it (the status words of those chunks live in the returning call's frame) |
| C04-16 `pop_pending_event` copies the event out of its buffer before `pop_used` (bouncing platform; model only in C04) | C04 kept only ledger failures of the event streams | C04 also keeps "delivered … but the device wrote …" |
| C14-16 undefined status bytes (4..255) mapped to `NotReady` (model only) | the oracle accepted any error for a status without a defined meaning | an undefined status is an error other than `NotReady` (the completion has been consumed; `NotReady` tells the caller to poll again) |
| C11-15 the alignment of a window is checked on its physical address before mapping instead of on the mapped address | — | not strengthened: the recording platform maps MMIO page-congruently (virtual ≡ physical mod 4096), so the two checks agree on every input; the changed order of mapping requests and refusals differs from the model's transcript, hence `no-failing-input-found`.  A platform that skews MMIO mappings would need a skew parameter in the Lean model of `PciTransport::new` (`new_common_aligned` is stated over the address the model is given) — not built |

Check bugs that surfaced on the way: §9, 13–22.  With the exceptions named in the tables (C02-12,
C07-11, C07-13, C03-14, C11-15) all 319 are reported with a concrete replay by the check of their own property.
After the last strengthening every seed of rounds 1–6 was run once more against the final checks
(`out/reeval2_*.log`): the same verdicts, except for two C05 seeds whose oracle had been switched off by
a harness bug introduced in round 6 (§9.21, repaired) and C20-3, which no longer applies (it edits lines
that repair F15 rewrote).  The last two
columns come from running further related checks against a change (`tools/seed_cross.py`, run for part
of round 1 only); † = reported as `no-failing-input-found`.

| seed | file | change (agent's summary) | own check: verdict and first oracle line | also caught by | silent (ran, did not fire) |
|---|---|---|---|---|---|
""" + "\n".join(rows) + """

The `fix:` commits double as seeded changes in reverse: reverting each of f272f5e, f757fff,
0886409, 8b9dfb8, 228c5fc, 15d1654 (C05/C11), a71a624 (C12), 770e6c2 (C17), 0294072 (C08), b37aa93 (C09),
9818ce4 (C07/C19), 058e2dd (C10) was confirmed to raise a concrete VIOLATION in the corresponding
check (done by the sub-agents that built those checks, in scratch worktrees, §11).
"""
p = os.path.join(ROOT, "DESIGN.md")
s = open(p).read()
if "@SEEDED@" in s:
    s = s.replace("@SEEDED@", "<!-- seeded:begin -->\n" + text + "<!-- seeded:end -->")
else:
    s = re.sub(r"<!-- seeded:begin -->.*?<!-- seeded:end -->", lambda _: "<!-- seeded:begin -->\n" + text + "<!-- seeded:end -->", s, flags=re.S)
open(p, "w").write(s)
print(len(rows), "rows")
