#!/usr/bin/env python3
"""Regenerates DESIGN.md §12 (between the markers) from seeded/*/meta.json."""
import json, glob, os, re
ROOT = os.path.dirname(os.path.dirname(os.path.abspath(__file__)))
rows = []
for p in sorted(glob.glob(os.path.join(ROOT, "seeded", "*", "meta.json"))):
    m = json.load(open(p)); name = p.split("/")[-2]
    own = m["property"]
    chk = m.get("checks", {}).get(own, {})
    first = ""
    for l in chk.get("lines", []):
        if l.startswith("#"):
            first = l.split(":", 1)[1].strip(); break
    first = re.sub(r"\s+", " ", first)[:150]
    cross = m.get("cross_checks", {})
    also = ", ".join(f"{k}" + ("" if v["verdict"] == "concrete" else "†" if v["verdict"].startswith("no-") else "") for k, v in sorted(cross.items()) if v["verdict"] != "silent")
    silent = ", ".join(k for k, v in sorted(cross.items()) if v["verdict"] == "silent")
    summ = re.sub(r"\s+", " ", m.get("summary") or "")[:170]
    files = ", ".join(f.replace("src/", "") for f in (m.get("files_changed") or []))
    rows.append(f"| {name} | {files} | {summ} | {chk.get('verdict','?')}: {first} | {also or '–'} | {silent or '–'} |")
text = f"""Forty changes were produced by twenty fresh sub-agents (two per property), each given only the
property text and its own scratch worktree of `/repo` — nothing from `/verif`.  Each change compiles,
passes the 57 existing tests, and comes with a demonstration that fails with it and passes
without it; all of that was re-confirmed by `tools/seed_eval.py` in a scratch worktree (build with and
without the guard, suite, demonstration both ways) before the checks were run against it.  They are kept
under `seeded/<id>/` (`patch.diff`, the demonstration, `meta.json` with what was run and the verdicts).

First pass: 37 of 40 were reported with a concrete replay, 2 as `no-failing-input-found`
(C07-1: available index read back from device memory — only the model disagreed; C08-2: queue flags
of the vsock TX queue swapped — only the extractor theorem broke), 1 was missed (C19-2: `peek_used`
compares with `>` instead of `!=`, which needs more than 65 536 completions on an event queue).
The checks were strengthened: C07 got an oracle that the driver's own indices equal its own
submission/consumption counts under scribbling; C08 got a feature-use oracle for the vsock TX queue
(a credit update is injected, a packet with a body is sent: INDIRECT only if negotiated, NO_NOTIFY
honoured without EVENT_IDX); C19 got floods of more than 65 536 events.  All 40 are now reported
with a concrete replay by the check of their own property.  The last two columns come from running
further related checks against each change (`tools/seed_cross.py`); † = reported as
`no-failing-input-found`.

| seed | file | change (agent's summary) | own check: verdict and first oracle line | also caught by | silent (ran, did not fire) |
|---|---|---|---|---|---|
""" + "\n".join(rows) + """

The thirteen `fix:` commits double as seeded changes in reverse: reverting each of f272f5e, f757fff,
0886409, 8b9dfb8, 228c5fc, 15d1654 (C05/C11), a71a624 (C12), 770e6c2 (C17), 0294072 (C08), b37aa93 (C09),
9818ce4 (C07/C19), 058e2dd (C10) was confirmed to raise a concrete VIOLATION in the corresponding
check (done by the sub-agents that built those checks, in scratch worktrees, §11).
"""
p = os.path.join(ROOT, "DESIGN.md")
s = open(p).read()
if "@SEEDED@" in s:
    s = s.replace("@SEEDED@", "<!-- seeded:begin -->\n" + text + "<!-- seeded:end -->")
else:
    s = re.sub(r"<!-- seeded:begin -->.*?<!-- seeded:end -->", lambda _: "<!-- seeded:begin -->\n" + text + "<!-- seeded:end -->", s, flags=re.S)
open(p, "w").write(s)
print(len(rows), "rows")
