#!/usr/bin/env python3
"""Runs the checks against harmless (property-preserving) changes and records which checks stay silent.

usage: [BENIGN_SUFFIX=b] benign_eval.py <root> [area ...]   (suffix: names of a further round, e.g. queue-1b)
  <root>/<area>/<k>/{patch.diff, meta.json} as produced by a sub-agent (meta.json lists the properties
  the change must preserve).  For each: the patch is confirmed to build and pass the suite in a scratch
  worktree, applied to /repo, the listed checks are run (quick tier, no escalation search, evidence
  redirected), /repo is restored.  Result: /verif/benign/<area>-<k>/{patch.diff, meta.json}.
"""
import json, os, re, shutil, subprocess, sys
ROOT = os.path.dirname(os.path.dirname(os.path.abspath(__file__)))
# the tree the checks are run in and the repository they are run against (default: this tree and /repo;
# an isolated copy of both can be named so that the evaluation does not occupy /repo)
RUN_ROOT = os.environ.get("BENIGN_RUN_ROOT", ROOT)
REPO = os.environ.get("BENIGN_REPO", "/repo")
EXTRA = {"queue": ["C19"], "mmio": ["C08"], "init": ["C16", "C17", "C20"], "console": ["C07"], "net": ["C07", "C08"], "vsock": ["C19", "C07"], "cmd": ["C09"], "blk": ["C13", "C08"], "pci": ["C13"]}

def sh(cmd, cwd=None, timeout=3600):
    p = subprocess.run(cmd, cwd=cwd, shell=True, stdout=subprocess.PIPE, stderr=subprocess.STDOUT, text=True, timeout=timeout,
                       env=dict(os.environ, CARGO_NET_OFFLINE="true", VERIF_NO_ESCALATE="1", VERIF_REPO=REPO, VERIF_EVIDENCE_DIR=os.path.join(RUN_ROOT, "out", "evidence_seeded")))
    return p.returncode, p.stdout

def main():
    root = sys.argv[1]
    areas = sys.argv[2:] or sorted(d for d in os.listdir(root) if os.path.isdir(os.path.join(root, d)))
    for area in areas:
        for k in sorted(os.listdir(os.path.join(root, area))):
            d = os.path.join(root, area, k)
            patch = os.path.join(d, "patch.diff")
            if not os.path.exists(patch):
                continue
            name = f"{area}-{k}{os.environ.get('BENIGN_SUFFIX', '')}"
            dst = os.path.join(ROOT, "benign", name)
            if os.path.exists(os.path.join(dst, "meta.json")):
                continue
            meta = json.load(open(os.path.join(d, "meta.json")))
            props = list(dict.fromkeys(list(meta.get("properties", [])) + EXTRA.get(area, [])))
            res = {"area": area, "kind": meta.get("kind"), "summary": meta.get("summary"), "observable_difference": meta.get("observable_difference"),
                   "why_harmless": meta.get("why_harmless"), "files_changed": meta.get("files_changed")}
            # confirm: builds + suite in a scratch worktree
            wt = f"/tmp/benwt_{name}"
            sh(f"git -C /repo worktree remove --force {wt}; rm -rf {wt}")
            sh(f"git -C /repo worktree add -q --detach {wt} HEAD && cp /repo/Cargo.lock {wt}/")
            try:
                rc, out = sh(f"git apply {patch}", cwd=wt)
                ok = rc == 0
                if ok:
                    for attempt in range(2):
                        rc, out = sh("cargo test --offline 2>&1 | tail -30", cwd=wt)
                        r = re.findall(r"test result: (\w+)\. (\d+) passed; (\d+) failed", out)
                        ok = bool(r) and all(x[0] == "ok" for x in r)
                        if ok or "read_exact" not in out:
                            break
                res["applies_and_suite_passes"] = ok
            finally:
                sh(f"git -C /repo worktree remove --force {wt}; rm -rf {wt}")
            checks = {}
            rc, out = sh(f"git -C {REPO} status --short")
            if out.strip():
                print("repo dirty"); sys.exit(1)
            if res["applies_and_suite_passes"]:
                rc, out = sh(f"git -C {REPO} apply {patch}")
                try:
                    for p in props:
                        rc, out = sh(f"./check {p} --tier quick", cwd=RUN_ROOT)
                        v = [l for l in out.splitlines() if l.startswith("VIOLATION")]
                        first = [l for l in out.splitlines() if l.startswith("#")][:2]
                        checks[p] = {"verdict": ("ALARM-concrete" if v and "no-failing-input-found" not in v[0] else "alarm-no-failing-input" if v else "silent"), "first": first}
                        print(name, p, checks[p]["verdict"], (first[0][:160] if first else ""), flush=True)
                finally:
                    sh(f"git -C {REPO} checkout -- . && git -C {REPO} clean -fdq -e Cargo.lock -e target")
            res["checks"] = checks
            os.makedirs(dst, exist_ok=True)
            shutil.copy(patch, os.path.join(dst, "patch.diff"))
            json.dump(res, open(os.path.join(dst, "meta.json"), "w"), indent=1)
    print("benign done")

if __name__ == "__main__":
    main()
