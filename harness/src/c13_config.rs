//! C13: config-space bounds and untorn multi-field reads.
//!
//! * bounds: the real `MmioTransport` (legacy, modern) and the real `PciTransport` (minimal emulated
//!   PCI function with/without a device-config capability) are asked for every
//!   (offset, type, window length) combination; result and byte-level bus trace are compared with
//!   the Lean model and checked against the property text directly.
//! * untorn reads: the real drivers (`VirtIOBlk::new`, `VirtIOSocket::new`, `VirtIOConsole::size`,
//!   `VirtIONetRaw::new`, `VirtIO9p::new`) run on a `ModelTransport`, on the real modern MMIO
//!   transport and on the real PCI transport (not on legacy MMIO: no generation register there)
//!   while a scheduler changes the configuration (and bumps the
//!   generation) at every position and every pair of positions between the individual reads.

use crate::hal::{self, LedgerHal};
use crate::mmio::{self, Access, MmioDevice};
use crate::mtrans::{ModelTransport, TState};
use crate::proto::Case;
use crate::runner::{Ctx, Tier, guarded};
use std::cell::RefCell;
use std::collections::BTreeMap;
use std::ptr::NonNull;
use std::rc::Rc;
use virtio_drivers::device::blk::VirtIOBlk;
use virtio_drivers::device::console::VirtIOConsole;
use virtio_drivers::device::net::VirtIONetRaw;
use virtio_drivers::device::socket::VirtIOSocket;
use virtio_drivers::device::virtio_9p::VirtIO9p;
use virtio_drivers::transport::mmio::{MmioTransport, VirtIOHeader};
use virtio_drivers::transport::pci::PciTransport;
use virtio_drivers::transport::pci::bus::{ConfigurationAccess, DeviceFunction, PciRoot};
use virtio_drivers::transport::{DeviceStatus, DeviceType, InterruptStatus, Transport};
use virtio_drivers::{Error, Hal, PhysAddr};
use zerocopy::{FromBytes, Immutable, IntoBytes};

pub const MMIO_BASE: usize = 0x5100_0000_0000;
const SLACK: usize = 64;
const MAGIC: u32 = 0x7472_6976;

// -------------------------------------------------------------------------------------------
// scheduler: a device that follows the generation contract
// -------------------------------------------------------------------------------------------

/// Switches to the next configuration (and bumps the generation modulo `m`) immediately before
/// serving the device-visible read number `p` for every `p` in `at` (a position may repeat).
pub struct Sched {
    pub tick: usize,
    pub at: Vec<usize>,
    pub cfgs: Vec<Vec<u8>>,
    pub cur: usize,
    pub applied: usize,
    pub gen0: u64,
    pub m: u64,
    /// window length in bytes (accesses beyond it are served from slack and reported)
    pub len: usize,
    /// offset of the first configuration read (which field the driver's closure reads first)
    pub first_cfg_off: Option<usize>,
    /// storm mode: the configurations are cycled through for ever (index `applied mod n`)
    pub cyclic: bool,
    /// whether a runaway read may be ended by a panic from inside the device (not when the device is
    /// reached through the MMIO bus: its callbacks cannot unwind; the bus has its own access budget)
    pub may_panic: bool,
}

impl Sched {
    pub fn single(cfg: Vec<u8>, len: usize) -> Self {
        Sched { tick: 0, at: vec![], cfgs: vec![cfg], cur: 0, applied: 0, gen0: 0, m: 1 << 32, len, first_cfg_off: None, cyclic: false, may_panic: false }
    }
    pub fn before_read(&mut self) {
        if self.tick > 200_000 && self.may_panic {
            // a multi-field read that is still retrying long after the device stopped changing its
            // configuration will never finish
            panic!("harness: configuration read does not terminate (still re-reading after 200000 accesses, the last configuration change was at access {})", self.at.iter().max().copied().unwrap_or(0));
        }
        let n = self.at.iter().filter(|p| **p <= self.tick).count();
        self.applied = n;
        self.cur = if self.cyclic { n % self.cfgs.len() } else { n.min(self.cfgs.len() - 1) };
        self.tick += 1;
    }
    pub fn generation(&self) -> u64 {
        (self.gen0 + self.applied as u64) % self.m
    }
    pub fn ram(&mut self) -> &mut Vec<u8> {
        let c = self.cur;
        &mut self.cfgs[c]
    }
    fn read(&mut self, off: usize, width: u8) -> u64 {
        if self.first_cfg_off.is_none() {
            self.first_cfg_off = Some(off);
        }
        self.before_read();
        let ram = self.ram();
        let mut v = 0u64;
        for i in 0..width as usize {
            v |= (*ram.get(off + i).unwrap_or(&0xEE) as u64) << (8 * i);
        }
        v
    }
    fn write(&mut self, off: usize, width: u8, value: u64) {
        let ram = self.ram();
        for i in 0..width as usize {
            if off + i < ram.len() {
                ram[off + i] = (value >> (8 * i)) as u8;
            }
        }
    }
}

// -------------------------------------------------------------------------------------------
// a stateful virtio device behind an MMIO register block or a PCI function
// -------------------------------------------------------------------------------------------

#[derive(Clone, Copy, Default)]
pub struct Q {
    num: u32,
    ready: u32,
    pfn: u32,
    desc: u64,
    drv: u64,
    dev: u64,
}

pub struct VState {
    pub version: u32,
    pub devid: u32,
    pub features: u64,
    dev_sel: u32,
    drv_sel: u32,
    pub drv_features: u64,
    pub status: u32,
    qsel: u32,
    pub qmax: u32,
    queues: BTreeMap<u32, Q>,
    pub sched: Sched,
}

impl VState {
    pub fn new(version: u32, devid: u32, features: u64, sched: Sched) -> Rc<RefCell<VState>> {
        Rc::new(RefCell::new(VState { version, devid, features, dev_sel: 0, drv_sel: 0, drv_features: 0, status: 0, qsel: 0, qmax: 256, queues: BTreeMap::new(), sched }))
    }
    fn q(&mut self) -> &mut Q {
        let s = self.qsel;
        self.queues.entry(s).or_default()
    }
    fn set_status(&mut self, v: u32) {
        self.status = v;
        if v == 0 {
            self.queues.clear();
        }
    }
}

/// virtio-mmio front end: register block at 0x000–0x0ff, configuration window from 0x100
pub struct MmioFront(pub Rc<RefCell<VState>>);

impl MmioDevice for MmioFront {
    fn read(&mut self, off: usize, width: u8) -> u64 {
        let mut s = self.0.borrow_mut();
        if off >= 0x100 {
            return s.sched.read(off - 0x100, width);
        }
        let v: u32 = match off {
            0x000 => MAGIC,
            0x004 => s.version,
            0x008 => s.devid,
            0x00c => 0x554d_4551,
            0x010 => (s.features >> (32 * (s.dev_sel.min(1)))) as u32 & if s.dev_sel > 1 { 0 } else { !0 },
            0x034 => s.qmax,
            0x040 => s.q().pfn,
            0x044 => s.q().ready,
            0x060 => 0,
            0x070 => s.status,
            0x0fc => {
                s.sched.before_read();
                s.sched.generation() as u32
            }
            _ => 0,
        };
        v as u64
    }
    fn write(&mut self, off: usize, width: u8, value: u64) {
        let mut s = self.0.borrow_mut();
        if off >= 0x100 {
            s.sched.write(off - 0x100, width, value);
            return;
        }
        let v = value as u32;
        match off {
            0x014 => s.dev_sel = v,
            0x024 => s.drv_sel = v,
            0x020 => {
                if s.drv_sel == 0 {
                    s.drv_features = (s.drv_features & !0xffff_ffff) | v as u64;
                } else if s.drv_sel == 1 {
                    s.drv_features = (s.drv_features & 0xffff_ffff) | ((v as u64) << 32);
                }
            }
            0x030 => s.qsel = v,
            0x038 => s.q().num = v,
            0x040 => s.q().pfn = v,
            0x044 => s.q().ready = v,
            0x070 => s.set_status(v),
            0x080 => s.q().desc = (s.q().desc & !0xffff_ffff) | v as u64,
            0x084 => s.q().desc = (s.q().desc & 0xffff_ffff) | ((v as u64) << 32),
            0x090 => s.q().drv = (s.q().drv & !0xffff_ffff) | v as u64,
            0x094 => s.q().drv = (s.q().drv & 0xffff_ffff) | ((v as u64) << 32),
            0x0a0 => s.q().dev = (s.q().dev & !0xffff_ffff) | v as u64,
            0x0a4 => s.q().dev = (s.q().dev & 0xffff_ffff) | ((v as u64) << 32),
            _ => {}
        }
    }
}

/// `virtio_pci_common_cfg` (virtio 1.2 §4.1.4.3)
pub struct PciCommon(pub Rc<RefCell<VState>>);
impl MmioDevice for PciCommon {
    fn read(&mut self, off: usize, _width: u8) -> u64 {
        let mut s = self.0.borrow_mut();
        match off {
            0x00 => s.dev_sel as u64,
            0x04 => {
                if s.dev_sel > 1 {
                    0
                } else {
                    (s.features >> (32 * s.dev_sel)) & 0xffff_ffff
                }
            }
            0x08 => s.drv_sel as u64,
            0x12 => 8,
            0x14 => s.status as u64,
            0x15 => {
                s.sched.before_read();
                s.sched.generation()
            }
            0x16 => s.qsel as u64,
            0x18 => {
                let q = *s.q();
                (if q.num != 0 { q.num } else { s.qmax }) as u64
            }
            0x1c => s.q().ready as u64,
            0x1e => s.qsel as u64,
            _ => 0,
        }
    }
    fn write(&mut self, off: usize, _width: u8, value: u64) {
        let mut s = self.0.borrow_mut();
        match off {
            0x00 => s.dev_sel = value as u32,
            0x08 => s.drv_sel = value as u32,
            0x0c => {
                if s.drv_sel == 0 {
                    s.drv_features = (s.drv_features & !0xffff_ffff) | (value & 0xffff_ffff);
                } else if s.drv_sel == 1 {
                    s.drv_features = (s.drv_features & 0xffff_ffff) | (value << 32);
                }
            }
            0x14 => s.set_status(value as u32),
            0x16 => s.qsel = value as u32,
            0x18 => s.q().num = value as u32,
            0x1c => s.q().ready = value as u32,
            0x20 => s.q().desc = value,
            0x28 => s.q().drv = value,
            0x30 => s.q().dev = value,
            _ => {}
        }
    }
}
pub struct PciCfgWin(pub Rc<RefCell<VState>>);
impl MmioDevice for PciCfgWin {
    fn read(&mut self, off: usize, width: u8) -> u64 {
        self.0.borrow_mut().sched.read(off, width)
    }
    fn write(&mut self, off: usize, width: u8, value: u64) {
        self.0.borrow_mut().sched.write(off, width, value)
    }
}
pub struct Sink;
impl MmioDevice for Sink {
    fn read(&mut self, _: usize, _: u8) -> u64 {
        0
    }
    fn write(&mut self, _: usize, _: u8, _: u64) {}
}

/// One PCI function: vendor 0x1af4, one 32-bit memory BAR of 32 KiB at 0x1000_0000, the four
/// virtio vendor capabilities (device config optional).
#[derive(Clone)]
pub struct PciFn {
    words: Rc<RefCell<[u32; 64]>>,
}
const BAR_ADDR: u32 = 0x1000_0000;
const BAR_SIZE: u32 = 0x8000;
pub const PCI_DF: DeviceFunction = DeviceFunction { bus: 0, device: 1, function: 0 };

impl PciFn {
    pub fn new(devtype: u32, cfg_cap: Option<(u32, u32)>) -> Self {
        let mut w = [0u32; 64];
        w[0] = ((0x1040 + devtype) << 16) | 0x1af4;
        w[1] = (0x0010 << 16) | 0x0002;
        w[4] = BAR_ADDR;
        w[0x34 / 4] = 0x40;
        let cap = |w: &mut [u32; 64], at: usize, next: u32, len: u32, ty: u32, off: u32, length: u32| {
            w[at / 4] = 0x09 | (next << 8) | (len << 16) | (ty << 24);
            w[at / 4 + 1] = 0;
            w[at / 4 + 2] = off;
            w[at / 4 + 3] = length;
        };
        cap(&mut w, 0x40, 0x50, 16, 1, 0x0000, 0x38);
        cap(&mut w, 0x50, 0x68, 20, 2, 0x1000, 0x100);
        w[0x50 / 4 + 4] = 4;
        cap(&mut w, 0x68, if cfg_cap.is_some() { 0x78 } else { 0 }, 16, 3, 0x2000, 4);
        if let Some((off, len)) = cfg_cap {
            cap(&mut w, 0x78, 0x88, 16, 4, off, len);
            // a second, larger device-configuration capability further down the list: the specification
            // lets a device offer several and has the driver use the first; the window stays the first one
            cap(&mut w, 0x88, 0, 16, 4, 0x4000, 160);
        }
        PciFn { words: Rc::new(RefCell::new(w)) }
    }
}

impl ConfigurationAccess for PciFn {
    fn read_word(&self, df: DeviceFunction, register_offset: u8) -> u32 {
        if df != PCI_DF {
            return 0xffff_ffff;
        }
        self.words.borrow()[register_offset as usize / 4]
    }
    fn write_word(&mut self, df: DeviceFunction, register_offset: u8, data: u32) {
        if df != PCI_DF {
            return;
        }
        let mut w = self.words.borrow_mut();
        match register_offset {
            0x04 => w[1] = (w[1] & 0xffff_0000) | (data & 0xffff),
            0x10 => w[4] = data & !(BAR_SIZE - 1),
            0x14..=0x24 => {}
            _ => {}
        }
    }
    unsafe fn unsafe_clone(&self) -> Self {
        self.clone()
    }
}

/// Builds a real `PciTransport` over the emulated function; registers the four windows on the bus
/// at the fake virtual addresses the HAL handed out.
pub fn make_pci(st: &Rc<RefCell<VState>>, devtype: u32, cfg_cap: Option<(u32, u32)>) -> Result<PciTransport, String> {
    let mut root = PciRoot::new(PciFn::new(devtype, cfg_cap));
    let before = hal::with(|h| h.p2v.len());
    let t = PciTransport::new::<LedgerHal, _>(&mut root, PCI_DF).map_err(|e| format!("{:?}", e))?;
    let maps: Vec<(u64, usize, usize)> = hal::with(|h| h.p2v[before..].to_vec());
    for (paddr, size, vaddr) in maps {
        let off = paddr - BAR_ADDR as u64;
        let (name, dev): (&str, Box<dyn MmioDevice>) = match off {
            0x0000 => ("common", Box::new(PciCommon(st.clone()))),
            0x1000 => ("notify", Box::new(Sink)),
            0x2000 => ("isr", Box::new(Sink)),
            _ => ("cfg", Box::new(PciCfgWin(st.clone()))),
        };
        let len = if name == "cfg" { size + SLACK } else { size };
        mmio::register(vaddr, len, name, dev);
    }
    Ok(t)
}

// -------------------------------------------------------------------------------------------
// part 1: bounds
// -------------------------------------------------------------------------------------------

fn pattern(size: usize, salt: usize) -> Vec<u8> {
    (0..size).map(|i| 0x31usize.wrapping_add(7 * i).wrapping_add(salt.wrapping_mul(13)) as u8).collect()
}

fn rd<T: FromBytes + IntoBytes + Immutable, X: Transport>(t: &X, off: usize) -> Result<Vec<u8>, Error> {
    t.read_config_space::<T>(off).map(|v| v.as_bytes().to_vec())
}
fn wr<T: FromBytes + IntoBytes + Immutable, X: Transport>(t: &mut X, off: usize, bytes: &[u8]) -> Result<(), Error> {
    t.write_config_space::<T>(off, T::read_from_bytes(bytes).unwrap())
}

macro_rules! types {
    ($($name:literal => $t:ty),* $(,)?) => {
        pub const TYPES: &[(&str, usize, usize)] = &[$(($name, size_of::<$t>(), align_of::<$t>())),*];
        fn do_read<X: Transport>(t: &X, ty: usize, off: usize) -> Result<Vec<u8>, Error> {
            let mut i = 0;
            $( if ty == i { return rd::<$t, X>(t, off); } i += 1; )*
            let _ = i;
            unreachable!()
        }
        fn do_write<X: Transport>(t: &mut X, ty: usize, off: usize, bytes: &[u8]) -> Result<(), Error> {
            let mut i = 0;
            $( if ty == i { return wr::<$t, X>(t, off, bytes); } i += 1; )*
            let _ = i;
            unreachable!()
        }
    };
}
types! {
    "u8" => u8, "u16" => u16, "u32" => u32, "u64" => u64,
    "[u8;0]" => [u8; 0], "[u8;2]" => [u8; 2], "[u8;3]" => [u8; 3], "[u8;4]" => [u8; 4], "[u8;5]" => [u8; 5],
    "[u8;6]" => [u8; 6], "[u8;7]" => [u8; 7], "[u8;8]" => [u8; 8], "[u8;11]" => [u8; 11], "[u8;16]" => [u8; 16],
    "[u16;2]" => [u16; 2], "[u16;3]" => [u16; 3], "[u16;4]" => [u16; 4],
    "[u32;2]" => [u32; 2], "[u32;3]" => [u32; 3], "[u32;5]" => [u32; 5], "[u64;1]" => [u64; 1],
    "[u8;128]" => [u8; 128],
}

fn err_name(e: &Error) -> String {
    format!("{:?}", e)
}

/// One config access on the real transport; returns the canonical output and runs the oracle.
#[allow(clippy::too_many_arguments)]
fn access_step<X: Transport>(c: &mut Case, t: &mut X, st: &Rc<RefCell<VState>>, kindargs: &str, cfg_region: &str, cfg_shift: usize, win_len: usize, present: bool, ty: usize, off: usize, write: bool) {
    let (name, size, align) = TYPES[ty];
    let op = format!("config access {} align={} size={} off={:#x} w={} ty={}", kindargs, align, size, off, write as u8, name);
    let before: Vec<u8> = st.borrow_mut().sched.ram().clone();
    let pat = pattern(size, off);
    let _ = mmio::take_trace();
    let r = guarded(|| if write { do_write(t, ty, off, &pat).map(|_| vec![]) } else { do_read(t, ty, off) });
    let trace = mmio::take_trace();
    let after: Vec<u8> = st.borrow_mut().sched.ram().clone();
    // canonical access list: offsets relative to the window start
    let mut acc = vec![];
    let mut foreign = vec![];
    for a in &trace {
        if a.region == cfg_region && a.offset >= cfg_shift {
            acc.push((a.write, a.width as usize, a.offset - cfg_shift));
        } else {
            foreign.push(a.canon());
        }
    }
    let acc_str = if acc.is_empty() { "-".to_string() } else { acc.iter().map(|(w, wd, o)| format!("{}{}@{:#x}", if *w { "W" } else { "R" }, wd * 8, o)).collect::<Vec<_>>().join(" ") };
    let out = match &r {
        Ok(Ok(_)) => format!("ok {}", acc_str),
        Ok(Err(e)) => {
            if acc.is_empty() {
                format!("err {}", err_name(e))
            } else {
                format!("err {} after {}", err_name(e), acc_str)
            }
        }
        Err(_) => {
            if acc.is_empty() {
                "panic".to_string()
            } else {
                format!("panic after {}", acc_str)
            }
        }
    };
    // an offset so large that `off + size` overflows the address type is refused without an access:
    // by the overflow check (a clean panic) or by an explicit error — both satisfy the property
    let out = if off.checked_add(size).is_none() && align <= 4 && off % align == 0 && acc.is_empty() && (out == "panic" || out == "err ConfigSpaceTooSmall") { "refused-overflow".to_string() } else { out };
    // ---- oracle, from the property text ----
    if !foreign.is_empty() {
        c.fail(format!("{}: config access touched something else: {}", op, foreign.join(" ")));
    }
    if op.contains("kind=mmio") && align > 4 && !acc.is_empty() {
        // virtio-mmio guarantees 4-byte alignment of the configuration space and 32-bit accesses; a type that
        // needs 8-byte alignment (a 64-bit field read in one piece) is refused, not performed as a 64-bit access
        c.fail(format!("{}: a type of alignment {} was accessed in the configuration space of an MMIO device ({}): 64-bit fields are two 32-bit accesses", op, align, acc_str));
    }
    let inside = present && off.checked_add(size).map(|e| e <= win_len).unwrap_or(false);
    match &r {
        Ok(Ok(bytes)) => {
            if !inside {
                c.fail(format!("{}: succeeded although [off, off+size) is not inside the window of {} bytes (present={})", op, win_len, present));
            }
            // every byte of [off, off+size) exactly once, nothing else, right direction
            let mut count = vec![0usize; size];
            for (w, wd, o) in &acc {
                if *w != write {
                    c.fail(format!("{}: access in the wrong direction", op));
                }
                for b in *o..*o + *wd {
                    if b < off || b >= off + size {
                        c.fail(format!("{}: byte {:#x} outside [off, off+size) touched", op, b));
                    } else {
                        count[b - off] += 1;
                    }
                }
                if o + wd > win_len {
                    c.fail(format!("{}: bus access {:#x}+{} beyond the window", op, o, wd));
                }
            }
            if count.iter().any(|n| *n != 1) {
                c.fail(format!("{}: bytes not touched exactly once: {:?}", op, count));
            }
            if inside {
                if write {
                    let mut want = before.clone();
                    want[off..off + size].copy_from_slice(&pat);
                    if after != want {
                        c.fail(format!("{}: device memory after the write is not 'old with [off, off+size) replaced'", op));
                    }
                } else {
                    if bytes[..] != before[off..off + size] {
                        c.fail(format!("{}: value read differs from the device bytes", op));
                    }
                    if after != before {
                        c.fail(format!("{}: a read modified device memory", op));
                    }
                }
            }
        }
        Ok(Err(e)) => {
            if !acc.is_empty() {
                c.fail(format!("{}: failed with {:?} but accessed the device: {}", op, e, acc_str));
            }
            match e {
                Error::ConfigSpaceTooSmall => {
                    if inside || !present {
                        c.fail(format!("{}: ConfigSpaceTooSmall but inside={} present={}", op, inside, present));
                    }
                }
                Error::ConfigSpaceMissing => {
                    if present {
                        c.fail(format!("{}: ConfigSpaceMissing although a window is present", op));
                    }
                }
                other => c.fail(format!("{}: unexpected error {:?}", op, other)),
            }
            if after != before {
                c.fail(format!("{}: failed access modified device memory", op));
            }
        }
        Err(_) => {
            if !acc.is_empty() {
                c.fail(format!("{}: panicked after accessing the device: {}", op, acc_str));
            }
            // a panic is the documented reaction to a misaligned/over-aligned request (or an
            // offset so large that off+size does not fit usize); anything else must not panic
            let overflow = off.checked_add(size).is_none();
            if align <= 4 && off % align == 0 && !overflow {
                c.fail(format!("{}: panicked on a well-formed request", op));
            }
        }
    }
    if matches!(r, Ok(Ok(_))) {
        c.nontrivial = true;
    }
    c.step(op, out);
}

fn offsets_for(len: usize, tier: Tier) -> Vec<usize> {
    let mut v: Vec<usize> = (0..=len + 9).collect();
    if tier == Tier::Quick && len > 40 {
        v = (0..=20).chain(len.saturating_sub(20)..=len + 9).collect();
    }
    v.extend([usize::MAX, usize::MAX - 1, usize::MAX - 3, usize::MAX - 7, 1 << 63, (1 << 63) + 4]);
    v
}

fn window_lengths(tier: Tier) -> Vec<usize> {
    // up to the largest config struct of the crate (virtio-input: 8 + 128 bytes) and a little beyond
    if tier == Tier::Quick {
        (0..=20).chain([24, 59, 60, 61, 63, 64, 128, 135, 136, 137, 140]).collect()
    } else {
        (0..=140).collect()
    }
}

fn bounds_mmio(ctx: &Ctx, idx: usize, id: String) -> Case {
    let lens = window_lengths(ctx.tier);
    let len = lens[idx / 4];
    let version = 1 + (idx % 2) as u32;
    let phase = 4 * ((idx / 2) % 2);
    let mut c = Case::new(id);
    hal::reset();
    mmio::reset();
    c.tag(format!("mmio-v{}", version));
    c.tag(format!("len={}", len));
    let st = VState::new(version, 2, 0, Sched::single(pattern(len + SLACK, 1000 + len), len));
    let base = MMIO_BASE + phase;
    mmio::register(base, 0x100 + len + SLACK, "mmio", Box::new(MmioFront(st.clone())));
    // SAFETY: fake address; every access goes through the custom bus.
    let t = unsafe { MmioTransport::new(NonNull::new(base as *mut VirtIOHeader).unwrap(), 0x100 + len) };
    let mut t = match t {
        Ok(t) => t,
        Err(e) => {
            c.fail(format!("probe failed: {:?}", e));
            return c;
        }
    };
    let _ = mmio::take_trace();
    let kindargs = format!("kind=mmio ver={} present=1 len={} base={}", version, len, phase);
    for off in offsets_for(len, ctx.tier) {
        for ty in 0..TYPES.len() {
            for write in [false, true] {
                access_step(&mut c, &mut t, &st, &kindargs, "mmio", 0x100, len, true, ty, off, write);
            }
        }
    }
    drop(t);
    for v in mmio::with(|b| std::mem::take(&mut b.violations)) {
        c.fail(format!("bus: {}", v));
    }
    c
}

fn bounds_pci(ctx: &Ctx, idx: usize, id: String) -> Case {
    let lens = window_lengths(ctx.tier);
    let mut c = Case::new(id);
    hal::reset();
    mmio::reset();
    let phase = 4 * (idx % 2) as u32;
    let slot = idx / 2;
    // slot 0: no device-config capability at all; otherwise capability length lens[slot-1]
    let cap = if slot == 0 { None } else { Some((0x3000 + phase, lens[slot - 1] as u32)) };
    let caplen = cap.map(|c| c.1 as usize).unwrap_or(0);
    let win = caplen / 4 * 4;
    c.tag("pci");
    c.tag(if cap.is_some() { format!("caplen={}", caplen) } else { "no-cfg-cap".to_string() });
    let st = VState::new(2, 2, 0, Sched::single(pattern(win + SLACK, 2000 + caplen), win));
    let t = guarded(|| make_pci(&st, 2, cap));
    let newline = format!("config pci_new present={} caplen={}", cap.is_some() as u8, caplen);
    let mut t = match t {
        Ok(Ok(t)) => {
            c.step(newline, "ok");
            t
        }
        Ok(Err(e)) => {
            // a device-config capability shorter than one 32-bit word cannot hold a `[u32]` window
            c.step(newline, format!("err {}", e));
            if !(cap.is_some() && caplen < 4) {
                c.fail(format!("PciTransport::new failed: {}", e));
            }
            return c;
        }
        Err(p) => {
            c.step(newline, "panic");
            c.fail(format!("PciTransport::new panicked: {}", p));
            return c;
        }
    };
    let _ = mmio::take_trace();
    let kindargs = format!("kind=pci present={} caplen={} base={}", cap.is_some() as u8, caplen, phase);
    for off in offsets_for(win, ctx.tier) {
        for ty in 0..TYPES.len() {
            for write in [false, true] {
                access_step(&mut c, &mut t, &st, &kindargs, "cfg", 0, win, cap.is_some(), ty, off, write);
            }
        }
    }
    drop(t);
    for v in mmio::with(|b| std::mem::take(&mut b.violations)) {
        c.fail(format!("bus: {}", v));
    }
    c
}

// -------------------------------------------------------------------------------------------
// part 2: the five multi-field reads under scheduled configuration changes
// -------------------------------------------------------------------------------------------

#[derive(Clone, Copy, Debug, PartialEq, Eq)]
pub enum Drv {
    Blk,
    Vsock,
    Console,
    Net,
    P9,
}
impl Drv {
    const ALL: [Drv; 5] = [Drv::Blk, Drv::Vsock, Drv::Console, Drv::Net, Drv::P9];
    fn name(self) -> &'static str {
        match self {
            Drv::Blk => "blk",
            Drv::Vsock => "vsock",
            Drv::Console => "console",
            Drv::Net => "net",
            Drv::P9 => "p9",
        }
    }
    fn prog(self) -> &'static str {
        match self {
            Drv::Blk | Drv::Vsock => "u64",
            Drv::Console => "console",
            Drv::Net => "mac",
            Drv::P9 => "tag",
        }
    }
    fn devtype(self) -> u32 {
        match self {
            Drv::Blk => 2,
            Drv::Vsock => 19,
            Drv::Console => 3,
            Drv::Net => 1,
            Drv::P9 => 9,
        }
    }
    /// single config reads the constructor performs after the consistent read succeeded
    fn extra(self) -> usize {
        if self == Drv::Net { 1 } else { 0 }
    }
    /// the value the specification's layout defines for this configuration (reference decoder)
    fn decode(self, cfg: &[u8]) -> Option<u128> {
        let le = |o: usize, n: usize| -> u128 { (0..n).fold(0u128, |a, i| a | ((cfg[o + i] as u128) << (8 * i))) };
        Some(match self {
            Drv::Blk | Drv::Vsock => le(0, 8),
            Drv::Console => le(0, 2) | (le(2, 2) << 16),
            Drv::Net => le(0, 6),
            Drv::P9 => {
                let n = le(0, 2) as usize;
                if n == 0 || 2 + n > cfg.len() || n > 12 {
                    return None;
                }
                (n as u128) | (le(2, n) << 16)
            }
        })
    }
    /// three configurations differing in every field (and, for 9P, in the tag length)
    fn configs(self, len: usize) -> Vec<Vec<u8>> {
        (0..3usize)
            .map(|k| {
                let mut c: Vec<u8> = (0..len + SLACK).map(|j| (0x10 * (k + 1) + j + 1) as u8).collect();
                if self == Drv::P9 {
                    // every tag is valid UTF-8, two contain a two-byte character: bytes mixed from two
                    // generations can be invalid UTF-8, which must lead to a retry, never to an error
                    let tags: [&[u8]; 3] = [&[0x61, 0xc3, 0xa9], b"VWXYZ", &[0xc3, 0xa9, 0x6e, 0x6f]];
                    c[0] = tags[k].len() as u8;
                    c[1] = 0;
                    for j in 2..c.len() {
                        c[j] = tags[k].get(j - 2).copied().unwrap_or(b'0' + k as u8);
                    }
                }
                if matches!(self, Drv::Blk | Drv::Vsock) && k == 2 && c.len() >= 8 {
                    // A-B-A in the upper half: the third configuration has the upper word of the first
                    // again (and another lower word), so "re-read one half and compare" cannot stand in
                    // for the generation check
                    for j in 4..8 {
                        c[j] = (0x10 + j + 1) as u8;
                    }
                }
                c
            })
            .collect()
    }
    fn features(self, legacy: bool) -> u64 {
        let v1 = if legacy { 0 } else { 1u64 << 32 };
        match self {
            Drv::Console => v1 | 1, // VIRTIO_CONSOLE_F_SIZE
            _ => v1,
        }
    }
}

/// Runs the driver's multi-field read on transport `t`; canonical value or error name.
fn drive<H: Hal, T: Transport>(d: Drv, t: T) -> Result<u128, String> {
    match d {
        Drv::Blk => VirtIOBlk::<H, T>::new(t).map(|b| b.capacity() as u128).map_err(|e| err_name(&e)),
        Drv::Vsock => VirtIOSocket::<H, T, 64>::new(t).map(|s| s.guest_cid() as u128).map_err(|e| err_name(&e)),
        Drv::Console => {
            let c = VirtIOConsole::<H, T>::new(t).map_err(|e| format!("new:{}", err_name(&e)))?;
            match c.size() {
                Ok(Some(s)) => Ok(s.columns as u128 | ((s.rows as u128) << 16)),
                Ok(None) => Err("NoSize".into()),
                Err(e) => Err(err_name(&e)),
            }
        }
        Drv::Net => VirtIONetRaw::<H, T, 4>::new(t)
            .map(|n| n.mac_address().iter().enumerate().fold(0u128, |a, (i, b)| a | ((*b as u128) << (8 * i))))
            .map_err(|e| err_name(&e)),
        Drv::P9 => VirtIO9p::<H, T>::new(t)
            .map(|p| {
                let tag = p.mount_tag().as_bytes().to_vec();
                tag.iter().enumerate().fold(tag.len() as u128, |a, (i, b)| a | ((*b as u128) << (16 + 8 * i)))
            })
            .map_err(|e| err_name(&e)),
    }
}

/// `Transport` wrapper that advances the scheduler before every generation read and every
/// config-space read of the wrapped (in-process) transport: all positions between the
/// individual reads become reachable also on `ModelTransport`.
pub struct Ticking<T: Transport> {
    inner: T,
    st: Rc<RefCell<TState>>,
    sched: Rc<RefCell<Sched>>,
}
impl<T: Transport> Ticking<T> {
    fn tick(&self) {
        let mut s = self.sched.borrow_mut();
        s.before_read();
        let mut t = self.st.borrow_mut();
        let len = s.len;
        t.config = s.ram()[..len].to_vec();
        t.generation = s.generation() as u32;
    }
}
impl<T: Transport> Transport for Ticking<T> {
    fn device_type(&self) -> DeviceType {
        self.inner.device_type()
    }
    fn read_device_features(&mut self) -> u64 {
        self.inner.read_device_features()
    }
    fn write_driver_features(&mut self, f: u64) {
        self.inner.write_driver_features(f)
    }
    fn max_queue_size(&mut self, q: u16) -> u32 {
        self.inner.max_queue_size(q)
    }
    fn notify(&mut self, q: u16) {
        self.inner.notify(q)
    }
    fn get_status(&self) -> DeviceStatus {
        self.inner.get_status()
    }
    fn set_status(&mut self, s: DeviceStatus) {
        self.inner.set_status(s)
    }
    fn set_guest_page_size(&mut self, p: u32) {
        self.inner.set_guest_page_size(p)
    }
    fn requires_legacy_layout(&self) -> bool {
        self.inner.requires_legacy_layout()
    }
    fn queue_set(&mut self, q: u16, size: u32, d: PhysAddr, a: PhysAddr, u: PhysAddr) {
        self.inner.queue_set(q, size, d, a, u)
    }
    fn queue_unset(&mut self, q: u16) {
        self.inner.queue_unset(q)
    }
    fn queue_used(&mut self, q: u16) -> bool {
        self.inner.queue_used(q)
    }
    fn ack_interrupt(&mut self) -> InterruptStatus {
        self.inner.ack_interrupt()
    }
    fn read_config_generation(&self) -> u32 {
        self.tick();
        self.inner.read_config_generation()
    }
    fn read_config_space<V: FromBytes + IntoBytes>(&self, offset: usize) -> Result<V, Error> {
        // a failing access performs no device read: do not advance time for it
        let ok = {
            let t = self.st.borrow();
            !t.config.is_empty() && offset + size_of::<V>() <= t.config.len()
        };
        if ok {
            let mut s = self.sched.borrow_mut();
            if s.first_cfg_off.is_none() {
                s.first_cfg_off = Some(offset);
            }
            drop(s);
            self.tick();
        }
        self.inner.read_config_space(offset)
    }
    fn write_config_space<V: IntoBytes + Immutable>(&mut self, offset: usize, value: V) -> Result<(), Error> {
        self.inner.write_config_space(offset, value)
    }
}

#[derive(Clone, Copy, Debug, PartialEq, Eq)]
/// Transports on which the untorn clause is claimed and checked. Legacy MMIO is deliberately
/// absent: a legacy device has no configuration generation (`read_config_generation` is the constant
/// 0 there, /repo 058e2dd), so `read_consistent` cannot detect a change — see
/// `Props.C13.legacy_contract_unsatisfiable` / `legacy_read_can_tear`. Legacy MMIO stays in the
/// bounds part.
pub enum Tk {
    Model,
    MmioModern,
    Pci,
}
impl Tk {
    const ALL: [Tk; 3] = [Tk::Model, Tk::MmioModern, Tk::Pci];
    fn name(self) -> &'static str {
        match self {
            Tk::Model => "model",
            Tk::MmioModern => "mmio2",
            Tk::Pci => "pci",
        }
    }
    fn modulus(self) -> u64 {
        if self == Tk::Pci { 256 } else { 1 << 32 }
    }
}

struct RunOut {
    /// offset of the first configuration read
    first: Option<usize>,
    result: Result<u128, String>,
    ticks: usize,
    applied: usize,
    panicked: Option<String>,
}

/// One driver run under one schedule on one transport.
fn run_one(d: Drv, tk: Tk, len: usize, at: &[usize], gen0: u64) -> RunOut {
    run_one_c(d, tk, len, at, gen0, false)
}

fn run_one_c(d: Drv, tk: Tk, len: usize, at: &[usize], gen0: u64, cyclic: bool) -> RunOut {
    hal::reset();
    mmio::reset();
    mmio::with(|b| b.budget = 200_000);
    let sched = Sched { tick: 0, at: at.to_vec(), cfgs: d.configs(len), cur: 0, applied: 0, gen0, m: tk.modulus(), len, first_cfg_off: None, cyclic, may_panic: tk == Tk::Model };
    match tk {
        Tk::Model => {
            let sched = Rc::new(RefCell::new(sched));
            let mut ts = TState::new(DeviceType::try_from(d.devtype()).unwrap(), d.features(false), 4, 256);
            ts.config = sched.borrow_mut().ram()[..len].to_vec();
            ts.generation = gen0 as u32;
            let (inner, st) = ModelTransport::new(ts);
            let t = Ticking { inner, st, sched: sched.clone() };
            let r = guarded(|| drive::<LedgerHal, _>(d, t));
            let s = sched.borrow();
            match r {
                Ok(result) => RunOut { first: s.first_cfg_off, result, ticks: s.tick, applied: s.applied, panicked: None },
                Err(p) => RunOut { first: s.first_cfg_off, result: Err("panic".into()), ticks: s.tick, applied: s.applied, panicked: Some(p) },
            }
        }
        Tk::MmioModern => {
            let st = VState::new(2, d.devtype(), d.features(false), sched);
            mmio::register(MMIO_BASE, 0x100 + len + SLACK, "mmio", Box::new(MmioFront(st.clone())));
            let r = guarded(|| {
                // SAFETY: fake address; every access goes through the custom bus.
                let t = unsafe { MmioTransport::new(NonNull::new(MMIO_BASE as *mut VirtIOHeader).unwrap(), 0x100 + len) }.map_err(|e| format!("probe:{:?}", e))?;
                drive::<LedgerHal, _>(d, t)
            });
            let s = st.borrow();
            match r {
                Ok(result) => RunOut { first: s.sched.first_cfg_off, result, ticks: s.sched.tick, applied: s.sched.applied, panicked: None },
                Err(p) => RunOut { first: s.sched.first_cfg_off, result: Err("panic".into()), ticks: s.sched.tick, applied: s.sched.applied, panicked: Some(p) },
            }
        }
        Tk::Pci => {
            let st = VState::new(2, d.devtype(), d.features(false), sched);
            let r = guarded(|| {
                let t = make_pci(&st, d.devtype(), Some((0x3000, len as u32))).map_err(|e| format!("new:{}", e))?;
                drive::<LedgerHal, _>(d, t)
            });
            let s = st.borrow();
            match r {
                Ok(result) => RunOut { first: s.sched.first_cfg_off, result, ticks: s.sched.tick, applied: s.sched.applied, panicked: None },
                Err(p) => RunOut { first: s.sched.first_cfg_off, result: Err("panic".into()), ticks: s.sched.tick, applied: s.sched.applied, panicked: Some(p) },
            }
        }
    }
}

pub fn consistent_case(ctx: &Ctx, idx: usize, id: String) -> Case {
    let d = Drv::ALL[idx % 5];
    let tk = Tk::ALL[(idx / 5) % 3];
    let variant = idx / 15; // window length / start generation variant
    let mut c = Case::new(id);
    c.tag(format!("untorn-{}", d.name()));
    c.tag(format!("on-{}", tk.name()));
    let m = tk.modulus();
    // window lengths: the whole structure, and (variant 2) one so short that some generations'
    // values do not fit (9P: tag of 5 bytes) or a field is cut off
    let full = match d {
        Drv::Blk => 60,
        Drv::Vsock => 8,
        Drv::Console => 12,
        Drv::Net => 12,
        Drv::P9 => 16,
    };
    let (len, gen0) = match variant {
        0 => (full, 0u64),
        1 => (full, m - 1), // the generation counter wraps during the read
        _ => (
            match d {
                Drv::Blk | Drv::Vsock => 4,
                Drv::Console => 2,
                Drv::Net => 4,
                Drv::P9 => 6,
            },
            m - 2,
        ),
    };
    // PCI windows are whole 32-bit words
    let len = if tk == Tk::Pci { (len / 4 * 4).max(4) } else { len };
    c.tag(format!("variant{}", variant));
    let gran = if tk == Tk::Model { "field" } else { "chunk" };
    // dry run: how many device-visible reads does the undisturbed multi-field read take?
    let dry = run_one(d, tk, len, &[], gen0);
    let n0 = dry.ticks;
    // the order in which the closure reads its two fields is the driver's choice (the property does
    // not fix it): the model follows the order observed on the undisturbed run
    // (observed with the whole structure in the window: with a short window the first field read may
    // already be refused, without an access)
    let full_len = if tk == Tk::Pci { (full / 4 * 4).max(4) } else { full };
    let probe = if len == full_len { dry.first } else { run_one(d, tk, full_len, &[], gen0).first };
    let swap = matches!(d, Drv::Blk | Drv::Vsock | Drv::Console) && probe.map(|o| o != 0).unwrap_or(false);
    let horizon = 2 * n0 + 2;
    let mut schedules: Vec<Vec<usize>> = vec![vec![]];
    for p in 0..=horizon {
        schedules.push(vec![p]);
    }
    let pair_h = if ctx.tier == Tier::Quick { horizon.min(14) } else { horizon };
    for p in 0..=pair_h {
        for q in p..=pair_h {
            schedules.push(vec![p, q]);
        }
    }
    if ctx.tier == Tier::Thorough {
        let h3 = horizon.min(9);
        for p in 0..=h3 {
            for q in p..=h3 {
                for r in q..=h3 {
                    schedules.push(vec![p, q, r]);
                }
            }
        }
    }
    let cfgs = d.configs(len);
    let cfg_args: String = cfgs.iter().enumerate().map(|(i, cfg)| format!(" cfg{}={}", i, if len == 0 { "-".to_string() } else { cfg[..len].iter().map(|b| b.to_string()).collect::<Vec<_>>().join(",") })).collect();
    // storms: an update before each of the first k reads, the configurations cycling — many successive
    // attempts are interrupted (there is no number of retries after which an unvalidated read may be returned)
    let storms: Vec<usize> = [17 * (n0 + 1), 41 * (n0 + 1)].iter().map(|k| (*k).min(200)).collect();
    let mut plans: Vec<(Vec<usize>, usize)> = schedules.into_iter().map(|a| (a, 0usize)).collect();
    for k in storms {
        plans.push(((0..k).collect(), k));
    }
    for (at, storm) in plans {
        let out = run_one_c(d, tk, len, &at, gen0, storm > 0);
        let op = format!(
            "config consistent prog={} gran={} kind={} present=1 len={} base=0 extra={} m={:#x} gen0={:#x} ncfg=3{} at={} drv={} on={}{}{}",
            d.prog(),
            gran,
            if tk == Tk::Pci { "pci" } else { "mmio" },
            len,
            d.extra(),
            m,
            gen0,
            cfg_args,
            if at.is_empty() || storm > 0 { "-".to_string() } else { at.iter().map(|p| p.to_string()).collect::<Vec<_>>().join(",") },
            d.name(),
            tk.name(),
            if swap { " swap=1" } else { "" },
            if storm > 0 { format!(" storm={} cyc=1", storm) } else { String::new() }
        );
        let impl_out = match &out.result {
            Ok(v) => format!("ok {:#x} ticks={}", v, out.ticks),
            Err(e) => format!("err {} ticks={}", e, out.ticks),
        };
        // ---- oracle: the value must be one the device exposed under a single generation ----
        if let Some(p) = &out.panicked {
            c.fail(format!("{}: driver panicked: {}", op, p));
        }
        // configurations the device had exposed by the time the driver returned, and the value the
        // specification's layout assigns to each (None: that configuration does not fit the window)
        let upto = if storm > 0 { cfgs.len() - 1 } else { out.applied.min(cfgs.len() - 1) };
        let exposed: Vec<Option<u128>> = (0..=upto).map(|k| if need_of(d, &cfgs[k]) <= len { d.decode(&cfgs[k]) } else { None }).collect();
        match &out.result {
            Ok(v) => {
                c.nontrivial = true;
                if !exposed.iter().any(|e| *e == Some(*v)) {
                    c.fail(format!("{}: returned {:#x}, which the device never exposed under one generation (single-generation values: {:x?})", op, v, exposed));
                }
            }
            Err(e) => {
                let short = exposed.iter().any(|e| e.is_none());
                if !(short && e == "ConfigSpaceTooSmall") {
                    c.fail(format!("{}: unexpected failure {} (single-generation values: {:x?})", op, e, exposed));
                }
            }
        }
        c.step(op, impl_out);
    }
    c
}

/// bytes of configuration the multi-field read of `d` needs when the device exposes `cfg`
fn need_of(d: Drv, cfg: &[u8]) -> usize {
    match d {
        Drv::Blk | Drv::Vsock => 8,
        Drv::Console => 4,
        Drv::Net => 8, // mac (6) + status (2)
        Drv::P9 => 2 + cfg[0] as usize,
    }
}
/// the bounds streams on behalf of another check (C07: no access outside the device's configuration
/// window; C11: PCI operations access only the capability windows)
pub fn bounds_cases_for(ctx: &Ctx, prop: &str, mmio: bool) -> Vec<Case> {
    let lens = window_lengths(ctx.tier);
    let mut all = vec![];
    if mmio {
        all.extend(crate::runner::par_cases(ctx, prop, "bounds-mmio", lens.len() * 4, |i, id| bounds_mmio(ctx, i, id)));
    }
    all.extend(crate::runner::par_cases(ctx, prop, "bounds-pci", (lens.len() + 1) * 2, |i, id| bounds_pci(ctx, i, id)));
    all
}

/// only the MMIO half (C10: a configuration access touches only the device's own region)
pub fn bounds_cases_mmio(ctx: &Ctx, prop: &str) -> Vec<Case> {
    let lens = window_lengths(ctx.tier);
    crate::runner::par_cases(ctx, prop, "bounds-mmio", lens.len() * 4, |i, id| bounds_mmio(ctx, i, id))
}

pub fn bounds_cases(ctx: &Ctx) -> Vec<Case> {
    bounds_cases_for(ctx, "C07", true)
}

pub fn run(ctx: &Ctx) -> (Vec<Case>, String, bool, BTreeMap<String, String>) {
    let lens = window_lengths(ctx.tier);
    let mut all = crate::runner::par_cases(ctx, "C13", "bounds-mmio", lens.len() * 4, |i, id| bounds_mmio(ctx, i, id));
    all.extend(crate::runner::par_cases(ctx, "C13", "bounds-pci", (lens.len() + 1) * 2, |i, id| bounds_pci(ctx, i, id)));
    all.extend(crate::runner::par_cases(ctx, "C13", "untorn", 5 * 3 * 3, |i, id| consistent_case(ctx, i, id)));
    let rule = format!(
        "bounds: for each window length in {} (up to the largest config struct, virtio-input 136 bytes, +4) x {{MMIO legacy, MMIO modern}} x window base phase {{0,4}} mod 8, and PCI {{no device-config capability, capability length = each of those lengths}} x phase: every offset 0..=len+9 (quick tier: first/last 20 for long windows) plus offsets near usize::MAX, x {} types (sizes 0..128, alignments 1,2,4,8) x {{read, write}}; compared: result and byte-level bus trace; non-trivial = at least one access succeeded. untorn: 5 drivers x {{ModelTransport, MMIO modern, PCI}} (legacy MMIO has no configuration generation and is excluded) x 3 variants (generation starts at 0 / wraps / short window); per case the undisturbed read is measured (n0 reads) and then re-run with a configuration change + generation bump before every read position 0..=2*n0+2, every pair of positions{}; non-trivial = a value was returned",
        if ctx.tier == Tier::Quick { "{0..20, 24, 59..61, 63, 64, 128, 135..137, 140}" } else { "0..=140" },
        TYPES.len(),
        if ctx.tier == Tier::Quick { " up to 14" } else { " and every triple up to 9" }
    );
    let exhaustive = false;
    let mut extra = BTreeMap::new();
    extra.insert("x_pci_config_window".into(), "\"exercised through a minimal emulated PCI function (one memory BAR, four virtio capabilities); full PCI emulation belongs to C11/C12\"".into());
    (all, rule, exhaustive, extra)
}
