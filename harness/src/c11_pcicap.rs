//! C11: the PCI transport only uses capability windows that lie inside memory BARs.
//!
//! A case = one generated configuration space (BAR declarations + capability list) on the
//! reference PCI function of `pciref.rs`, reached through `ConfigurationAccess` directly or
//! through the real `MmioCam` (CAM / ECAM); `PciTransport::new::<LedgerHal, _>` is run on it; if it
//! succeeds, the fake virtual addresses handed out by `LedgerHal::mmio_phys_to_virt` are registered
//! on the custom safe-mmio bus (regions `P0..P3`) and a random sequence of `Transport`
//! operations plus the final drop is run against a scripted register-level device.
//!
//! Compared with the model: the `Result` (canonical error names / the four windows, multiplier,
//! device type), the ordered configuration accesses merged with the `mmio_phys_to_virt` requests,
//! the final configuration state, then per operation the ordered register accesses and the result.
//!
//! Oracles (independent of the model): every phys→virt request inside an allocated memory BAR;
//! windows long enough and aligned; window = first admissible capability of its type (structured
//! stream); configuration space restored; no BAR write while decoding, no write outside
//! command/BARs; no MMIO outside the windows; common-cfg accesses only at specification
//! offsets/widths; queue_select first / queue_enable last; notify address; reset-and-wait on
//! drop; no panic in `new`; no runaway loop (access budgets).

use crate::c12_pcibus::sparse_words;
use crate::hal::{self, HalEv, LedgerHal};
use crate::mmio::{self, MmioDevice};
use crate::pciref::*;
use crate::proto::Case;
use crate::rng::Rng;
use crate::runner::{Ctx, guarded};
use std::cell::RefCell;
use std::collections::{BTreeMap, VecDeque};
use std::rc::Rc;
use virtio_drivers::transport::pci::bus::{DeviceFunction, PciError, PciRoot};
use virtio_drivers::transport::pci::{PciTransport, VirtioPciError};
use virtio_drivers::transport::{DeviceStatus, Transport};

/// VirtIO 1.x §4.1.4.3 `struct virtio_pci_common_cfg`: (offset, width in bytes) — written from the specification.
const COMMON_CFG_FIELDS: [(usize, u8); 16] = [(0, 4), (4, 4), (8, 4), (12, 4), (16, 2), (18, 2), (20, 1), (21, 1), (22, 2), (24, 2), (26, 2), (28, 2), (30, 2), (32, 8), (40, 8), (48, 8)];
const OFF_STATUS: usize = 20;
const OFF_QUEUE_SELECT: usize = 22;
const OFF_QUEUE_ENABLE: usize = 28;
const OFF_QUEUE_NOTIFY_OFF: usize = 30;

#[derive(Clone, Debug)]
struct CapSpec {
    off: u8,
    id: u8,
    cap_len: u8,
    cfg_type: u8,
    bar_word: u32,
    offset: u32,
    length: u32,
    mult: u32,
}

struct Layout {
    decls: [BarDecl; 6],
    cmd: u16,
    status: u16,
    words: [u32; 64],
    /// capabilities in list order (only meaningful when `wellformed`)
    chain: Vec<CapSpec>,
    wellformed: bool,
    tags: Vec<String>,
}

fn err_str(e: &VirtioPciError) -> String {
    match e {
        VirtioPciError::InvalidDeviceId(d) => format!("InvalidDeviceId({:#x})", d),
        VirtioPciError::InvalidVendorId(v) => format!("InvalidVendorId({:#x})", v),
        VirtioPciError::MissingCommonConfig => "MissingCommonConfig".into(),
        VirtioPciError::MissingNotifyConfig => "MissingNotifyConfig".into(),
        VirtioPciError::InvalidNotifyOffMultiplier(m) => format!("InvalidNotifyOffMultiplier({:#x})", m),
        VirtioPciError::MissingIsrConfig => "MissingIsrConfig".into(),
        VirtioPciError::UnexpectedIoBar => "UnexpectedIoBar".into(),
        VirtioPciError::BarNotAllocated(b) => format!("BarNotAllocated({})", b),
        VirtioPciError::BarOffsetOutOfRange => "BarOffsetOutOfRange".into(),
        VirtioPciError::Misaligned { alignment, .. } => format!("Misaligned({})", alignment),
        VirtioPciError::Pci(PciError::InvalidBarType) => "Pci(InvalidBarType)".into(),
    }
}

/// Chooses (bar, offset, length) for a capability that needs `need` bytes, boundary-biased
/// relative to the BAR it names.
fn gen_window(rng: &mut Rng, decls: &[BarDecl; 6], need: u32, tidy: bool) -> (u32, u32, u32, &'static str) {
    let high = high_slots(decls);
    let good: Vec<usize> = (0..6).filter(|i| !high[*i] && decls[*i].is_memory() && decls[*i].addr != 0 && !(decls[*i].kind == Kind::Mem64 && *i == 5)).collect();
    let bar = match rng.below(if tidy { 60 } else { 20 }) {
        0 => *rng.pick(&[6u32, 7, 8, 63, 64, 255]),
        1 | 2 => rng.below(6) as u32,
        _ if !good.is_empty() => *rng.pick(&good) as u32,
        _ => rng.below(6) as u32,
    };
    let pad = if rng.chance(1, 3) { (rng.next() as u32) << 8 } else { 0 };
    let size: u64 = if (bar as usize) < 6 && decls[bar as usize].kind != Kind::None { decls[bar as usize].size() } else { 1 << rng.range(4, 33) };
    let cap = |v: u64| v.min(u32::MAX as u64) as u32;
    let (offset, length, mode) = match if tidy && rng.chance(9, 10) { 6 + rng.below(6) } else { rng.below(12) } {
        0 => {
            // ends exactly at the end of the BAR
            let length = cap((need as u64 + rng.below(64)).min(size));
            (cap(size.saturating_sub(length as u64)), length, "exact-end")
        }
        1 => {
            let length = cap((need as u64 + rng.below(64)).min(size));
            (cap(size.saturating_sub(length as u64) + *rng.pick(&[1u64, 2, 4, 8])), length, "just-beyond")
        }
        2 => *rng.pick(&[
            (0xffff_f000u32, 0x2000u32, "near-overflow"),
            (0xffff_ffff, 0xffff_ffff, "near-overflow"),
            (0xffff_fff8, 8, "near-overflow"),
            (0x8000_0000, 0x8000_0000, "near-overflow"),
            (0xffff_ff00, 0x138, "near-overflow"),
            (8, 0xffff_fff8, "near-overflow"),
        ]),
        3 => (cap(rng.below(size.max(1)) & !7), *rng.pick(&[0u32, need.saturating_sub(1), need / 2]), "too-short"),
        4 => (cap(rng.below(size.max(1)) & !7) | *rng.pick(&[1u32, 2, 4, 6]), need + rng.below(32) as u32, "odd-offset"),
        5 => (rng.u32_biased(), rng.u32_biased(), "random"),
        6 => {
            // ends exactly at the end of the BAR (8-aligned start)
            let length = cap(((need as u64 + 7) & !7).max(8 * rng.range(1, 16)).min(size));
            (cap(size.saturating_sub(length as u64)), length, "exact-end")
        }
        _ => {
            let length = cap((need as u64 + if rng.chance(1, 2) { 0 } else { rng.below(4096) }).min(size));
            let room = size.saturating_sub(length as u64);
            (cap(if room == 0 { 0 } else { rng.below(room + 1) & !7 }), length, "inside")
        }
    };
    (bar | pad, offset, length, mode)
}

fn gen_layout(rng: &mut Rng, hostile: bool) -> Layout {
    let mut tags = vec![];
    // "tidy" cases keep most choices valid so that construction usually succeeds and the operations run
    let tidy = !hostile && rng.chance(2, 3);
    let mut decls = [BarDecl::NONE; 6];
    let mut s = 0;
    while s < 6 {
        let k = if hostile { random_kind(rng) } else { *rng.pick(&[Kind::None, Kind::Mem32, Kind::Mem32, Kind::Mem64, Kind::Mem64, Kind::Below1M, Kind::Io]) };
        let k = if !hostile && k == Kind::Mem64 && s == 5 { Kind::Mem32 } else { k };
        decls[s] = random_decl(rng, k);
        if tidy && decls[s].is_memory() && decls[s].exp < 12 {
            decls[s].exp = 12 + rng.below(12) as u8;
            decls[s].addr = random_addr(rng, k, decls[s].exp);
        }
        if !hostile && k != Kind::None && decls[s].addr == 0 && rng.chance(3, 4) {
            decls[s].addr = random_addr(rng, k, decls[s].exp) | (1u64 << decls[s].exp.min(if k == Kind::Mem64 { 62 } else { 30 }));
            decls[s].addr &= !(decls[s].size() - 1);
            if k != Kind::Mem64 {
                decls[s].addr &= 0xffff_ffff;
            }
        }
        s += if k == Kind::Mem64 { 2 } else { 1 };
    }
    let mut words = [0u32; 64];
    for w in words.iter_mut() {
        *w = rng.next() as u32;
    }
    let vendor: u16 = if rng.chance(1, if tidy { 100 } else { 25 }) { rng.u16_biased() } else { 0x1af4 };
    let device: u16 = match if tidy { 6 + rng.below(14) } else { rng.below(20) } {
        0 => rng.u16_biased(),
        1 => 0x1040,
        2..=5 => *rng.pick(&[0x1000u16, 0x1001, 0x1002, 0x1003, 0x1004, 0x1005, 0x1009]),
        6 => 0x1040 + *rng.pick(&[26u16, 14, 15, 0x100]),
        _ => 0x1040 + *rng.pick(&[1u16, 2, 3, 4, 5, 9, 13, 16, 18, 19, 25]),
    };
    words[0] = (device as u32) << 16 | vendor as u32;
    if vendor != 0x1af4 {
        tags.push("foreign-vendor".into());
    }

    // capability specs
    let ncaps = if hostile { rng.below(14) as usize } else { 3 + rng.below(8) as usize };
    let mut specs: Vec<CapSpec> = vec![];
    // structured: make sure all four types are usually present, with duplicates and foreign ones mixed in
    let mut types: Vec<u8> = vec![1, 2, 3, 4];
    while types.len() < ncaps {
        types.push(*rng.pick(&[1u8, 2, 3, 4, 1, 2, 3, 4, 5, 8, 0, 9, 255]));
    }
    if hostile || rng.chance(1, 6) {
        let drop_n = rng.below(3) as usize;
        for _ in 0..drop_n {
            if !types.is_empty() {
                let i = rng.below(types.len() as u64) as usize;
                types.remove(i);
            }
        }
    }
    if !tidy {
        rng.shuffle(&mut types);
    } else {
        // keep the four needed types, shuffle the extras among them later (list order is shuffled anyway)
    }
    types.truncate(ncaps.max(if hostile { 0 } else { 4 }));
    let mut next_free: u32 = 0x40 + 4 * rng.below(4) as u32;
    for t in types {
        let vendor_cap = rng.chance(if tidy { 39 } else { 9 }, if tidy { 40 } else { 10 });
        let id = if vendor_cap { 0x09 } else { *rng.pick(&[0x01u8, 0x05, 0x10, 0x11, 0x00, 0xff]) };
        let need = match t {
            1 => 56,
            2 => 2,
            3 => 1,
            _ => 4,
        };
        let cap_len: u8 = match rng.below(if tidy { 48 } else { 16 }) {
            0 => *rng.pick(&[0u8, 4, 8, 12, 15]),
            1 if t == 2 => *rng.pick(&[16u8, 19]),
            2 => *rng.pick(&[24u8, 32, 255]),
            _ => if t == 2 { 20 } else { 16 },
        };
        let (bar_word, offset, length, mode) = gen_window(rng, &decls, need, tidy);
        tags.push(format!("win={}", mode));
        if bar_word & 0xff > 5 {
            tags.push("reserved-bar".into());
        }
        let mult = match rng.below(if tidy { 40 } else { 10 }) {
            0 => rng.u32_biased() | 1,
            1 => 0,
            2 => rng.u32_biased() & !1,
            _ => *rng.pick(&[2u32, 4, 8, 16, 4096]),
        };
        let off = if hostile && rng.chance(1, 2) {
            (0x40 + 4 * rng.below(48)) as u32
        } else {
            let o = next_free;
            next_free += ((cap_len.max(if t == 2 { 20 } else { 16 }) as u32 + 3) & !3) + 4 * rng.below(3) as u32;
            o
        };
        if off > 0xfc || (tidy && off + 20 > 0x100) {
            break;
        }
        if specs.iter().any(|s| s.off as u32 == off) {
            continue;
        }
        specs.push(CapSpec { off: off as u8, id, cap_len, cfg_type: t, bar_word, offset, length, mult });
    }
    // list order: any order
    rng.shuffle(&mut specs);
    let n = specs.len();
    // write bodies first, then headers (headers win when hostile placements overlap)
    for c in &specs {
        let w = c.off as usize / 4;
        for (k, v) in [(1, c.bar_word), (2, c.offset), (3, c.length), (4, c.mult)] {
            if w + k < 64 && (k < 4 || c.cfg_type == 2 || c.cap_len >= 20) {
                words[w + k] = v;
            }
        }
    }
    for (i, c) in specs.iter().enumerate() {
        let next = if i + 1 < n { specs[i + 1].off } else { 0 };
        words[c.off as usize / 4] = c.id as u32 | (next as u32) << 8 | (c.cap_len as u32) << 16 | (c.cfg_type as u32) << 24;
    }
    let mut status = rng.next() as u16 | 0x10;
    words[0x34 / 4] = (rng.next() as u32 & 0xffff_ff00) | if n > 0 { specs[0].off as u32 } else { 0 };
    let wellformed = !hostile;
    if n == 0 {
        status &= !0x10;
    }
    if hostile {
        match rng.below(6) {
            0 if n > 0 => {
                let last = specs[n - 1].off as usize / 4;
                let back = specs[rng.below(n as u64) as usize].off;
                words[last] = (words[last] & 0xffff_00ff) | (back as u32) << 8;
                tags.push("cyclic".into());
            }
            1 if n > 0 => {
                let at = specs[rng.below(n as u64) as usize].off as usize / 4;
                words[at] = (words[at] & 0xffff_00ff) | (rng.next() as u32 & 0xff00);
                tags.push("bad-next".into());
            }
            2 => {
                status &= !0x10;
                tags.push("no-cap-bit".into());
            }
            _ => {}
        }
    }
    if specs.iter().any(|c| c.off as usize + c.cap_len as usize > 256) {
        tags.push("cap-extends-past-config-space".into());
    }
    let cmd = rng.next() as u16 & CMD_IMPLEMENTED;
    Layout { decls, cmd, status, words, chain: specs, wellformed, tags }
}

/// Is [paddr, paddr+len) inside an allocated memory BAR of the function?
fn inside_memory_bar(decls: &[BarDecl; 6], paddr: u64, len: u64) -> Option<usize> {
    let high = high_slots(decls);
    (0..6).find(|&i| {
        let d = &decls[i];
        !high[i]
            && d.is_memory()
            && !(d.kind == Kind::Mem64 && i == 5)
            && d.addr != 0
            && paddr as u128 >= d.addr as u128
            && paddr as u128 + len as u128 <= d.addr as u128 + d.size() as u128
    })
}

/// Scripted register-level device behind every window: reads pop the next scripted answer.
struct ScriptDev {
    script: Rc<RefCell<VecDeque<u64>>>,
}
impl MmioDevice for ScriptDev {
    fn read(&mut self, _offset: usize, width: u8) -> u64 {
        let v = self.script.borrow_mut().pop_front().unwrap_or(0);
        if width >= 8 { v } else { v & ((1u64 << (8 * width)) - 1) }
    }
    fn write(&mut self, _offset: usize, _width: u8, _value: u64) {}
}

const REG_LEN_CAP: usize = 0xffff_e000;

fn multiplier_of(t: &PciTransport) -> Option<u32> {
    let s = format!("{:?}", t);
    let i = s.find("notify_off_multiplier: ")? + "notify_off_multiplier: ".len();
    let rest = &s[i..];
    let end = rest.find(|c: char| !c.is_ascii_digit())?;
    rest[..end].parse().ok()
}

fn one_case(id: String, rng: &mut Rng, hostile: bool, mech: Mech) -> Case {
    let mut c = Case::new(id);
    hal::reset();
    mmio::reset();
    mmio::with(|b| b.budget = 200_000);
    let lay = gen_layout(rng, hostile);
    let df = DeviceFunction { bus: rng.below(256) as u8, device: rng.below(32) as u8, function: rng.below(8) as u8 };
    let key = (df.bus, df.device, df.function);
    let bus = new_bus(50_000);
    bus.borrow_mut().fns.insert(key, RefFn::new(&lay.decls, lay.cmd, lay.status, lay.words));
    let before = bus.borrow().fns[&key].snapshot();
    let mut root = PciRoot::new(access(&bus, mech));
    let _ = hal::take_events();

    let r = guarded(|| PciTransport::new::<LedgerHal, _>(&mut root, df));

    // ordered trace: configuration accesses merged with phys→virt requests
    let mut evs: Vec<(u64, String)> = std::mem::take(&mut bus.borrow_mut().log).into_iter().map(|a| (a.seq, a.canon())).collect();
    let mut p2v_reqs = vec![];
    for (seq, e) in hal::take_events() {
        if let HalEv::PhysToVirt { paddr, size } = e {
            p2v_reqs.push((paddr, size));
            evs.push((seq, format!("P({:#x},{})", paddr, size)));
        }
    }
    evs.sort_by_key(|(s, _)| *s);
    // compared with the model: the windows requested from the platform (an unordered group: the
    // property does not fix the order in which the four structures are mapped).  How often and in
    // which order `new` reads configuration space and sizes BARs is not fixed by the property either:
    // the oracles below check what matters (configuration space left as it was, no illegal access,
    // every mapping inside an allocated memory BAR).
    let ps: Vec<String> = evs.iter().filter(|(_, s)| s.starts_with("P(")).map(|(_, s)| s.clone()).collect();
    let trace = if ps.is_empty() { "-".to_string() } else { format!("{{ {} }}", ps.join(" ")) };
    let st = bus.borrow().fns[&key].state_str();
    let op = format!("pcicap new cmd={:#x} st={:#x} bars={} w={}", lay.cmd, lay.status, decls_arg(&lay.decls), sparse_words(&lay.words));

    // ---- oracles on `new` ----
    for (paddr, size) in &p2v_reqs {
        if inside_memory_bar(&lay.decls, *paddr, *size as u64).is_none() {
            c.fail(format!("mmio_phys_to_virt({:#x}, {}) is not inside an allocated memory BAR of the function (BARs: {:?})", paddr, size, lay.decls));
        }
    }
    let after = bus.borrow().fns[&key].snapshot();
    if after != before {
        let w = (0..64).find(|i| after[*i] != before[*i]).unwrap();
        c.fail(format!("PciTransport::new left configuration word {:#x} = {:#x}, was {:#x}", w * 4, after[w], before[w]));
    }
    for v in std::mem::take(&mut bus.borrow_mut().violations) {
        c.fail(v);
    }
    for t in &lay.tags {
        c.tag(t.clone());
    }
    c.tag(format!("via={}", mech.name()));
    c.tag(if hostile { "stream=hostile" } else { "stream=structured" });

    let mut transport = match r {
        Err(p) => {
            if p.contains(CFG_BUDGET_PANIC) || p.contains(mmio::BUDGET_PANIC) {
                c.fail("PciTransport::new did not terminate (configuration access budget exhausted)");
            } else {
                c.fail(format!("PciTransport::new panicked: {}", p));
            }
            c.step(op, format!("err panic | {} | {}", trace, st));
            c.tag("new=panic");
            return c;
        }
        Ok(Err(e)) => {
            // oracle (structured stream): if, for every required structure type, the FIRST admissible
            // capability (vendor id, long enough, inside configuration space, non-reserved BAR index) is
            // valid — inside an allocated memory BAR, long enough, aligned — the device must be accepted;
            // capabilities the specification tells the driver to ignore must not get in the way.
            if lay.wellformed && !matches!(e, VirtioPciError::InvalidVendorId(_) | VirtioPciError::InvalidDeviceId(_)) {
                let high = high_slots(&lay.decls);
                let bars_valid = (0..6).all(|i| high[i] || !(lay.decls[i].kind == Kind::MemRsvd || (lay.decls[i].kind == Kind::Mem64 && i == 5)));
                let mut all_good = bars_valid;
                for (ty, need, align, required) in [(1u8, 56u64, 8u64, true), (2, 2, 2, true), (3, 1, 1, true), (4, 4, 4, false)] {
                    let first = lay.chain.iter().find(|s| s.id == 9 && s.cfg_type == ty && s.cap_len >= if ty == 2 { 20 } else { 16 } && s.off as usize + s.cap_len as usize <= 256 && s.bar_word & 0xff <= 5);
                    match first {
                        None => all_good &= !required,
                        Some(sp) => {
                            let b = (sp.bar_word & 0xff) as usize;
                            let d = &lay.decls[b];
                            let ok = !high[b]
                                && d.is_memory()
                                && d.addr != 0
                                && sp.offset as u64 + sp.length as u64 <= d.size()
                                && sp.length as u64 >= need
                                && (d.addr.wrapping_add(sp.offset as u64)) % align == 0
                                && (ty != 2 || sp.mult % 2 == 0);
                            all_good &= ok;
                        }
                    }
                }
                if all_good {
                    c.fail(format!("PciTransport::new failed with {} although the first admissible capability of every required type is valid (capabilities that must be ignored got in the way?)", err_str(&e)));
                }
            }
            c.step(op, format!("err {} | {} | {}", err_str(&e), trace, st));
            c.tag(format!("new=err:{}", err_str(&e).split('(').next().unwrap()));
            return c;
        }
        Ok(Ok(t)) => t,
    };
    c.tag("new=ok");
    c.nontrivial = true;
    let mult = multiplier_of(&transport).unwrap_or(0xdead_beef);
    let dt = transport.device_type() as u8;
    let win = |k: usize| p2v_reqs.get(k).map(|(p, s)| format!("{:#x}+{:#x}", p, s)).unwrap_or_else(|| "none".into());
    c.step(
        op,
        format!("ok type={} common={} notify={} mult={:#x} isr={} device={} | {} | {}", dt, win(0), win(1), mult, win(2), win(3), trace, st),
    );
    if p2v_reqs.len() < 3 || p2v_reqs.len() > 4 {
        c.fail(format!("{} phys→virt requests for a successfully constructed transport", p2v_reqs.len()));
        return c;
    }
    // long enough and aligned for their use: common cfg 56 bytes, 8-aligned (the specification asks for 4,
    // but this driver writes queue_desc / queue_driver / queue_device with single 64-bit stores — see the
    // W64 accesses of `queue_set` — so "suitably aligned for its use" is 8), notify 2/2, ISR 1, device 4
    for (k, (need, align)) in [(56usize, 8u64), (2, 2), (1, 1), (4, 4)].iter().enumerate() {
        if let Some((p, s)) = p2v_reqs.get(k) {
            if *s < *need || p % align != 0 {
                c.fail(format!("window P{} at {:#x} length {} is too short or misaligned for its use (needs {} bytes, alignment {})", k, p, s, need, align));
            }
        }
    }
    if mult % 2 != 0 {
        c.fail(format!("odd notify_off_multiplier {} accepted", mult));
    }
    // first admissible capability of each type (structured stream: list order is the generator's order)
    if lay.wellformed {
        for (k, ty) in [(0usize, 1u8), (1, 2), (2, 3), (3, 4)] {
            // admissible: vendor capability of this type, long enough for its structure, lying inside configuration space, non-reserved BAR index
            let first = lay.chain.iter().find(|s| s.id == 9 && s.cfg_type == ty && s.cap_len >= if ty == 2 { 20 } else { 16 } && s.off as usize + s.cap_len as usize <= 256 && s.bar_word & 0xff <= 5);
            match (first, p2v_reqs.get(k)) {
                (Some(s), Some((p, l))) => {
                    let want = lay.decls[(s.bar_word & 0xff) as usize].addr.wrapping_add(s.offset as u64);
                    if *p != want || *l != s.length as usize {
                        c.fail(format!("window P{} = ({:#x},{}) is not the first admissible capability of type {} ({:?})", k, p, l, ty, s));
                    }
                    if ty == 2 && mult != s.mult {
                        c.fail(format!("multiplier {} not taken from the chosen notify capability ({})", mult, s.mult));
                    }
                }
                (None, None) if ty == 4 => {}
                (a, b) => c.fail(format!("capability type {}: first admissible {:?}, window {:?}", ty, a, b)),
            }
        }
    }

    // ---- operations ----
    let script = Rc::new(RefCell::new(VecDeque::new()));
    let p2v = hal::with(|h| h.p2v.clone());
    for (k, (_paddr, size, v)) in p2v.iter().enumerate() {
        mmio::register(*v, (*size).min(REG_LEN_CAP), &format!("P{}", k), Box::new(ScriptDev { script: script.clone() }));
    }
    let _ = mmio::take_trace();
    let notify_len = p2v_reqs[1].1 as u64;
    let dev_len = p2v_reqs.get(3).map(|x| x.1 as u64);
    let nops = 6 + rng.below(20) as usize;
    for _ in 0..nops {
        let (name, args, rd): (&str, String, Vec<u64>) = match rng.below(14) {
            0 => ("read_features", String::new(), vec![rng.u32_biased() as u64, rng.u32_biased() as u64]),
            1 => ("write_features", format!(" v={:#x}", rng.u64_biased()), vec![]),
            2 => ("max_queue_size", format!(" q={}", rng.u16_biased()), vec![rng.u16_biased() as u64]),
            3 | 4 => {
                // choose queue_notify_off so that off*mult is inside / at the end / beyond the window
                let m = mult as u64;
                let off: u64 = if m == 0 {
                    rng.u16_biased() as u64
                } else {
                    match rng.below(4) {
                        0 => (notify_len / m).min(0xffff),
                        1 => (notify_len / m).saturating_sub(1).min(0xffff),
                        2 => rng.u16_biased() as u64,
                        _ => rng.below((notify_len / m).clamp(1, 0x10000)),
                    }
                };
                let off = if off * m >= REG_LEN_CAP as u64 && off * m < notify_len { 0 } else { off };
                ("notify", format!(" q={}", rng.u16_biased()), vec![off])
            }
            5 => ("get_status", String::new(), vec![rng.next() & 0xff]),
            6 => ("set_status", format!(" s={}", *rng.pick(&[0u32, 1, 3, 11, 15, 128, 0x4f])), vec![]),
            7 | 8 => (
                "queue_set",
                format!(" q={} size={} desc={:#x} drv={:#x} dev={:#x}", rng.u16_biased(), rng.u32_biased(), rng.u64_biased(), rng.u64_biased(), rng.u64_biased()),
                vec![],
            ),
            9 => ("queue_used", format!(" q={}", rng.u16_biased()), vec![*rng.pick(&[0u64, 1, 2, 0xffff])]),
            10 => ("ack_interrupt", String::new(), vec![rng.below(4)]),
            11 => ("config_generation", String::new(), vec![rng.next() & 0xff]),
            12 => {
                let width = *rng.pick(&[1usize, 2, 4, 4, 8]);
                let lim = dev_len.unwrap_or(64).min(REG_LEN_CAP as u64 - 16);
                let off = match rng.below(4) {
                    0 => lim.saturating_sub(width as u64),
                    1 => lim,
                    2 => rng.below(lim + 8),
                    _ => rng.below(lim + 1) / width as u64 * width as u64,
                };
                ("read_config", format!(" off={} width={}", off, width), vec![rng.next()])
            }
            _ => {
                let width = *rng.pick(&[1usize, 2, 4, 4]);
                let lim = dev_len.unwrap_or(64).min(REG_LEN_CAP as u64 - 16);
                let off = rng.below(lim + 8) / width as u64 * width as u64;
                ("write_config", format!(" off={} width={} val={:#x}", off, width, rng.next() & ((1u64 << (8 * width)) - 1)), vec![])
            }
        };
        run_op(&mut c, &mut transport, name, &args, &rd, &script, mult);
    }
    // ---- drop: reset and wait ----
    // mostly a quick reset; now and then a device that needs well over a thousand polls to complete it
    let pending = if rng.chance(1, 12) { *rng.pick(&[1001usize, 1024, 1500, 3000]) } else { rng.below(5) as usize };
    let rd: Vec<u64> = (0..pending).map(|_| if hostile && rng.chance(1, 4) { rng.next() & 0xff } else { *rng.pick(&[1u64, 3, 11, 15, 0x40, 0x80, 0x4f, 0xcf]) }).collect();
    *script.borrow_mut() = rd.iter().copied().collect();
    let r = guarded(move || drop(transport));
    let tr = mmio::take_trace();
    let out = match &r {
        Ok(()) => "()".to_string(),
        Err(p) => {
            if p.contains(mmio::BUDGET_PANIC) {
                c.fail("drop did not terminate (MMIO access budget exhausted)");
            } else {
                c.fail(format!("drop panicked: {}", p));
            }
            "panic".to_string()
        }
    };
    // oracle: write 0 to device_status first, then poll device_status until it reads 0
    let all_status = tr.iter().all(|a| a.region == "P0" && a.offset == OFF_STATUS && a.width == 1);
    let first_ok = tr.first().map(|a| a.write && a.value == 0).unwrap_or(false);
    let reads_only_after = tr.iter().skip(1).all(|a| !a.write);
    let valid_script = rd.iter().all(|v| v & !0xcf == 0);
    let last_zero = tr.len() >= 2 && tr.last().map(|a| !a.write && a.value == 0).unwrap_or(false);
    if !(all_status && first_ok && reads_only_after) || (valid_script && !last_zero) {
        c.fail(format!("drop did not reset the device and wait for the reset to complete: {}", tr.iter().map(|a| a.canon()).collect::<Vec<_>>().join(" ")));
    }
    c.step(
        format!("pcicap op name=drop rd={}", if rd.is_empty() { "-".to_string() } else { rd.iter().map(|v| format!("{:#x}", v)).collect::<Vec<_>>().join(",") }),
        format!("{} => {}", if tr.is_empty() { "-".to_string() } else { trace_grouped("drop", &tr) }, out),
    );
    for v in mmio::with(|b| std::mem::take(&mut b.violations)) {
        c.fail(format!("access outside the capability windows: {}", v));
    }
    c
}

fn run_op(c: &mut Case, t: &mut PciTransport, name: &str, args: &str, rd: &[u64], script: &Rc<RefCell<VecDeque<u64>>>, mult: u32) {
    *script.borrow_mut() = rd.iter().copied().collect();
    let arg = |k: &str| -> u64 {
        let pat = format!(" {}=", k);
        let i = args.find(&pat).map(|i| i + pat.len()).unwrap();
        let v = args[i..].split(' ').next().unwrap();
        if let Some(h) = v.strip_prefix("0x") { u64::from_str_radix(h, 16).unwrap() } else { v.parse().unwrap() }
    };
    let r: Result<String, String> = guarded(|| match name {
        "read_features" => format!("{:#x}", t.read_device_features()),
        "write_features" => {
            t.write_driver_features(arg("v"));
            "()".into()
        }
        "max_queue_size" => format!("{:#x}", t.max_queue_size(arg("q") as u16)),
        "notify" => {
            t.notify(arg("q") as u16);
            "()".into()
        }
        "get_status" => format!("{:#x}", t.get_status().bits()),
        "set_status" => {
            t.set_status(DeviceStatus::from_bits_retain(arg("s") as u32));
            "()".into()
        }
        "queue_set" => {
            t.queue_set(arg("q") as u16, arg("size") as u32, arg("desc"), arg("drv"), arg("dev"));
            "()".into()
        }
        "queue_used" => format!("{}", t.queue_used(arg("q") as u16)),
        "ack_interrupt" => format!("{:#x}", t.ack_interrupt().bits()),
        "config_generation" => format!("{:#x}", t.read_config_generation()),
        "read_config" => {
            let off = arg("off") as usize;
            let r = match arg("width") {
                1 => t.read_config_space::<u8>(off).map(|v| v as u64),
                2 => t.read_config_space::<u16>(off).map(|v| v as u64),
                4 => t.read_config_space::<u32>(off).map(|v| v as u64),
                _ => t.read_config_space::<u64>(off),
            };
            match r {
                Ok(v) => format!("{:#x}", v),
                Err(e) => format!("err {:?}", e),
            }
        }
        "write_config" => {
            let off = arg("off") as usize;
            let v = arg("val");
            let r = match arg("width") {
                1 => t.write_config_space::<u8>(off, v as u8),
                2 => t.write_config_space::<u16>(off, v as u16),
                _ => t.write_config_space::<u32>(off, v as u32),
            };
            match r {
                Ok(()) => "()".into(),
                Err(e) => format!("err {:?}", e),
            }
        }
        _ => unreachable!(),
    });
    let tr = mmio::take_trace();
    let out = match &r {
        Ok(s) => s.clone(),
        Err(p) => {
            if p.contains(mmio::BUDGET_PANIC) {
                c.fail(format!("{} did not terminate", name));
            }
            "panic".into()
        }
    };
    // ---- oracles from the specification ----
    for a in &tr {
        if a.region == "P0" && !COMMON_CFG_FIELDS.contains(&(a.offset, a.width)) {
            c.fail(format!("{}: access {} is not a field of virtio_pci_common_cfg at its natural width", name, a.canon()));
        }
    }
    if name == "queue_set" && r.is_ok() {
        let sel_first = tr.first().map(|a| a.write && a.region == "P0" && a.offset == OFF_QUEUE_SELECT).unwrap_or(false);
        let en_last = tr.last().map(|a| a.write && a.region == "P0" && a.offset == OFF_QUEUE_ENABLE && a.value == 1).unwrap_or(false);
        let en_once = tr.iter().filter(|a| a.region == "P0" && a.offset == OFF_QUEUE_ENABLE).count() == 1;
        if !(sel_first && en_last && en_once) {
            c.fail(format!("queue_set must select the queue first and enable it last: {}", tr.iter().map(|a| a.canon()).collect::<Vec<_>>().join(" ")));
            if !sel_first {
                c.fail(format!("[C06] PCI queue_set did not select queue {} before writing its size and areas", arg("q")));
            }
        }
    }
    if name == "queue_set" && r.is_ok() {
        // what the device latches: the size and the three area addresses the caller passed, each written
        // (the device keeps its own maximum as the queue size otherwise and indexes the rings with that)
        let wrote = |off: usize, val: u64| tr.iter().any(|a| a.write && a.region == "P0" && a.offset == off && a.value == val);
        let mut missing = vec![];
        if !wrote(24, arg("size") & 0xffff) {
            missing.push(format!("queue_size := {}", arg("size")));
        }
        for (nm, off, key) in [("queue_desc", 32usize, "desc"), ("queue_driver", 40, "drv"), ("queue_device", 48, "dev")] {
            if !wrote(off, arg(key)) {
                missing.push(format!("{} := {:#x}", nm, arg(key)));
            }
        }
        if !missing.is_empty() {
            let t = tr.iter().map(|a| a.canon()).collect::<Vec<_>>().join(" ");
            c.fail(format!("queue_set did not write {}: {}", missing.join(", "), t));
            for tag in ["C02", "C06"] {
                c.fail(format!("[{}] PCI queue_set did not write {} (the device keeps its previous value, e.g. its maximum queue size, and reads the rings accordingly): {}", tag, missing.join(", "), t));
            }
        }
    }
    if matches!(name, "max_queue_size" | "queue_used" | "notify") && !tr.is_empty() {
        if !(tr[0].write && tr[0].region == "P0" && tr[0].offset == OFF_QUEUE_SELECT) {
            c.fail(format!("{}: per-queue field accessed before queue_select was written", name));
            if name != "notify" {
                // (the device's selector is whatever it was left at — 0 after a reset —, so the answer or the
                // registration concerns another queue)
                c.fail(format!("[C06] PCI {}: per-queue field accessed without writing queue_select first", name));
            }
        }
    }
    if name == "notify" {
        let q = arg("q");
        let noff = tr.iter().find(|a| !a.write && a.region == "P0" && a.offset == OFF_QUEUE_NOTIFY_OFF).map(|a| a.value);
        for a in tr.iter().filter(|a| a.region != "P0") {
            let want = noff.map(|o| o * mult as u64);
            if !(a.write && a.region == "P1" && a.width == 2 && Some(a.offset as u64) == want && a.value == q) {
                c.fail(format!("notify({}): access {} but queue_notify_off {:?} x multiplier {} = {:?}", q, a.canon(), noff, mult, want));
            }
        }
        c.tag(if r.is_ok() { "notify=ok" } else { "notify=panic" });
    }
    c.step(
        format!("pcicap op name={}{} rd={}", name, args, if rd.is_empty() { "-".to_string() } else { rd.iter().map(|v| format!("{:#x}", v)).collect::<Vec<_>>().join(",") }),
        format!("{} => {}", if tr.is_empty() { "-".to_string() } else { trace_grouped(name, &tr) }, out),
    );
}

/// the accesses of one operation; for `queue_set` the writes between the queue selection and the
/// enabling write form an unordered group `{ … }` (the property orders only "select first, enable last")
fn trace_grouped(name: &str, tr: &[mmio::Access]) -> String {
    let all: Vec<String> = tr.iter().map(|a| a.canon()).collect();
    if name == "queue_set" && all.len() >= 3 {
        format!("{} {{ {} }} {}", all[0], all[1..all.len() - 1].join(" "), all[all.len() - 1])
    } else {
        all.join(" ")
    }
}

pub fn run(ctx: &Ctx) -> (Vec<Case>, String, bool, BTreeMap<String, String>) {
    let mut all = vec![];
    all.extend(crate::runner::par_cases(ctx, "C11", "structured", ctx.tier.pick(6000, 120_000), |i, id| {
        let mut rng = ctx.case_rng("c11s", i);
        one_case(id, &mut rng, false, Mech::of(i))
    }));
    all.extend(crate::runner::par_cases(ctx, "C11", "hostile", ctx.tier.pick(4000, 80_000), |i, id| {
        let mut rng = ctx.case_rng("c11h", i);
        one_case(id, &mut rng, true, Mech::of(i))
    }));
    // device-configuration accesses of every type (sizes 0..128) at every offset around the end of the
    // device-config window, for every capability length: only the window may be touched (C13's stream)
    let mut b = crate::c13_config::bounds_cases_for(ctx, "C11", false);
    for c in b.iter_mut() {
        c.id = format!("C11-via-{}", c.id);
        c.tag("device-config-bounds");
    }
    all.extend(b);
    let rule = "streams: structured = mostly valid configuration spaces (all four VirtIO capability types usually present, duplicates, short/long cap_len, foreign capability ids \
and cfg types, any list order, non-overlapping placement; 32/64-bit/below-1MiB/I-O/unimplemented BARs with sizes up to 2^63 and boundary/random addresses; capability (bar, offset, length) \
boundary-biased against the named BAR: inside, ending exactly at the end, just beyond, near-u32-overflow pairs, too short, odd offsets, random; reserved bar indices; even/odd/zero multipliers); \
hostile = additionally overlapping/late placements, cyclic lists, bad next pointers, capabilities bit clear, reserved memory type, fewer capabilities. \
Access path rotates over {ConfigurationAccess reference function, real MmioCam CAM, ECAM}. After a successful new: 6-25 random Transport operations against a scripted device then drop. \
non-trivial = PciTransport::new succeeded (windows mapped, operations and drop traced). Plus the PCI half of C13's bounds stream: every access type x every offset around the end of the device-config window x every capability length."
        .to_string();
    (all, rule, false, BTreeMap::new())
}
