//! C11 (placeholder while C12 is brought up)
use crate::proto::Case;
use crate::runner::Ctx;
use std::collections::BTreeMap;
pub fn run(_ctx: &Ctx) -> (Vec<Case>, String, bool, BTreeMap<String, String>) {
    (vec![], String::new(), false, BTreeMap::new())
}
