//! C18: socket connection state follows the protocol and connections are isolated.
//!
//! The real `VsockConnectionManager` is driven in lock-step with the reference connection table of
//! `vsock_world` over several peers × ports: local operations on known and unknown connections,
//! peer packets of every operation for known, unknown and foreign connections (wrong destination
//! cid, other peer, other port), malformed packets (short, oversize used length, length beyond the
//! buffer, invalid / unknown operations, data on control packets), bursts of up to a full queue of
//! packets before polling, shutdown with buffered data.  After every poll the device-side count of
//! posted receive buffers is checked, and after every operation every other connection is probed.

use crate::c17_vsock::{FEATS, pool};
use crate::proto::Case;
use crate::rng::Rng;
use crate::runner::{Ctx, par_cases};
use crate::vsock_world::*;
use std::collections::BTreeMap;

const PEER_CIDS: [u64; 3] = [2, 7, 0x1_0000_0002];
const PEER_PORTS: [u32; 3] = [1024, 1025, 0xffff_fff0];
const LOCAL_PORTS: [u32; 4] = [10, 11, 12, 0xffff_ffff];

fn rand_key(rng: &mut Rng) -> Key {
    Key { pc: *rng.pick(&PEER_CIDS), pp: *rng.pick(&PEER_PORTS), lp: *rng.pick(&LOCAL_PORTS) }
}

/// a key biased towards existing connections (or towards near misses of them)
fn pick_key(w: &World, rng: &mut Rng) -> Key {
    let known: Vec<Key> = w.conns.keys().cloned().collect();
    if known.is_empty() || rng.chance(1, 4) {
        return rand_key(rng);
    }
    let k = *rng.pick(&known);
    match rng.below(10) {
        0 => Key { pc: *rng.pick(&PEER_CIDS), ..k },
        1 => Key { pp: *rng.pick(&PEER_PORTS), ..k },
        2 => Key { lp: *rng.pick(&LOCAL_PORTS), ..k },
        _ => k,
    }
}

fn credit(w: &mut World, rng: &mut Rng, key: Key) -> (u32, u32, Option<u64>) {
    if w.conns.contains_key(&key) && rng.chance(3, 4) { w.honest_credit(rng, key) } else { (rng.u32_biased(), rng.u32_biased(), None) }
}

fn peer_packet(w: &mut World, c: &mut Case, rng: &mut Rng) -> bool {
    let g = w.cfg.guest_cid;
    let key = pick_key(w, rng);
    let (ba, fc, hf) = credit(w, rng, key);
    let maxpay = w.cfg.rxbuf - HDR;
    let mut p = match rng.below(16) {
        0 | 1 => InjPkt::ctl(key, g, OP_REQUEST, ba, fc),
        2 => InjPkt::ctl(key, g, OP_RESPONSE, ba, fc),
        3 => InjPkt::ctl(key, g, OP_RST, ba, fc),
        4 | 5 => InjPkt::ctl(key, g, OP_SHUTDOWN, ba, fc),
        6..=9 => {
            let free = w.conns.get(&key).map(|o| o.driver_free_seen() as usize).unwrap_or(3);
            let len = match rng.below(4) {
                0 => free.min(maxpay),
                1 => rng.below(free as u64 + 1) as usize,
                2 => 1,
                _ => rng.below(maxpay as u64 + 1) as usize,
            }
            .min(maxpay);
            let mut p = InjPkt::rw(key, g, rng.bytes(len), ba, fc);
            p.within_credit = len <= free;
            p
        }
        10 => InjPkt::ctl(key, g, OP_CREDIT_UPDATE, ba, fc),
        11 => InjPkt::ctl(key, g, OP_CREDIT_REQUEST, ba, fc),
        12 => InjPkt::ctl(key, g, *rng.pick(&[0u16, 8, 9, 0x100, 0xffff]), ba, fc),
        13 => {
            // control packet carrying data
            let mut p = { let n = 1 + rng.below(3) as usize; InjPkt::rw(key, g, rng.bytes(n), ba, fc) };
            p.hdr.op = *rng.pick(&[OP_REQUEST, OP_RESPONSE, OP_RST, OP_SHUTDOWN, OP_CREDIT_UPDATE, OP_CREDIT_REQUEST, 0]);
            p
        }
        14 => {
            // malformed framing
            let mut p = { let n = rng.below(8) as usize; InjPkt::rw(key, g, rng.bytes(n), ba, fc) };
            match rng.below(4) {
                0 => p.used = rng.below(HDR as u64) as u32,
                1 => p.hdr.len = p.data.len() as u32 + 1 + rng.below(5) as u32,
                2 => p.hdr.len = rng.u32_biased().max(p.data.len() as u32 + 1),
                _ => p.used = w.cfg.rxbuf as u32 + 1 + rng.below(1000) as u32,
            }
            p
        }
        _ => {
            // trailing bytes after the body, other socket type
            let mut p = { let n = 2 + rng.below(6) as usize; InjPkt::rw(key, g, rng.bytes(n), ba, fc) };
            p.hdr.len = rng.below(p.data.len() as u64) as u32;
            p.hdr.typ = *rng.pick(&[1u16, 2, 0]);
            p.within_credit = (p.hdr.len as usize) <= w.conns.get(&key).map(|o| o.driver_free_seen() as usize).unwrap_or(0);
            p
        }
    };
    p.honest_fwd = hf;
    // foreign destination
    if rng.chance(1, 10) {
        p.hdr.dst_cid = match rng.below(4) {
            0 => g.wrapping_add(1),
            1 => 0,
            2 => g ^ (1 << 32),
            _ => key.pc,
        };
    }
    if p.hdr.flags == 0 && rng.chance(1, 12) {
        p.hdr.flags = rng.below(4) as u32;
    }
    w.inject(c, p)
}

fn local_op(w: &mut World, c: &mut Case, rng: &mut Rng) {
    let key = pick_key(w, rng);
    match rng.below(16) {
        0 => w.listen(c, *rng.pick(&LOCAL_PORTS)),
        1 => w.unlisten(c, *rng.pick(&LOCAL_PORTS)),
        2 => w.port_used(c, *rng.pick(&LOCAL_PORTS)),
        3 | 4 => w.connect(c, key),
        5 | 6 => {
            let free = w.conns.get(&key).map(|o| o.peer_free() as u64).unwrap_or(4);
            let len = match rng.below(4) {
                0 => 0,
                1 => free.min(3000),
                2 => (free + 1).min(3000),
                _ => rng.below(64),
            } as usize;
            let off = rng.below(1 << 20) as usize;
            w.send(c, key, &pool()[off..off + len]);
        }
        7..=9 => {
            let n = match rng.below(4) {
                0 => 0,
                1 => 1,
                2 => w.cfg.cap as usize + 1,
                _ => rng.below(w.cfg.cap as u64 + 2) as usize,
            };
            w.recv(c, key, n);
        }
        10 => w.avail(c, key),
        11 => w.ctl(c, key, "credit"),
        12 => w.ctl(c, key, "shutdown"),
        13 => w.ctl(c, key, "close"),
        14 => w.established(c, key),
        _ => w.poll(c),
    }
}

fn table_case(ctx: &Ctx, i: usize, id: String) -> Case {
    let mut c = Case::new(id);
    let mut rng = ctx.case_rng("table", i);
    let guest_cid = match rng.below(3) {
        0 => 3,
        1 => 0x1_0000_0003,
        _ => rng.range(3, 100),
    };
    let cfg = Cfg { guest_cid, cap: *rng.pick(&[1u32, 2, 3, 8, 16, 64, 1024]), rxbuf: *rng.pick(&[64usize, 512]), features: *rng.pick(&FEATS), max_q: 8 };
    crate::c17_vsock::tag_cfg(&mut c, &cfg);
    let mut w = match World::new(cfg, &mut c) {
        Ok(w) => w,
        Err(e) => {
            c.fail(e);
            return c;
        }
    };
    for p in LOCAL_PORTS {
        if rng.chance(1, 2) {
            w.listen(&mut c, p);
        }
    }
    let steps = ctx.tier.pick(80, 200) + rng.below(80) as usize;
    let mut max_conns = 0;
    let mut bursts = 0;
    for _ in 0..steps {
        if w.dead {
            break;
        }
        match rng.below(10) {
            0..=3 => {
                if peer_packet(&mut w, &mut c, &mut rng) && rng.chance(4, 5) {
                    w.poll(&mut c);
                }
            }
            4 => {
                // burst: up to a full queue of completions before the driver polls
                let n = 2 + rng.below(8);
                for _ in 0..n {
                    peer_packet(&mut w, &mut c, &mut rng);
                }
                bursts += 1;
                let k = rng.below(w.unconsumed.len() as u64 + 2);
                for _ in 0..k {
                    w.poll(&mut c);
                }
            }
            _ => local_op(&mut w, &mut c, &mut rng),
        }
        max_conns = max_conns.max(w.conns.len());
    }
    while !w.unconsumed.is_empty() && !w.dead {
        w.poll(&mut c);
    }
    let keys: Vec<Key> = w.conns.keys().cloned().collect();
    crate::c17_vsock::finish(&mut w, &mut c, &keys);
    c.nontrivial = w.events > 0 && max_conns > 0;
    c.tag(format!("max-conns={}", max_conns.min(6)));
    c.tag(if bursts > 0 { "bursts" } else { "no-bursts" });
    drop(w);
    c
}

/// scripted scenario: shutdown with buffered data, exactly as the property words it
fn shutdown_case(ctx: &Ctx, i: usize, id: String) -> Case {
    let mut c = Case::new(id);
    let mut rng = ctx.case_rng("shutdown", i);
    let cap = *rng.pick(&[1u32, 2, 3, 5, 16, 64]);
    let cfg = Cfg { guest_cid: 3, cap, rxbuf: 512, features: *rng.pick(&FEATS), max_q: 8 };
    crate::c17_vsock::tag_cfg(&mut c, &cfg);
    let mut w = match World::new(cfg, &mut c) {
        Ok(w) => w,
        Err(e) => {
            c.fail(e);
            return c;
        }
    };
    let a = Key { pc: 2, pp: 1024, lp: 10 };
    let b = Key { pc: 7, pp: 1024, lp: 10 }; // same ports, other peer
    let outgoing = rng.chance(1, 2);
    crate::c17_vsock::establish(&mut w, &mut c, &mut rng, a, outgoing, 100);
    crate::c17_vsock::establish(&mut w, &mut c, &mut rng, b, !outgoing, 100);
    let g = w.cfg.guest_cid;
    let n = 1 + rng.below(cap as u64) as usize;
    for k in [a, b] {
        let mut p = InjPkt::rw(k, g, rng.bytes(n), 100, 0);
        p.within_credit = true;
        w.inject(&mut c, p);
        w.poll(&mut c);
    }
    // peer of `a` goes away while data is buffered
    let op = if rng.chance(1, 2) { OP_SHUTDOWN } else { OP_RST };
    w.inject(&mut c, InjPkt::ctl(a, g, op, 100, 0));
    w.poll(&mut c);
    w.established(&mut c, a);
    w.avail(&mut c, a);
    w.send(&mut c, a, &[1]);
    w.ctl(&mut c, a, "credit");
    let mut left = n;
    while left > 0 && !w.dead {
        let r = 1 + rng.below(left as u64) as usize;
        let got = w.recv(&mut c, a, r);
        if got == 0 {
            break;
        }
        left -= got;
    }
    // closed with a reset once drained; the other connection is untouched
    w.recv(&mut c, a, 4);
    w.avail(&mut c, a);
    w.send(&mut c, b, &[9, 9]);
    w.recv(&mut c, b, n);
    // a disconnect with nothing buffered closes at once
    w.inject(&mut c, InjPkt::ctl(b, g, op, 100, 0));
    w.poll(&mut c);
    w.avail(&mut c, b);
    c.nontrivial = w.delivered_bytes > 0;
    c.tag("scripted-shutdown");
    drop(w);
    c
}

pub fn run(ctx: &Ctx) -> (Vec<Case>, String, bool, BTreeMap<String, String>) {
    let _ = pool();
    let mut all = par_cases(ctx, "C18", "table", ctx.tier.pick(2500, 30000), |i, id| table_case(ctx, i, id));
    all.extend(par_cases(ctx, "C18", "shutdown", ctx.tier.pick(200, 2000), |i, id| shutdown_case(ctx, i, id)));
    let rule = "table: real VsockConnectionManager driven in lock-step with a reference connection table over 3 peer cids x 3 peer ports x 4 local ports (keys biased to live connections and their near misses); local ops listen/unlisten/connect/send/recv/available/update_credit/shutdown/force_close/is_established/is_local_port_used/poll; peer packets of every op incl. invalid/unknown ops, data on control packets, short/oversize/inconsistent framing, foreign destination cid, bursts of up to a full receive queue; shutdown: scripted peer shutdown/reset with buffered data on one of two connections sharing both port numbers. non-trivial = at least one event was delivered and a connection existed (table) / buffered data was read after the peer went away (shutdown)".to_string();
    (all, rule, false, BTreeMap::new())
}
