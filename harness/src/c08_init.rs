//! C08: every driver performs the init handshake and honours the negotiated features.
//! Also hosts the driver table / canonical construction log shared with C09.

use crate::hal::{self, HalEv, LedgerHal};
use crate::mtrans::{ModelTransport, TCall, TState};
use crate::proto::Case;
use crate::refdev::RefQueue;
use crate::rng::Rng;
use crate::runner::{Ctx, guarded};
use std::cell::RefCell;
use std::collections::BTreeMap;
use std::rc::Rc;
use virtio_drivers::device::blk::VirtIOBlk;
use virtio_drivers::device::console::VirtIOConsole;
use virtio_drivers::device::gpu::VirtIOGpu;
use virtio_drivers::device::input::VirtIOInput;
use virtio_drivers::device::net::{VirtIONet, VirtIONetRaw};
use virtio_drivers::device::rng::VirtIORng;
use virtio_drivers::device::rtc::VirtIORtc;
use virtio_drivers::device::socket::VirtIOSocket;
use virtio_drivers::device::sound::VirtIOSound;
use virtio_drivers::device::virtio_9p::VirtIO9p;
use virtio_drivers::transport::{DeviceType, Transport};
use virtio_drivers::{BufferDirection, Error};

pub const NET_QUEUE_SIZE: usize = 16;
pub const NET_BUF_LEN: usize = 2048;

pub const ACK: u32 = 1;
pub const DRIVER: u32 = 2;
pub const DRIVER_OK: u32 = 4;
pub const FEATURES_OK: u32 = 8;
pub const F_INDIRECT: u64 = 1 << 28;
pub const F_EVENT_IDX: u64 = 1 << 29;
pub const F_VERSION_1: u64 = 1 << 32;
pub const F_ACCESS_PLATFORM: u64 = 1 << 33;

#[derive(Clone, Copy, Debug, PartialEq, Eq)]
pub enum Drv {
    Blk,
    Console,
    Gpu,
    Input,
    NetRaw,
    Net,
    Rng,
    Rtc,
    Socket,
    Sound,
    P9,
}

impl Drv {
    /// same order as `Generated.DropPlan.all` (tools/extract.py) and `Generated.Features.all`
    pub const ALL: [Drv; 11] = [Drv::Blk, Drv::Console, Drv::Gpu, Drv::Input, Drv::NetRaw, Drv::Net, Drv::Rng, Drv::Rtc, Drv::Socket, Drv::Sound, Drv::P9];
    pub fn index(self) -> usize {
        Drv::ALL.iter().position(|d| *d == self).unwrap()
    }
    pub fn name(self) -> &'static str {
        ["blk", "console", "gpu", "input", "netraw", "net", "rng", "rtc", "socket", "sound", "p9"][self.index()]
    }
    pub fn device_type(self) -> DeviceType {
        match self {
            Drv::Blk => DeviceType::Block,
            Drv::Console => DeviceType::Console,
            Drv::Gpu => DeviceType::GPU,
            Drv::Input => DeviceType::Input,
            Drv::NetRaw | Drv::Net => DeviceType::Network,
            Drv::Rng => DeviceType::EntropySource,
            Drv::Rtc => DeviceType::Timer,
            Drv::Socket => DeviceType::Socket,
            Drv::Sound => DeviceType::Sound,
            Drv::P9 => DeviceType::_9P,
        }
    }
    /// a well-formed device configuration space (small counts: the sound driver allocates per stream)
    pub fn config_ok(self) -> Vec<u8> {
        let mut c = vec![0u8; 64];
        match self {
            Drv::Blk => c[0..8].copy_from_slice(&0x1234_5678_9abcu64.to_le_bytes()),
            Drv::Gpu => c[8..12].copy_from_slice(&1u32.to_le_bytes()),
            Drv::NetRaw | Drv::Net => {
                c[0..6].copy_from_slice(&[2, 0, 0, 0, 0, 1]);
                c[6..8].copy_from_slice(&1u16.to_le_bytes());
            }
            Drv::Socket => c[0..8].copy_from_slice(&3u64.to_le_bytes()),
            Drv::Sound => {
                c[0..4].copy_from_slice(&1u32.to_le_bytes());
                c[4..8].copy_from_slice(&2u32.to_le_bytes());
                c[8..12].copy_from_slice(&1u32.to_le_bytes());
            }
            Drv::P9 => {
                c[0..2].copy_from_slice(&4u16.to_le_bytes());
                c[2..6].copy_from_slice(b"root");
            }
            _ => {}
        }
        c
    }
    /// does `new()` read the configuration space at all
    pub fn reads_config(self) -> bool {
        matches!(self, Drv::Blk | Drv::Gpu | Drv::NetRaw | Drv::Net | Drv::Socket | Drv::Sound | Drv::P9)
    }
    /// feature bits whose value changes what the driver does (written from the specification's
    /// feature tables: ring features 28/29, VERSION_1, ACCESS_PLATFORM, and the device-specific
    /// bits the property text names)
    pub fn relevant_bits(self) -> Vec<u32> {
        let mut v = vec![28, 29, 32, 33];
        match self {
            Drv::Blk => v.extend([5, 9]),          // RO, FLUSH
            Drv::Console => v.extend([0, 2]),      // SIZE, EMERG_WRITE
            Drv::Gpu => v.extend([1]),             // EDID
            Drv::NetRaw | Drv::Net => v.extend([5, 15, 16]), // MAC, MRG_RXBUF, STATUS
            _ => {}
        }
        v
    }
}

pub type H = LedgerHal;

pub enum Built<T: Transport, HH: virtio_drivers::Hal = LedgerHal> {
    Blk(VirtIOBlk<HH, T>),
    Console(VirtIOConsole<HH, T>),
    Gpu(VirtIOGpu<HH, T>),
    Input(VirtIOInput<HH, T>),
    NetRaw(VirtIONetRaw<HH, T, NET_QUEUE_SIZE>),
    Net(VirtIONet<HH, T, NET_QUEUE_SIZE>),
    Rng(VirtIORng<HH, T>),
    Rtc(VirtIORtc<HH, T>),
    Socket(VirtIOSocket<HH, T>),
    Sound(VirtIOSound<HH, T>),
    P9(VirtIO9p<HH, T>),
}

pub fn build_with<T: Transport, HH: virtio_drivers::Hal>(d: Drv, t: T, net_buf_len: usize) -> Result<Built<T, HH>, Error> {
    Ok(match d {
        Drv::Blk => Built::Blk(VirtIOBlk::new(t)?),
        Drv::Console => Built::Console(VirtIOConsole::new(t)?),
        Drv::Gpu => Built::Gpu(VirtIOGpu::new(t)?),
        Drv::Input => Built::Input(VirtIOInput::new(t)?),
        Drv::NetRaw => Built::NetRaw(VirtIONetRaw::new(t)?),
        Drv::Net => Built::Net(VirtIONet::new(t, net_buf_len)?),
        Drv::Rng => Built::Rng(VirtIORng::new(t)?),
        Drv::Rtc => Built::Rtc(VirtIORtc::new(t)?),
        Drv::Socket => Built::Socket(VirtIOSocket::new(t)?),
        Drv::Sound => Built::Sound(VirtIOSound::new(t)?),
        Drv::P9 => Built::P9(VirtIO9p::new(t)?),
    })
}

pub fn build<T: Transport>(d: Drv, t: T, net_buf_len: usize) -> Result<Built<T>, Error> {
    build_with::<T, LedgerHal>(d, t, net_buf_len)
}

// ------------------------------------------------------------------------------------------
// canonical, transport-independent event log

#[derive(Clone, Debug, PartialEq, Eq)]
pub enum Tok {
    Status(u32),
    ReadFeatures,
    WriteFeatures(u64),
    PageSize(u32),
    /// a maximal run of config-space accesses; false = (one of) the accesses failed
    Cfg(bool),
    QueueUsed(u16),
    MaxQueueSize(u16),
    RequiresLegacy,
    Alloc { k: usize, pages: usize, dir: BufferDirection, ap: bool, ok: bool },
    QueueSet { q: u16, size: u32, desc: u64, drv: u64, dev: u64 },
    Notify(u16),
    QueueUnset(u16),
    Dropped,
    Dealloc { k: Option<usize>, pages: usize, ap: bool },
    /// memory containing `n` buffers still shared with the device was freed
    FreePosted(usize),
    Other(String),
}

impl Tok {
    pub fn canon(&self) -> String {
        match self {
            Tok::Status(v) => format!("status({})", v),
            Tok::ReadFeatures => "read_features".into(),
            Tok::WriteFeatures(v) => format!("write_features({:#x})", v),
            Tok::PageSize(v) => format!("page_size({})", v),
            Tok::Cfg(ok) => if *ok { "cfg".into() } else { "cfg!".into() },
            Tok::QueueUsed(q) => format!("queue_used({})", q),
            Tok::MaxQueueSize(q) => format!("max_queue_size({})", q),
            Tok::RequiresLegacy => "requires_legacy_layout".into(),
            Tok::Alloc { k, pages, dir, ap, ok } => HalEv::Alloc { k: *k, pages: *pages, dir: *dir, ap: *ap, ok: *ok }.canon(),
            Tok::QueueSet { q, size, desc, drv, dev } => hal::with(|h| format!("queue_set({},{},{},{},{})", q, size, h.canon_addr(*desc), h.canon_addr(*drv), h.canon_addr(*dev))),
            Tok::Notify(q) => format!("notify({})", q),
            Tok::QueueUnset(q) => format!("queue_unset({})", q),
            Tok::Dropped => "dropped".into(),
            Tok::Dealloc { k, pages, ap } => HalEv::Dealloc { k: *k, pages: *pages, ap: *ap }.canon(),
            Tok::FreePosted(_) => "free_posted".into(),
            Tok::Other(s) => s.clone(),
        }
    }
}

pub fn toks_str(t: &[Tok]) -> String {
    if t.is_empty() { "-".into() } else { t.iter().map(|x| x.canon()).collect::<Vec<_>>().join(" ") }
}

fn tcall_tok(c: &TCall) -> Option<Tok> {
    Some(match c {
        TCall::ReadFeatures => Tok::ReadFeatures,
        TCall::WriteFeatures(v) => Tok::WriteFeatures(*v),
        TCall::MaxQueueSize(q) => Tok::MaxQueueSize(*q),
        TCall::Notify(q) => Tok::Notify(*q),
        // reading the status register is harmless and not ordered by the property (what must not
        // happen is that the driver's status WRITES depend on what it reads back: see the oracle on
        // status writes and the quirky read-back of the model transport)
        TCall::GetStatus => return None,
        TCall::SetStatus(v) => Tok::Status(*v),
        TCall::SetGuestPageSize(v) => Tok::PageSize(*v),
        TCall::RequiresLegacy => Tok::RequiresLegacy,
        TCall::QueueSet { queue, size, desc, driver, device } => Tok::QueueSet { q: *queue, size: *size, desc: *desc, drv: *driver, dev: *device },
        TCall::QueueUnset(q) => Tok::QueueUnset(*q),
        TCall::QueueUsed(q) => Tok::QueueUsed(*q),
        TCall::AckInterrupt => Tok::Other("ack_interrupt".into()),
        TCall::ReadGeneration => Tok::Cfg(true),
        TCall::ReadConfig { ok, .. } => Tok::Cfg(*ok),
        TCall::WriteConfig { ok, .. } => Tok::Cfg(*ok),
        TCall::Dropped => Tok::Dropped,
    })
}

fn hal_tok(e: &HalEv) -> Option<Tok> {
    match e {
        HalEv::Alloc { k, pages, dir, ap, ok } => Some(Tok::Alloc { k: *k, pages: *pages, dir: *dir, ap: *ap, ok: *ok }),
        HalEv::Dealloc { k, pages, ap } => Some(Tok::Dealloc { k: *k, pages: *pages, ap: *ap }),
        // share / unshare are C04's subject
        _ => None,
    }
}

/// merges, by logical clock, transport calls (from index `from`), HAL events and watched frees;
/// collapses runs of config accesses and of posted-buffer frees
pub fn merged(transport_evs: Vec<(u64, Tok)>) -> Vec<Tok> {
    let mut all: Vec<(u64, Tok)> = transport_evs;
    for (s, e) in hal::take_events() {
        if let Some(t) = hal_tok(&e) {
            all.push((s, t));
        }
    }
    for (s, n) in crate::c09_drop::take_frees() {
        all.push((s, Tok::FreePosted(n)));
    }
    all.sort_by_key(|(s, _)| *s);
    let mut out: Vec<Tok> = vec![];
    for (_, t) in all {
        match (&t, out.last_mut()) {
            (Tok::Cfg(ok), Some(Tok::Cfg(prev))) => *prev = *prev && *ok,
            (Tok::FreePosted(n), Some(Tok::FreePosted(m))) => *m += *n,
            // a posting loop notifies once per buffer: one token per run
            (Tok::Notify(q), Some(Tok::Notify(p))) if *q == *p => {}
            _ => out.push(t),
        }
    }
    out
}

pub fn model_log(st: &TState, from: usize) -> (Vec<(u64, Tok)>, usize) {
    (st.log[from..].iter().filter_map(|(s, c)| tcall_tok(c).map(|t| (*s, t))).collect(), st.log.len())
}

// ------------------------------------------------------------------------------------------
// oracles written from the specification (virtio 1.x §3.1.1 Driver Requirements: Device
// Initialization; §2.2 feature bits; §6 reserved feature bits) over the token list

/// §3.1.1 on a successful construction
pub fn oracle_handshake(c: &mut Case, toks: &[Tok], offered: u64, modern_only: bool) {
    let statuses: Vec<u32> = toks.iter().filter_map(|t| if let Tok::Status(v) = t { Some(*v) } else { None }).collect();
    // 1. reset, 2.+3. ACKNOWLEDGE and DRIVER, 5. FEATURES_OK, 8. DRIVER_OK; each step keeps the earlier bits
    if statuses.first() != Some(&0) {
        c.fail(format!("init: the first status write is {:?}, not a reset", statuses.first()));
    }
    let mut prev = 0u32;
    for (i, s) in statuses.iter().enumerate().skip(1) {
        if *s == 0 {
            c.fail("init: device reset again in the middle of initialisation");
        } else if *s & prev != prev {
            c.fail(format!("init: status write {} clears bits of the previous value {}", s, prev));
        }
        let _ = i;
        prev = *s;
    }
    let pos = |pred: &dyn Fn(&Tok) -> bool| toks.iter().position(|t| pred(t));
    let p_ack = pos(&|t| matches!(t, Tok::Status(v) if v & (ACK | DRIVER) == (ACK | DRIVER)));
    let p_fok = pos(&|t| matches!(t, Tok::Status(v) if v & FEATURES_OK != 0));
    let p_dok = pos(&|t| matches!(t, Tok::Status(v) if v & DRIVER_OK != 0));
    let p_rf = pos(&|t| matches!(t, Tok::ReadFeatures));
    let p_wf = pos(&|t| matches!(t, Tok::WriteFeatures(_)));
    match (p_ack, p_rf, p_wf, p_fok, p_dok) {
        (Some(a), Some(r), Some(w), Some(f), Some(d)) => {
            if !(a < r && r < w && w < f && f < d) {
                c.fail(format!("init: steps out of order: ACK|DRIVER@{} read_features@{} write_features@{} FEATURES_OK@{} DRIVER_OK@{}", a, r, w, f, d));
            }
            if let Tok::Status(v) = &toks[d] {
                if *v != (ACK | DRIVER | FEATURES_OK | DRIVER_OK) {
                    c.fail(format!("init: DRIVER_OK written as {}", v));
                }
            }
            // queues are configured before DRIVER_OK (§3.1.1 step 7), after FEATURES_OK
            for (i, t) in toks.iter().enumerate() {
                match t {
                    Tok::QueueSet { q, .. } if i > d => c.fail(format!("init: queue {} configured after DRIVER_OK", q)),
                    Tok::QueueSet { q, .. } if i < f => c.fail(format!("init: queue {} configured before FEATURES_OK", q)),
                    // §3.1.1: "The driver MUST NOT send any buffer available notifications to the device before setting DRIVER_OK"
                    Tok::Notify(q) if i < d => c.fail(format!("init: notify({}) before DRIVER_OK", q)),
                    Tok::WriteFeatures(_) if i != w => c.fail("init: driver features written twice"),
                    _ => {}
                }
            }
            if !toks.iter().any(|t| matches!(t, Tok::QueueSet { .. })) {
                c.fail("init: no queue configured");
            }
        }
        _ => c.fail(format!("init: missing step: ACK|DRIVER {:?} read {:?} write {:?} FEATURES_OK {:?} DRIVER_OK {:?}", p_ack, p_rf, p_wf, p_fok, p_dok)),
    }
    // §2.2: the driver accepts a subset of the offered features; §6.1: VERSION_1 must be accepted if offered
    for t in toks {
        if let Tok::WriteFeatures(w) = t {
            if w & !offered != 0 {
                c.fail(format!("init: driver accepted features {:#x} that were not offered", w & !offered));
            }
            if offered & F_VERSION_1 != 0 && w & F_VERSION_1 == 0 && modern_only {
                c.fail("init: VERSION_1 offered but not accepted");
            }
        }
    }
}

/// Device-specific and ring/transport feature bits each driver *implements* (read off the drivers: what
/// their code acts on).  Accepting an offered feature obliges the driver to behave as that feature
/// prescribes, so a driver may accept nothing outside this set (§2.2, §3.1.1 step 4).
pub fn implemented_features(d: Drv) -> u64 {
    // RING_INDIRECT_DESC (28), RING_EVENT_IDX (29), VERSION_1 (32), ACCESS_PLATFORM (33)
    let common: u64 = (1 << 28) | (1 << 29) | (1 << 32) | (1 << 33);
    common
        | match d {
            Drv::Blk => (1 << 5) | (1 << 9),      // RO, FLUSH
            Drv::Console => (1 << 0) | (1 << 2),  // SIZE, EMERG_WRITE
            Drv::Gpu => 1 << 1,                   // EDID
            Drv::NetRaw | Drv::Net => (1 << 5) | (1 << 16), // MAC, STATUS
            Drv::Input | Drv::Rng | Drv::Rtc | Drv::Socket | Drv::Sound | Drv::P9 => 0,
        }
}

pub fn oracle_features(c: &mut Case, d: Drv, toks: &[Tok]) {
    for t in toks {
        if let Tok::WriteFeatures(w) = t {
            let extra = w & !implemented_features(d);
            if extra != 0 {
                c.fail(format!("init: the {} driver accepted feature bits {:#x}, which it does not implement (it must not acknowledge what it will not honour)", d.name(), extra));
            }
        }
    }
}

/// a construction that failed must not leave DRIVER_OK set with nothing else happening, and must
/// not notify; (teardown ordering is C09's oracle)
pub fn oracle_no_early_notify(c: &mut Case, toks: &[Tok]) {
    let d = toks.iter().position(|t| matches!(t, Tok::Status(v) if v & DRIVER_OK != 0)).unwrap_or(toks.len());
    for (i, t) in toks.iter().enumerate() {
        if let Tok::Notify(q) = t {
            if i < d {
                c.fail(format!("init: notify({}) before DRIVER_OK", q));
            }
        }
    }
}

pub fn negotiated_of(toks: &[Tok]) -> u64 {
    toks.iter().find_map(|t| if let Tok::WriteFeatures(w) = t { Some(*w) } else { None }).unwrap_or(0)
}

/// optional mechanisms only if negotiated: access_platform flag of every DMA allocation
pub fn oracle_flags(c: &mut Case, toks: &[Tok]) {
    let neg = negotiated_of(toks);
    for t in toks {
        if let Tok::Alloc { ap, .. } = t {
            if *ap != (neg & F_ACCESS_PLATFORM != 0) {
                c.fail(format!("queue memory allocated with access_platform={} but ACCESS_PLATFORM negotiated={}", ap, neg & F_ACCESS_PLATFORM != 0));
            }
        }
    }
}

// ------------------------------------------------------------------------------------------
// a minimal device behind the model transport: answers every chain at once (on notify), records
// what it saw

#[derive(Default)]
pub struct DevLog {
    pub queues: BTreeMap<u16, RefQueue>,
    pub chains: usize,
    pub indirect_chains: usize,
    pub errors: Vec<String>,
    /// number of device-readable bytes of each chain, in fetch order
    pub read_lens: Vec<usize>,
    /// device wrote NO_NOTIFY / avail_event so that a driver honouring the negotiated mechanism would (not) notify
    pub response_word: u32,
}

pub fn install_device(st: &Rc<RefCell<TState>>, response_word: u32) -> Rc<RefCell<DevLog>> {
    let log = Rc::new(RefCell::new(DevLog { response_word, ..Default::default() }));
    let l2 = log.clone();
    let st2 = st.clone();
    st.borrow_mut().on_notify = Some(Box::new(move |q: u16| {
        let (reg, neg, status) = {
            let s = st2.borrow();
            (s.queues.get(q as usize).copied().unwrap_or_default(), s.driver_features, s.status)
        };
        let mut l = l2.borrow_mut();
        if status & DRIVER_OK == 0 {
            l.errors.push(format!("device notified on queue {} before DRIVER_OK", q));
            return;
        }
        if !reg.set {
            l.errors.push(format!("device notified on unconfigured queue {}", q));
            return;
        }
        let word = l.response_word;
        let rq = l.queues.entry(q).or_insert_with(|| RefQueue::new(reg.size as u16, reg.desc, reg.driver, reg.device, neg & F_INDIRECT != 0));
        let mut done = vec![];
        loop {
            match rq.fetch_one() {
                Ok(Some(ch)) => done.push(ch),
                Ok(None) => break,
                Err(e) => {
                    l.errors.push(format!("queue {}: {}", q, e));
                    break;
                }
            }
        }
        let l = &mut *l;
        for ch in done {
            l.chains += 1;
            if ch.indirect {
                l.indirect_chains += 1;
            }
            let rl = l.queues.get(&q).and_then(|rq| rq.read_in(&ch).ok()).map(|b| b.len()).unwrap_or(usize::MAX);
            l.read_lens.push(rl);
            let rq = l.queues.get_mut(&q).unwrap();
            let wl = rq.writable_len(&ch);
            // response: little-endian word first (GPU response type / status byte 0 for blk), zeros after
            let mut data = vec![0u8; wl.min(64)];
            for (i, b) in word.to_le_bytes().iter().enumerate() {
                if i < data.len() {
                    data[i] = *b;
                }
            }
            if let Err(e) = rq.write_out(&ch, &data) {
                l.errors.push(format!("queue {}: {}", q, e));
            }
            if let Err(e) = rq.complete(ch.head, wl as u32) {
                l.errors.push(format!("queue {}: {}", q, e));
            }
        }
    }));
    log
}

thread_local! {
    static SPINS: std::cell::Cell<u64> = const { std::cell::Cell::new(0) };
}
fn spin_guard() {
    SPINS.with(|s| {
        s.set(s.get() + 1);
        if s.get() > 200_000 {
            s.set(0);
            panic!("driver busy-waits for a device that was never notified");
        }
    });
}
pub fn arm_spin_guard() {
    SPINS.with(|s| s.set(0));
    virtio_drivers::verif_hooks::set_spin_hook(Some(spin_guard));
}

// ------------------------------------------------------------------------------------------
// Generated/Features.lean: exact black-box observation

pub struct Observed {
    pub supported: u64,
    pub queues: Vec<(u16, u32)>,
}

pub fn observe(d: Drv) -> Observed {
    hal::reset();
    crate::mmio::reset();
    let mut ts = TState::new(d.device_type(), u64::MAX, 8, 65536);
    ts.config = d.config_ok();
    let (t, st) = ModelTransport::new(ts);
    let r = guarded(|| build(d, t, NET_BUF_LEN).map(drop));
    let s = st.borrow();
    let supported = s.log.iter().find_map(|(_, c)| if let TCall::WriteFeatures(w) = c { Some(*w) } else { None }).unwrap_or(0);
    let queues = s.log.iter().filter_map(|(_, c)| if let TCall::QueueSet { queue, size, .. } = c { Some((*queue, *size)) } else { None }).collect();
    if !matches!(r, Ok(Ok(()))) {
        // a driver that cannot be constructed with every feature offered: leave an entry that
        // fails the theorems (supported = 0 has no VERSION_1)
        return Observed { supported: 0, queues: vec![] };
    }
    Observed { supported, queues }
}

pub fn features_lean() -> String {
    let mut o = String::new();
    o.push_str("/-! GENERATED by `vh features` from /repo's current tree (black-box: all 64 feature bits offered on the\nmodel transport; `supported` = value written to the driver-features register; queues as registered) — do not edit. -/\nnamespace VirtioVerif.Generated.Features\n\nstructure Info where\n  name : String\n  supported : Nat\n  queues : List (Nat × Nat)\nderiving DecidableEq, Repr\n\n");
    for d in Drv::ALL {
        let ob = observe(d);
        let qs: Vec<String> = ob.queues.iter().map(|(q, n)| format!("({}, {})", q, n)).collect();
        o.push_str(&format!("def {} : Info := ⟨\"{}\", {:#x}, [{}]⟩\n", d.name(), d.name(), ob.supported, qs.join(", ")));
    }
    o.push_str(&format!("\ndef all : List Info := [{}]\n\nend VirtioVerif.Generated.Features\n", Drv::ALL.iter().map(|d| d.name()).collect::<Vec<_>>().join(", ")));
    hal::reset();
    o
}

// ------------------------------------------------------------------------------------------
// one case on the model transport

pub struct NewCfg {
    pub d: Drv,
    pub offered: u64,
    pub legacy: bool,
    pub fail: usize,
    /// "ok" | "missing" | "short" | "zerotag"
    pub cfg: &'static str,
    pub max: u32,
    pub postfail: bool,
}

impl NewCfg {
    pub fn op(&self, verb: &str) -> String {
        format!(
            "init {} drv={} offered={:#x} legacy={} fail={} cfg={} max={} postfail={}",
            verb, self.d.index(), self.offered, self.legacy as u8, self.fail, self.cfg, self.max, self.postfail as u8
        )
    }
    pub fn tstate(&self) -> TState {
        let ts = self.tstate_full();
        let mut ts = ts;
        if let Some(k) = CFG_TRUNC.with(|c| c.get()) {
            // configuration space cut off after `k` bytes (oracle-only cases: the constructor fails at
            // whichever field no longer fits, wherever in its sequence it reads that field)
            ts.config.truncate(k);
        }
        ts
    }
    fn tstate_full(&self) -> TState {
        let mut ts = TState::new(self.d.device_type(), self.offered, 8, self.max);
        ts.legacy = self.legacy;
        // the status register does not read back what the driver wrote: the device has cleared
        // FEATURES_OK or raised DEVICE_NEEDS_RESET.  The driver's own status writes must not depend on it.
        if self.offered & 1 == 0 {
            ts.status_and = !8;
        } else {
            ts.status_or = 0x40;
        }
        ts.config = match self.cfg {
            "ok" => self.d.config_ok(),
            "missing" => vec![],
            "short" => vec![0u8; 1],
            "zerotag" => vec![0u8; 64],
            _ => unreachable!(),
        };
        ts
    }
}

thread_local! {
    /// see `NewCfg::tstate`
    pub static CFG_TRUNC: std::cell::Cell<Option<usize>> = const { std::cell::Cell::new(None) };
}

pub fn err_name(e: &Error) -> String {
    format!("{:?}", e)
}

/// constructs on the model transport; returns the driver (if any), the token list and the shared state
pub fn construct_model(cfg: &NewCfg) -> (Result<Result<Built<ModelTransport>, Error>, String>, Vec<Tok>, Rc<RefCell<TState>>, usize) {
    hal::reset();
    crate::mmio::reset();
    hal::with(|h| h.fail_alloc_at = cfg.fail);
    let (t, st) = ModelTransport::new(cfg.tstate());
    crate::c09_drop::watch(true);
    let r = guarded(|| build(cfg.d, t, if cfg.postfail { 64 } else { NET_BUF_LEN }));
    crate::c09_drop::watch(false);
    hal::with(|h| h.fail_alloc_at = 0);
    let (tl, mark) = model_log(&st.borrow(), 0);
    let toks = merged(tl);
    (r, toks, st, mark)
}

fn result_str(r: &Result<Result<Built<ModelTransport>, Error>, String>) -> String {
    match r {
        Ok(Ok(_)) => "ok".into(),
        Ok(Err(e)) => format!("err {}", err_name(e)),
        Err(_) => "err panic".into(),
    }
}

fn gated_ops(c: &mut Case, cfg: &NewCfg, b: &mut Built<ModelTransport>, st: &Rc<RefCell<TState>>, mark: &mut usize) {
    arm_spin_guard();
    let mut run = |c: &mut Case, name: &str, f: &mut dyn FnMut() -> String| {
        let r = guarded(|| f());
        let (tl, m) = model_log(&st.borrow(), *mark);
        *mark = m;
        let toks = merged(tl);
        let res = match r {
            Ok(s) => s,
            Err(p) => {
                c.fail(format!("{} panicked: {}", name, p));
                "panic".into()
            }
        };
        c.step(format!("init gated op={} offered={:#x}", name, cfg.offered), format!("{} => {}", toks_str(&toks), res));
        toks
    };
    match b {
        Built::Blk(drv) => {
            let dev = install_device(st, 0);
            let t = run(c, "blk_flush", &mut || match drv.flush() {
                Ok(()) => "ok".into(),
                Err(e) => format!("err {}", err_name(&e)),
            });
            let neg = st.borrow().driver_features;
            // oracle: a FLUSH request reaches the device only if FLUSH (bit 9) was negotiated
            let l = dev.borrow();
            if neg & (1 << 9) == 0 && (l.chains != 0 || !t.is_empty()) {
                c.fail("blk: flush request sent although FLUSH was not negotiated");
            }
            if neg & (1 << 9) != 0 && l.chains != 1 {
                c.fail(format!("blk: FLUSH negotiated but the device saw {} requests", l.chains));
            }
            if l.indirect_chains != 0 && neg & F_INDIRECT == 0 {
                c.fail("blk: indirect descriptor used although RING_INDIRECT_DESC was not negotiated");
            }
            if neg & F_INDIRECT != 0 && l.chains == 1 && l.indirect_chains != 1 {
                c.fail("blk: RING_INDIRECT_DESC negotiated but a two-descriptor request was sent directly");
            }
            for e in &l.errors {
                c.fail(format!("blk device: {}", e));
            }
        }
        Built::Console(drv) => {
            let t1 = run(c, "console_size", &mut || match drv.size() {
                Ok(Some(_)) => "ok".into(),
                Ok(None) => "none".into(),
                Err(e) => format!("err {}", err_name(&e)),
            });
            let t2 = run(c, "console_emerg", &mut || match drv.emergency_write(b'x') {
                Ok(()) => "ok".into(),
                Err(e) => format!("err {}", err_name(&e)),
            });
            let neg = st.borrow().driver_features;
            if neg & 1 == 0 && !t1.is_empty() {
                c.fail("console: size fields read although SIZE was not negotiated");
            }
            if neg & 4 == 0 && !t2.is_empty() {
                c.fail("console: emergency write although EMERG_WRITE was not negotiated");
            }
        }
        Built::Gpu(drv) => {
            let dev = install_device(st, 0x1104);
            let t = run(c, "gpu_edid", &mut || match drv.get_edid(0) {
                Ok(_) => "ok".into(),
                Err(e) => format!("err {}", err_name(&e)),
            });
            let neg = st.borrow().driver_features;
            if neg & 2 == 0 {
                // the helpers built on get_edid are gated just the same (oracle only: without the feature
                // nothing reaches the transport, so nothing is recorded either)
                let before = dev.borrow().chains;
                let log_before = st.borrow().log.len();
                let r = guarded(|| (drv.edid_preferred_resolution().is_ok(), drv.edid_supported_resolutions().is_ok()));
                if dev.borrow().chains != before || st.borrow().log.len() != log_before {
                    c.fail(format!("gpu: an EDID helper (edid_preferred_resolution / edid_supported_resolutions) put a request on the control queue although EDID was not negotiated (results {:?})", r));
                }
                let (_, m) = model_log(&st.borrow(), *mark);
                *mark = m;
            }
            let l = dev.borrow();
            if neg & 2 == 0 && (l.chains != 0 || !t.is_empty()) {
                c.fail("gpu: GET_EDID sent although EDID was not negotiated");
            }
            if l.indirect_chains != 0 && neg & F_INDIRECT == 0 {
                c.fail("gpu: indirect descriptor used although RING_INDIRECT_DESC was not negotiated");
            }
            for e in &l.errors {
                c.fail(format!("gpu device: {}", e));
            }
        }
        Built::NetRaw(drv) => {
            let mut buf = [0u8; 64];
            let n = drv.fill_buffer_header(&mut buf).unwrap_or(0);
            c.step(format!("init hdr offered={:#x}", cfg.offered), n.to_string());
            let neg = st.borrow().driver_features;
            // property text: 12-byte modern header exactly when VERSION_1 was negotiated
            if (n == 12) != (neg & F_VERSION_1 != 0) || (n != 12 && n != 10) {
                c.fail(format!("net: header length {} with VERSION_1 negotiated = {}", n, neg & F_VERSION_1 != 0));
            }
            // ... and that is the header every transmitted frame carries, an empty frame included
            let want = if neg & F_VERSION_1 != 0 { 12 } else { 10 };
            let dev = install_device(st, 0);
            for payload in [0usize, 3, 64] {
                let data = vec![0x5au8; payload];
                let r = guarded(|| drv.send(&data).is_ok());
                let got = dev.borrow().read_lens.last().copied();
                if !matches!(r, Ok(true)) || got != Some(want + payload) {
                    c.fail(format!("net: send of a {}-byte frame put {:?} device-readable bytes on the transmit queue, expected header {} + payload (VERSION_1 negotiated = {})", payload, got, want, neg & F_VERSION_1 != 0));
                }
            }
            for e in &dev.borrow().errors {
                c.fail(format!("net device: {}", e));
            }
            let (tl, m) = model_log(&st.borrow(), *mark);
            *mark = m;
            let _ = merged(tl);
        }
        Built::Rng(drv) => {
            // single-descriptor request: never indirect; the device checks the INDIRECT flag
            let dev = install_device(st, 0);
            let mut buf = [0u8; 16];
            let r = guarded(|| drv.request_entropy(&mut buf).is_ok());
            let (tl, m) = model_log(&st.borrow(), *mark);
            *mark = m;
            let _ = merged(tl);
            if !matches!(r, Ok(true)) {
                c.fail("rng: request_entropy failed against an obliging device");
            }
            for e in &dev.borrow().errors {
                c.fail(format!("rng device: {}", e));
            }
        }
        Built::P9(drv) => {
            let dev = install_device(st, 11);
            let mut resp = [0u8; 16];
            let r = guarded(|| drv.request(&[1, 2, 3, 4], &mut resp).is_ok());
            let (tl, m) = model_log(&st.borrow(), *mark);
            *mark = m;
            let _ = merged(tl);
            let neg = st.borrow().driver_features;
            let l = dev.borrow();
            if r.is_err() {
                c.fail("9p: request panicked");
            }
            if l.indirect_chains != 0 && neg & F_INDIRECT == 0 {
                c.fail("9p: indirect descriptor used although RING_INDIRECT_DESC was not negotiated");
            }
            if neg & F_INDIRECT != 0 && l.chains == 1 && l.indirect_chains != 1 {
                c.fail("9p: RING_INDIRECT_DESC negotiated but a two-descriptor request was sent directly");
            }
            for e in &l.errors {
                c.fail(format!("9p device: {}", e));
            }
        }
        Built::Socket(drv) => {
            // a send with a body is a two-buffer chain on the TX queue: it may use an indirect table
            // only if RING_INDIRECT_DESC was negotiated, and (without RING_EVENT_IDX) the driver must
            // honour VIRTQ_USED_F_NO_NOTIFY
            use virtio_drivers::device::socket::{ConnectionInfo, VsockAddr};
            let dev = install_device(st, 0);
            let peer = VsockAddr { cid: 2, port: 7 };
            let mut info = ConnectionInfo::new(peer, 5000);
            // the peer grants credit through a CREDIT_UPDATE packet delivered on the RX queue
            {
                let (reg, neg0) = {
                    let s = st.borrow();
                    (s.queues.first().copied().unwrap_or_default(), s.driver_features)
                };
                let mut rx = RefQueue::new(reg.size as u16, reg.desc, reg.driver, reg.device, neg0 & F_INDIRECT != 0);
                let hdr = crate::vsock_world::Hdr { src_cid: 2, dst_cid: drv.guest_cid(), src_port: 7, dst_port: 5000, len: 0, typ: 1, op: 6, flags: 0, buf_alloc: 4096, fwd_cnt: 0 };
                match rx.fetch_one() {
                    Ok(Some(ch)) => {
                        let _ = rx.write_out(&ch, &hdr.encode());
                        let _ = rx.complete(ch.head, 44);
                    }
                    other => c.fail(format!("socket: no receive buffer posted after construction: {:?}", other.err())),
                }
                // hand the RX queue's device state to the listener, so that its fetch pointer continues
                dev.borrow_mut().queues.insert(0, rx);
                let r = guarded(|| {
                    drv.poll(|ev, _body| {
                        info.update_for_event(&ev);
                        Ok(None)
                    })
                });
                if !matches!(r, Ok(Ok(_))) {
                    c.fail("socket: poll of a CREDIT_UPDATE packet failed");
                }
            }
            let r = guarded(|| drv.send(&[1, 2, 3, 4, 5], &mut info).is_ok());
            let neg = st.borrow().driver_features;
            {
                let l = dev.borrow();
                if r.is_err() {
                    c.fail("socket: send panicked");
                }
                if l.indirect_chains != 0 && neg & F_INDIRECT == 0 {
                    c.fail("socket: indirect descriptor used on the TX queue although RING_INDIRECT_DESC was not negotiated");
                }
                if neg & F_INDIRECT != 0 && l.chains >= 1 && l.indirect_chains == 0 {
                    c.fail("socket: RING_INDIRECT_DESC negotiated but a two-buffer packet was sent with direct descriptors");
                }
                for e in &l.errors {
                    c.fail(format!("socket device: {}", e));
                }
            }
            // suppression: the device sets NO_NOTIFY on the TX queue's used ring
            if neg & (1 << 29) == 0 {
                let reg = st.borrow().queues.get(1).copied().unwrap_or_default();
                if reg.set {
                    let _ = hal::dev_write(reg.device, &1u16.to_le_bytes());
                    let before = st.borrow().log.iter().filter(|(_, x)| matches!(x, TCall::Notify(1))).count();
                    let _ = guarded(|| drv.send(&[9, 9], &mut info).is_ok());
                    let after = st.borrow().log.iter().filter(|(_, x)| matches!(x, TCall::Notify(1))).count();
                    if after != before {
                        c.fail("socket: TX queue notified although the device set VIRTQ_USED_F_NO_NOTIFY and RING_EVENT_IDX was not negotiated");
                    }
                    let _ = hal::dev_write(reg.device, &0u16.to_le_bytes());
                }
            }
            let (tl, m) = model_log(&st.borrow(), *mark);
            *mark = m;
            let _ = merged(tl);
        }
        _ => {}
    }
    st.borrow_mut().on_notify = None;
}

pub fn one_model_case(cfg: NewCfg, id: String, with_gated: bool) -> Case {
    let mut c = Case::new(id);
    let (mut r, toks, st, mut mark) = construct_model(&cfg);
    c.step(cfg.op("new"), format!("{} => {}", toks_str(&toks), result_str(&r)));
    c.tag(cfg.d.name());
    c.tag(if cfg.legacy { "legacy-layout" } else { "modern-layout" });
    oracle_no_early_notify(&mut c, &toks);
    match &mut r {
        Err(p) => c.fail(format!("{}::new panicked: {}", cfg.d.name(), p)),
        Ok(Err(_)) => c.tag("construction-refused"),
        Ok(Ok(b)) => {
            c.nontrivial = true;
            oracle_handshake(&mut c, &toks, cfg.offered, true);
            oracle_features(&mut c, cfg.d, &toks);
            oracle_flags(&mut c, &toks);
            let neg = negotiated_of(&toks);
            c.tag(format!("negotiated-ring-bits={}", (neg >> 28) & 3));
            if with_gated {
                gated_ops(&mut c, &cfg, b, &st, &mut mark);
            }
        }
    }
    // drop (ordering is C09's subject; here it only must not panic)
    crate::c09_drop::watch(true);
    let dr = guarded(|| drop(r));
    crate::c09_drop::watch(false);
    if let Err(p) = dr {
        c.fail(format!("drop panicked: {}", p));
    }
    let _ = merged(model_log(&st.borrow(), mark).0);
    for v in hal::with(|h| std::mem::take(&mut h.violations)) {
        c.fail(format!("ledger: {}", v));
    }
    c
}

fn feature_words(d: Drv, rng: &mut Rng, n_random: usize) -> Vec<u64> {
    let bits = d.relevant_bits();
    let mut v = vec![];
    // all 2^m combinations of the relevant bits, on an all-zero and on an all-ones background
    for m in 0..(1u64 << bits.len()) {
        let mut w = 0u64;
        for (i, b) in bits.iter().enumerate() {
            if m & (1 << i) != 0 {
                w |= 1 << b;
            }
        }
        v.push(w);
        let mask: u64 = bits.iter().fold(0, |a, b| a | (1 << b));
        v.push(w | !mask);
    }
    v.extend([0, u64::MAX, 1 << 63, F_VERSION_1, !F_VERSION_1, 0xffff_ffff, 0xffff_ffff_0000_0000]);
    for _ in 0..n_random {
        v.push(rng.u64_biased());
        v.push(rng.next());
    }
    v
}

pub fn run(ctx: &Ctx) -> (Vec<Case>, String, bool, BTreeMap<String, String>) {
    let mut grid: Vec<NewCfg> = vec![];
    let mut rng = ctx.case_rng("features", 0);
    for d in Drv::ALL {
        for w in feature_words(d, &mut rng, ctx.tier.pick(8, 200)) {
            for legacy in [false, true] {
                grid.push(NewCfg { d, offered: w, legacy, fail: 0, cfg: "ok", max: 65536, postfail: false });
            }
        }
    }
    let mut cases = crate::runner::par_cases(ctx, "C08", "model", grid.len(), |i, id| {
        let g = &grid[i];
        one_model_case(NewCfg { d: g.d, offered: g.offered, legacy: g.legacy, fail: 0, cfg: "ok", max: g.max, postfail: false }, id, true)
    });
    let (mm, mmio_rule) = crate::c08_mmio::run_mmio(ctx);
    cases.extend(mm);
    // queue level: a queue created without RING_INDIRECT_DESC never publishes an indirect table, however
    // full it is (the structured queue stream of C03 with that one oracle)
    cases.extend(crate::cq_queue::run_structured(ctx, "C08", 400, 4000));
    // the net header length follows VERSION_1 in every accessor of a received buffer (C16's stream: frames
    // through the buffered driver with and without VERSION_1; packet() and packet_mut() are the same frame)
    let mut n16 = crate::c16_net::run(ctx).0;
    for c in n16.iter_mut() {
        c.oracle_failures.retain(|f| f.contains("packet_mut") || f.contains("-byte header"));
        c.id = format!("C08-via-{}", c.id);
        c.tag("net-header");
    }
    cases.extend(n16);
    let selftest = crate::c09_drop::oracle_selftest(ctx.case_id("C08", "oracle-selftest", 0));
    if ctx.wants(&selftest.id) {
        cases.push(selftest);
    }
    let rule = format!(
        "model transport: 11 drivers x (all 2^m combinations of the driver's relevant feature bits on an all-zero and an all-ones background, boundary words, random 64-bit words) x (modern, legacy queue layout); each case = construct, compare the ordered transport/HAL event list with the model, run the feature-gated operations (blk flush, console size / emergency write, gpu EDID, net header length; rng / 9p requests for the INDIRECT flag) against a reference device, drop; non-trivial = construction succeeded. {} Plus the structured bare-queue stream: no indirect table on a queue created without the feature.",
        mmio_rule
    );
    let mut extra = BTreeMap::new();
    extra.insert("x_excluded".into(), crate::proto::json_str("transport/x86_64 (hypercall transport) cannot execute in user space: not run; PciTransport is exercised by C11/C09-style register-level runs only as far as stated in the rule"));
    (cases, rule, false, extra)
}
