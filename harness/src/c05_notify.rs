//! C05: no lost wake-ups. (i) `should_notify` truth table against the model over all
//! (avail_idx, avail_event) pairs (per-row digests) and all flag words; (ii) structured queue
//! histories with the specification's `vring_need_event` oracle over tracked batches; (iii)
//! co-simulation of `add_notify_wait_pop` under device servicing policies via the spin hook.

use crate::cq_queue::{self, Live, STORE};
use crate::hal;
use crate::proto::Case;
use crate::refdev::RefQueue;
use crate::rng::Rng;
use crate::runner::{Ctx, Tier, guarded};
use std::cell::RefCell;
use std::collections::BTreeMap;

fn row_digest(f: impl Fn(u16) -> bool) -> u64 {
    let mut h: u64 = 0;
    for e in 0..=65535u16 {
        h = h.wrapping_mul(6364136223846793005).wrapping_add(if f(e) { e as u64 + 1 } else { 0 });
    }
    h
}

/// one case = a set of ascending `avail_idx` rows walked on one real event-idx queue
fn table_case(id: String, rows: Vec<u16>) -> Case {
    let mut c = Case::new(id);
    let mut l = match Live::<4>::new(false, true, false) {
        Ok(l) => l,
        Err(e) => {
            c.fail(format!("cannot create queue: {}", e));
            return c;
        }
    };
    c.step("queue new n=4 ind=0 ev=1 ap=0", format!("ok | - | {}", l.priv_str()));
    let ev_addr = l.dev.used + 4 + 8 * 4;
    let evp = hal::translate(ev_addr, 2).expect("avail_event") as *mut u16;
    let mut cur: u32 = 0;
    for a in rows {
        let k = (a as u32).wrapping_sub(cur) as usize;
        if k > 0 {
            cq_queue::soak(&mut l, &mut c, k);
            cur = a as u32;
        }
        if l.q.verif_state().2 != a {
            c.fail(format!("[C05] could not walk the real queue to avail_idx {}", a));
            break;
        }
        let q = &l.q;
        let d = row_digest(|e| {
            // SAFETY: points into the live device area of this queue.
            unsafe { std::ptr::write_volatile(evp, e) };
            q.should_notify()
        });
        // independent oracle on this row: batch size 1 must be exactly the spec predicate for
        // old = a-1, and every need_event(e, a, old) for batches up to the queue size implies notify
        for e in [a.wrapping_sub(1), a, a.wrapping_sub(2), a.wrapping_sub(4), a.wrapping_add(1), 0, 65535, 32768] {
            unsafe { std::ptr::write_volatile(evp, e) };
            let got = l.q.should_notify();
            for batch in 1..=4u16 {
                let old = a.wrapping_sub(batch);
                let need = a.wrapping_sub(e).wrapping_sub(1) < a.wrapping_sub(old);
                if need && !got {
                    c.fail(format!("[C05] lost wake-up: avail_idx {} event {} old {} (batch {}): need_event holds, should_notify() = false", a, e, old, batch));
                }
            }
        }
        unsafe { std::ptr::write_volatile(evp, 0) };
        c.step(format!("queue availevent v=0"), format!("ok | - | {}", l.priv_str()));
        c.step(format!("queue table a={}", a), format!("digest={}", d));
    }
    c.nontrivial = true;
    c.tag("table");
    STORE.with(|s| *s.borrow_mut() = None);
    c
}

fn flags_case(id: String) -> Case {
    let mut c = Case::new(id);
    let l = match Live::<4>::new(false, false, false) {
        Ok(l) => l,
        Err(e) => {
            c.fail(format!("cannot create queue: {}", e));
            return c;
        }
    };
    c.step("queue new n=4 ind=0 ev=0 ap=0", format!("ok | - | {}", l.priv_str()));
    let fp = hal::translate(l.dev.used, 2).expect("used flags") as *mut u16;
    let q = &l.q;
    let d = row_digest(|f| {
        unsafe { std::ptr::write_volatile(fp, f) };
        let got = q.should_notify();
        got
    });
    for f in 0..=65535u16 {
        unsafe { std::ptr::write_volatile(fp, f) };
        if q.should_notify() != (f & 1 == 0) {
            c.fail(format!("[C05] used.flags = {:#x} but should_notify() = {}", f, q.should_notify()));
            break;
        }
    }
    unsafe { std::ptr::write_volatile(fp, 0) };
    c.step("queue usedflags v=0", format!("ok | - | {}", l.priv_str()));
    c.step("queue tableflags", format!("digest={}", d));
    c.nontrivial = true;
    c.tag("tableflags");
    STORE.with(|s| *s.borrow_mut() = None);
    c
}

// ---- blocking helper co-simulation -------------------------------------------------------------

#[derive(Clone, Copy, Debug, PartialEq, Eq)]
enum Policy {
    /// sleeps until notified (it asked for notifications: flag clear / avail_event = its fetch index)
    ServeOnNotify,
    /// suppressed notifications (flag set / event index far away) and polls
    Poll,
    /// asked for notifications but is slow: serves `late` spins after being told
    ServeLate(u32),
}

struct BlockCtx {
    dev: RefQueue,
    policy: Policy,
    notified: bool,
    spins: u32,
    served: bool,
    len: u32,
    failures: Vec<String>,
    /// the device reports this (earlier) chain instead of the one the blocking call submitted
    foreign: Option<u16>,
}

thread_local! {
    static BLOCK: RefCell<Option<BlockCtx>> = const { RefCell::new(None) };
}

fn serve(b: &mut BlockCtx) {
    if let Some(f) = b.foreign {
        if let Err(e) = b.dev.fetch_all() {
            b.failures.push(format!("[C01] device fetch failed: {}", e));
        }
        if let Some(ch) = b.dev.inflight.iter().find(|c| c.head == f).cloned() {
            let wl = b.dev.writable_len(&ch);
            let len = if wl == 0 { 0 } else { b.len % (wl as u32 + 1) };
            b.len = len;
            let _ = b.dev.write_out(&ch, &vec![0x5A; len as usize]);
            if let Err(e) = b.dev.complete(ch.head, len) {
                b.failures.push(e);
            }
        }
        b.served = true;
        return;
    }
    match b.dev.fetch_all() {
        Ok(chs) => {
            for ch in chs {
                let wl = b.dev.writable_len(&ch);
                let len = if wl == 0 { 0 } else { b.len % (wl as u32 + 1) };
                b.len = len;
                let _ = b.dev.write_out(&ch, &vec![0x5A; len as usize]);
                if let Err(e) = b.dev.complete(ch.head, len) {
                    b.failures.push(e);
                }
                b.served = true;
            }
        }
        Err(e) => b.failures.push(format!("[C01] device fetch failed: {}", e)),
    }
}

fn on_spin() {
    BLOCK.with(|b| {
        if let Some(b) = b.borrow_mut().as_mut() {
            b.spins += 1;
            if b.spins > 100000 {
                b.failures.push("[C05] blocking helper still spinning 100000 iterations after the device served the request".into());
                panic!("runaway spin");
            }
            if b.served {
                return;
            }
            match b.policy {
                Policy::Poll => serve(b),
                Policy::ServeOnNotify => {
                    if !b.notified {
                        b.failures.push("[C05] lost wake-up: add_notify_wait_pop is waiting on a device that asked to be notified and was not told".into());
                    }
                    serve(b); // unblock the call either way
                }
                Policy::ServeLate(k) => {
                    if !b.notified {
                        b.failures.push("[C05] lost wake-up: add_notify_wait_pop is waiting on a (slow) device that asked to be notified and was not told".into());
                        serve(b);
                    } else if b.spins >= k {
                        serve(b);
                    }
                }
            }
        }
    });
}

fn blocking_case<const N: usize>(id: String, mut rng: Rng, event_idx: bool, indirect: bool) -> Case {
    let mut c = Case::new(id);
    let mut l = match Live::<N>::new(indirect, event_idx, false) {
        Ok(l) => l,
        Err(e) => {
            c.fail(format!("cannot create queue: {}", e));
            return c;
        }
    };
    c.step(format!("queue new n={} ind={} ev={} ap=0", N, indirect as u8, event_idx as u8), format!("ok | - | {}", l.priv_str()));
    if rng.chance(1, 3) {
        let k = *rng.pick(&[65533usize, 65535, 32766, 7]);
        cq_queue::soak(&mut l, &mut c, k);
    }
    let st = l.t.st.clone();
    st.borrow_mut().on_notify = Some(Box::new(|_q| {
        BLOCK.with(|b| {
            if let Some(b) = b.borrow_mut().as_mut() {
                b.notified = true;
                if b.policy == Policy::ServeOnNotify {
                    serve(b);
                }
            }
        });
    }));
    for _ in 0..(10 + rng.below(30)) {
        let policy = match rng.below(3) {
            0 => Policy::ServeOnNotify,
            1 => Policy::Poll,
            _ => Policy::ServeLate(1 + rng.below(5) as u32),
        };
        // device publishes its suppression state before the request
        let (_, _, ai, _) = l.q.verif_state();
        if event_idx {
            let v = if policy == Policy::Poll { ai.wrapping_add(0x4000) } else { l.dev.fetch_idx };
            let _ = l.dev.set_avail_event(v);
            c.step(format!("queue availevent v={}", v), format!("ok | - | {}", l.priv_str()));
        } else {
            let v = if policy == Policy::Poll { 1 } else { 0 };
            let _ = l.dev.set_used_flags(v);
            c.step(format!("queue usedflags v={}", v), format!("ok | - | {}", l.priv_str()));
        }
        // the caller's own interrupt-suppression setting: a blocking request must leave it alone
        if rng.chance(1, 3) {
            let en = rng.chance(1, 2);
            l.q.set_dev_notify(en);
            let mut toks: Vec<String> = vec![];
            let _ = hal::take_events();
            STORE.with(|s| {
                if let Some(x) = s.borrow_mut().as_mut() {
                    let _ = std::mem::take(&mut x.events);
                    toks.extend(x.net_effect());
                }
            });
            c.step(format!("queue notify en={}", en as u8), format!("ok | {} | {}", if toks.is_empty() { "-".to_string() } else { toks.join(" ") }, l.priv_str()));
        }
        // what the status register reads back is the device's business: it may raise DEVICE_NEEDS_RESET at
        // any time and still complete what it was given — the request, once published, is the device's
        // until its completion is consumed
        let needs_reset = rng.chance(1, 5);
        st.borrow_mut().status_or = if needs_reset { 0x40 } else { 0 };
        let flags_before = l.dev.avail_flags().ok();
        let nin = rng.below(3) as usize;
        let nout = if nin == 0 { 1 + rng.below(2) as usize } else { rng.below(3) as usize };
        let ins: Vec<Vec<u8>> = (0..nin).map(|_| { let n = rng.range(1, 40) as usize; rng.bytes(n) }).collect();
        let mut outs: Vec<Vec<u8>> = (0..nout).map(|_| vec![0u8; rng.range(1, 40) as usize]).collect();
        let base = 1000 + c.steps.len() * 8;
        hal::with(|h| h.bufnames.clear()); // earlier iterations' buffers are freed; their addresses may be reused
        for (i, b) in ins.iter().enumerate() {
            hal::name_buffer(b.as_ptr(), b.len(), &format!("b{}", base + i));
        }
        for (i, b) in outs.iter().enumerate() {
            hal::name_buffer(b.as_ptr(), b.len(), &format!("b{}", base + nin + i));
        }
        let lens = |v: &Vec<Vec<u8>>, off: usize| if v.is_empty() { "-".to_string() } else { v.iter().enumerate().map(|(i, b)| format!("{}:{}", base + off + i, b.len())).collect::<Vec<_>>().join(",") };
        let want_len = rng.next() as u32;
        BLOCK.with(|b| {
            *b.borrow_mut() = Some(BlockCtx { dev: l.dev.clone(), policy, notified: false, spins: 0, served: false, len: want_len, failures: vec![], foreign: None })
        });
        let log0 = st.borrow().log.len();
        let r = {
            let q = &mut l.q;
            let t = &mut l.t;
            // SAFETY: the buffers and the two vectors of references outlive the call; the lifetimes
            // are erased only because the API ties outer and inner lifetimes together.
            let in_refs: Vec<&'static [u8]> = ins.iter().map(|b| unsafe { &*(b.as_slice() as *const [u8]) }).collect();
            let mut out_refs: Vec<&'static mut [u8]> = outs.iter_mut().map(|b| unsafe { &mut *(b.as_mut_slice() as *mut [u8]) }).collect();
            let ir: &'static [&'static [u8]] = unsafe { std::slice::from_raw_parts(in_refs.as_ptr(), in_refs.len()) };
            let or: &'static mut [&'static mut [u8]] = unsafe { std::slice::from_raw_parts_mut(out_refs.as_mut_ptr(), out_refs.len()) };
            guarded(move || q.add_notify_wait_pop(ir, or, t))
        };
        let ctx = BLOCK.with(|b| b.borrow_mut().take()).unwrap();
        l.dev = ctx.dev.clone();
        for f in ctx.failures {
            c.fail(f);
        }
        let notified = st.borrow().log[log0..].iter().any(|(_, x)| matches!(x, crate::mtrans::TCall::Notify(_)));
        // take events (stores are diffed by the hook during the call)
        let h = hal::take_events();
        // canonical form (as in cq_queue::take_evs): platform events in order, then the net effect of
        // the whole call on device-visible memory
        let mut all: Vec<String> = h.iter().map(|(_, e)| e.canon()).collect();
        STORE.with(|s| {
            if let Some(x) = s.borrow_mut().as_mut() {
                let _ = std::mem::take(&mut x.events);
                for o in x.oracle.drain(..) {
                    c.fail(o);
                }
                all.extend(x.net_effect());
                x.dev.fetch_idx = ctx.dev.fetch_idx;
                x.dev.inflight = ctx.dev.inflight.clone();
                x.resync();
            }
        });
        let evs = if all.is_empty() { "-".to_string() } else { all.join(" ") };
        let res = match r {
            Err(_) => "panic".to_string(),
            Ok(Err(e)) => {
                if ctx.served {
                    c.fail(format!("add_notify_wait_pop returned {:?} although the device completed the request{}: the chain it published is still outstanding and its buffers (the caller's, only borrowed for the call) are still shared with the device", e, if needs_reset { " (the status register read back DEVICE_NEEDS_RESET)" } else { "" }));
                }
                format!("err {:?}", e)
            }
            Ok(Ok(len)) => {
                l.added += 1;
                l.popped += 1;
                if len != ctx.len {
                    c.fail(format!("[C03] add_notify_wait_pop returned {} but the device recorded {}", len, ctx.len));
                }
                format!("ok len={}", len)
            }
        };
        let flags_after = l.dev.avail_flags().ok();
        if flags_after != flags_before {
            c.fail(format!("[C05] add_notify_wait_pop changed the interrupt-suppression word the driver had set: avail.flags {:?} -> {:?}", flags_before, flags_after));
        }
        c.tag(format!("{:?}", policy).split('(').next().unwrap().to_string());
        c.tag(if notified { "notified" } else { "not-notified" });
        c.step(
            format!("queue anwp in={} out={} len={}", lens(&ins, 0), lens(&outs, nin), ctx.len),
            format!("{} | {} | {} notify={}", res, evs, l.priv_str(), notified as u8),
        );
        for v in hal::with(|h| std::mem::take(&mut h.violations)) {
            c.fail(format!("[C04] ledger: {}", v));
        }
    }
    c.nontrivial = true;
    STORE.with(|s| *s.borrow_mut() = None);
    c
}

/// A blocking request on a queue that still has an earlier non-blocking chain outstanding, whose
/// completion the device reports first (during the wait, or before the call).  The request must fail
/// with `WrongToken` and leave its own chain with the device — descriptors allocated, buffers shared —
/// until the device returns it; the history then goes on (pop the earlier chain, submit again, let the
/// device fetch, complete and return everything).
pub fn foreign_first_case<const N: usize>(id: String, mut rng: Rng, event_idx: bool, indirect: bool) -> Case {
    let mut c = Case::new(id);
    let mut l = match Live::<N>::new(indirect, event_idx, false) {
        Ok(l) => l,
        Err(e) => {
            c.fail(format!("cannot create queue: {}", e));
            return c;
        }
    };
    c.step(format!("queue new n={} ind={} ev={} ap=0", N, indirect as u8, event_idx as u8), format!("ok | - | {}", l.priv_str()));
    let st = l.t.st.clone();
    st.borrow_mut().on_notify = Some(Box::new(|_q| {
        BLOCK.with(|b| {
            if let Some(b) = b.borrow_mut().as_mut() {
                b.notified = true;
            }
        });
    }));
    for _round in 0..(1 + rng.below(4)) {
        // earlier chain B, non-blocking
        let b_out = 1 + rng.below(2) as usize;
        let lens_b: Vec<usize> = (0..b_out).map(|_| rng.range(1, 40) as usize).collect();
        let Some(tok_b) = l.add(&mut c, &[], &lens_b, &mut rng) else { break };
        let pre = rng.chance(1, 2);
        if pre {
            // the device has already reported B when the blocking call is made
            l.dev_fetch(&mut c);
            let pos = l.dev.inflight.iter().position(|x| x.head == tok_b).unwrap_or(0);
            l.dev_complete(&mut c, pos, rng.next() as u32, &mut rng);
        } else if rng.chance(1, 2) {
            l.dev_fetch(&mut c);
        }
        // blocking request A
        let nin = 1 + rng.below(2) as usize;
        let nout = rng.below(2) as usize;
        if !indirect && l.q.available_desc() < nin + nout {
            break;
        }
        let ins: Vec<usize> = (0..nin).map(|_| { let n = rng.range(1, 40) as usize; l.new_buf(n, 0x11) }).collect();
        let outs: Vec<usize> = (0..nout).map(|_| { let n = rng.range(1, 40) as usize; l.new_buf(n, 0xEE) }).collect();
        let fmt = |v: &Vec<usize>, b: &Vec<Vec<u8>>| if v.is_empty() { "-".to_string() } else { v.iter().map(|i| format!("{}:{}", i, b[*i].len())).collect::<Vec<_>>().join(",") };
        let want_len = rng.next() as u32;
        BLOCK.with(|b| {
            *b.borrow_mut() = Some(BlockCtx { dev: l.dev.clone(), policy: Policy::Poll, notified: false, spins: 0, served: false, len: want_len, failures: vec![], foreign: Some(tok_b) })
        });
        let (_, _, avail_before, _) = l.q.verif_state();
        let num_used_before = l.q.verif_state().0;
        let r = {
            let bufs_ptr: *mut Vec<Vec<u8>> = &mut l.bufs;
            let q = &mut l.q;
            let t = &mut l.t;
            let (ins2, outs2) = (ins.clone(), outs.clone());
            guarded(move || {
                // SAFETY: distinct indices; the vectors stay in `l.bufs`, unmoved, until the case ends.
                let b = unsafe { &mut *bufs_ptr };
                let in_refs: Vec<&[u8]> = ins2.iter().map(|i| unsafe { &*(b[*i].as_slice() as *const [u8]) }).collect();
                let mut out_refs: Vec<&mut [u8]> = outs2.iter().map(|i| unsafe { &mut *(b[*i].as_mut_slice() as *mut [u8]) }).collect();
                q.add_notify_wait_pop(&in_refs, &mut out_refs, t)
            })
        };
        let ctx = BLOCK.with(|b| b.borrow_mut().take()).unwrap();
        l.dev = ctx.dev.clone();
        for f in ctx.failures {
            c.fail(f);
        }
        let h = hal::take_events();
        let mut all: Vec<String> = h.iter().map(|(_, e)| e.canon()).collect();
        STORE.with(|s| {
            if let Some(x) = s.borrow_mut().as_mut() {
                let _ = std::mem::take(&mut x.events);
                for o in x.oracle.drain(..) {
                    c.fail(o);
                }
                all.extend(x.net_effect());
            }
        });
        l.sync_dev_to_store();
        let evs = if all.is_empty() { "-".to_string() } else { all.join(" ") };
        let op = if pre {
            format!("queue anwpf in={} out={}", fmt(&ins, &l.bufs), fmt(&outs, &l.bufs))
        } else {
            format!("queue anwpf in={} out={} fid={} flen={}", fmt(&ins, &l.bufs), fmt(&outs, &l.bufs), tok_b, ctx.len)
        };
        let res = match &r {
            Err(_) => "panic".to_string(),
            Ok(Err(e)) => format!("err {:?}", e),
            Ok(Ok(len)) => format!("ok len={}", len),
        };
        c.tag(if pre { "foreign-pending-before" } else { "foreign-during-wait" });
        c.step(op, format!("{} | {} | {} notify={}", res, evs, l.priv_str(), ctx.notified as u8));
        if !matches!(r, Ok(Err(virtio_drivers::Error::WrongToken))) {
            c.fail(format!("[C03] add_notify_wait_pop = {} although the completion at the head of the used ring belongs to chain {}", res, tok_b));
            break;
        }
        // [C01] the chain the call published is still the device's: entry `avail_before` of the ring
        let k = nin + nout;
        let head = l.dev.avail_ring(avail_before % N as u16).unwrap_or(u16::MAX);
        match l.dev.parse_chain(head) {
            Err(e) => c.fail(format!("[C01] add_notify_wait_pop returned WrongToken (another chain completed first) and left its own published chain {} malformed although the device has not used it: {}", head, e)),
            Ok(ch) => {
                let want: Vec<usize> = ins.iter().chain(outs.iter()).map(|i| l.bufs[*i].len()).collect();
                let got: Vec<usize> = ch.segs.iter().map(|s| s.len as usize).collect();
                if got != want {
                    c.fail(format!("[C01] after WrongToken the published chain {} no longer describes the caller's buffers: {:?} vs {:?}", head, got, want));
                }
                for s in &ch.segs {
                    if let Err(e) = hal::translate(s.addr, s.len as usize) {
                        c.fail(format!("[C01] after WrongToken a buffer of the still-available chain {} is no longer shared with the device: {}", head, e));
                    }
                }
            }
        }
        let want_used = num_used_before as usize + if indirect && k > 1 { 1 } else { k };
        if l.q.verif_state().0 as usize != want_used {
            c.fail(format!("[C01] after WrongToken the driver counts {} descriptors in use; the earlier chains and the still-available chain {} hold {}", l.q.verif_state().0, head, want_used));
        }
        l.added += 1;
        l.held.insert(head, crate::cq_queue::Held { ins: ins.clone(), outs: outs.clone(), entry: avail_before });
        // the history goes on: the device picks the chain up (if it had not yet), B is consumed, a new
        // submission is made, everything is returned in some order
        l.dev_fetch(&mut c);
        if !pre {
            l.dev_written.insert(tok_b, vec![0x5A; ctx.len as usize]);
        }
        l.pop(&mut c, tok_b);
        let n3 = 1 + rng.below(3) as usize;
        if indirect || l.q.available_desc() >= n3 {
            let lens3: Vec<usize> = (0..n3).map(|_| rng.range(1, 40) as usize).collect();
            l.add(&mut c, &lens3, &[], &mut rng);
            l.dev_fetch(&mut c);
        }
        while !l.dev.inflight.is_empty() {
            let pick = rng.below(4) as usize;
            if let Some(t) = l.dev_complete(&mut c, pick, rng.next() as u32, &mut rng) {
                l.pop(&mut c, t);
            } else {
                break;
            }
        }
        l.check_counts(&mut c);
        l.drain_store_oracle(&mut c);
    }
    c.nontrivial = true;
    STORE.with(|s| *s.borrow_mut() = None);
    c
}

/// the blocking co-simulation on behalf of another check (C03/C04/C09: a published request stays the
/// device's until its completion is consumed, whatever the status register reads back meanwhile)
pub fn blocking_cases(ctx: &Ctx, prop: &str) -> Vec<Case> {
    cq_queue::install_hooks();
    virtio_drivers::verif_hooks::set_spin_hook(Some(on_spin));
    let nb = ctx.tier.pick(200, 4000);
    crate::runner::par_cases(ctx, prop, "blocking", nb, |i, id| {
        let rng = ctx.case_rng("C05-blocking", i);
        match i % 4 {
            0 => blocking_case::<4>(id, rng, true, false),
            1 => blocking_case::<4>(id, rng, false, false),
            2 => blocking_case::<16>(id, rng, true, true),
            _ => blocking_case::<1>(id, rng, i % 8 == 3, false),
        }
    })
}

pub fn foreign_first_cases(ctx: &Ctx, prop: &str) -> Vec<Case> {
    cq_queue::install_hooks();
    virtio_drivers::verif_hooks::set_spin_hook(Some(on_spin));
    let n = ctx.tier.pick(200, 4000);
    crate::runner::par_cases(ctx, prop, "foreign-first", n, |i, id| {
        let rng = ctx.case_rng("foreign-first", i);
        match i % 4 {
            0 => foreign_first_case::<4>(id, rng, true, false),
            1 => foreign_first_case::<8>(id, rng, false, false),
            2 => foreign_first_case::<16>(id, rng, true, true),
            _ => foreign_first_case::<4>(id, rng, false, true),
        }
    })
}

pub fn run(ctx: &Ctx) -> (Vec<Case>, String, bool, BTreeMap<String, String>) {
    cq_queue::install_hooks();
    virtio_drivers::verif_hooks::set_spin_hook(Some(on_spin));
    let mut all = vec![];
    // (i) truth table
    let full = ctx.tier == Tier::Thorough;
    let mut rows: Vec<u16> = if full {
        (0..=65535u16).collect()
    } else {
        let mut r = ctx.case_rng("rows", 0);
        let mut v: Vec<u16> = vec![];
        for b in [0u16, 0x4000, 0x7ff8, 0x8000, 0xbff0, 0xfff0] {
            v.extend((0..16).map(|i| b.wrapping_add(i)));
        }
        v.extend((0..1024 - v.len()).map(|_| r.next() as u16));
        v.sort();
        v.dedup();
        v
    };
    rows.sort();
    let chunks = 32;
    let per = rows.len().div_ceil(chunks);
    let row_chunks: Vec<Vec<u16>> = rows.chunks(per).map(|c| c.to_vec()).collect();
    all.extend(crate::runner::par_cases(ctx, "C05", "table", row_chunks.len(), |i, id| table_case(id, row_chunks[i].clone())));
    all.extend(crate::runner::par_cases(ctx, "C05", "flags", 1, |_, id| flags_case(id)));
    // (iii) blocking helpers
    let nb = ctx.tier.pick(300, 10000);
    all.extend(crate::runner::par_cases(ctx, "C05", "blocking", nb, |i, id| {
        let rng = ctx.case_rng("C05-blocking", i);
        match i % 4 {
            0 => blocking_case::<4>(id, rng, true, false),
            1 => blocking_case::<4>(id, rng, false, false),
            2 => blocking_case::<16>(id, rng, true, true),
            _ => blocking_case::<1>(id, rng, i % 8 == 3, false),
        }
    }));
    all.extend(foreign_first_cases(ctx, "C05"));
    // (ii) structured histories with the need_event oracle
    all.extend(cq_queue::run_structured(ctx, "C05", 600, 12000));
    let mut all = cq_queue::filter_for("C05", all);
    // (iv) driver level: per-queue decisions of every driver under independent suppression words
    all.extend(crate::c05_drivers::run_cases(ctx));
    // (v) the driver-level streams of the other checks with the lost-notification oracle (wake.rs)
    let mut via: Vec<Case> = vec![];
    via.extend(crate::c14_blk::run(ctx).0);
    via.extend(crate::c15_console::run(ctx).0);
    via.extend(crate::c16_net::run(ctx).0);
    via.extend(crate::c18_vsockconn::run(ctx).0);
    via.extend(crate::c19_events::run_drivers(ctx));
    for c in via.iter_mut() {
        c.oracle_failures.retain(|f| f.starts_with("[C05]"));
        c.id = format!("C05-via-{}", c.id);
        c.tag("driver-level");
    }
    all.extend(via);
    let mut extra = BTreeMap::new();
    extra.insert("x_truth_table_rows".into(), rows.len().to_string());
    extra.insert("x_truth_table_pairs".into(), (rows.len() as u64 * 65536).to_string());
    extra.insert("x_truth_table_exhaustive".into(), full.to_string());
    let rule = format!("(i) should_notify truth table: {} avail_idx rows x all 65536 avail_event values compared with the model through per-row digests (thorough: all 65536 rows = 2^32 pairs; quick: boundary neighbourhoods + random rows), the real queue is walked to each avail_idx by add/complete/pop cycles; all 65536 used.flags words; (ii) structured queue histories (see C03) with the specification's vring_need_event evaluated over tracked batches; (iii) add_notify_wait_pop co-simulated through the spin hook under device policies serve-on-notify / poll (suppressed) / serve-late, a spin while an un-notified device is entitled to sleep is a lost wake-up; (iv) every driver (blk, console, gpu, net raw, net, rng, rtc, socket, 9p) built on the model transport: before each single-chain operation the used.flags and avail_event words of ALL its queues are set independently at random, Transport::notify calls are counted per queue and compared with the model's should_notify for that queue's words and with the specification's obligations (must notify / must not notify); (v) the block, console, network, socket and event-queue streams of C14/C15/C16/C18/C19 with the lost-notification oracle: an entry made available while the device was not suppressed and no notify by the time the driver call returned; non-trivial = a completed request or a compared table row / decision; distinct = distinct transcript", rows.len());
    (all, rule, false, extra)
}
