//! C07: a misbehaving device cannot corrupt driver state. Queue-level hostile stream (arbitrary used
//! ring contents, index jumps, scribbling over driver-owned areas) compared with the model, plus the
//! hostile / malformed-device streams of the driver-level modules with their ledger and panic oracles.

use crate::cq_queue;
use crate::proto::Case;
use crate::runner::Ctx;
use std::collections::BTreeMap;

/// failures of other modules' hostile streams that are about C07's subject matter
fn relevant(f: &str) -> bool {
    let f = f.to_lowercase();
    ["ledger", "unshare", "dealloc", "panick", "twice", "double", "exceed", "beyond", "not shared", "unmapped", "more than", "longer than", "corrupt", "harness panic", "overlap", "does not return", "did not terminate", "busy-wait", "spin", "outside", "window", "still shared"]
        .iter()
        .any(|k| f.contains(k))
}

pub fn run(ctx: &Ctx) -> (Vec<Case>, String, bool, BTreeMap<String, String>) {
    let mut all = cq_queue::run_hostile(ctx, 1500, 20000);
    // driver level: event queues with oversize / under-written lengths, console hostile stream,
    // net malformed completions, vsock malformed packets
    let mut extra: Vec<Case> = vec![];
    extra.extend(crate::c19_events::run_drivers(ctx));
    extra.extend(crate::c15_console::run(ctx).0);
    extra.extend(crate::c16_net::run(ctx).0);
    extra.extend(crate::c18_vsockconn::run(ctx).0);
    // blocking sound transfers against devices that answer with errors / out of order: every call ends
    extra.extend(crate::c20_cmd::sound_cases(ctx, "C07", ctx.tier.pick(300, 5000)));
    // GPU operations against a device that answers any command with any type: backing memory is never
    // released while a resource has it attached (the device would read freed memory)
    {
        let mut gpu = crate::c20_cmd::gpu_cases(ctx, "C07", ctx.tier.pick(300, 5000));
        for c in gpu.iter_mut() {
            c.oracle_failures.retain(|f| f.contains("while it is attached as backing") || f.contains("no longer allocated after"));
            for f in c.oracle_failures.iter_mut() {
                *f = format!("ledger: {}", f);
            }
        }
        extra.extend(gpu);
    }
    // configuration accesses at every offset around the end of the device's window (MMIO and PCI):
    // nothing outside the window is touched, whatever lengths the device advertises
    extra.extend(crate::c13_config::bounds_cases(ctx));
    // construction with a DMA allocation failing at every point, and drop: nothing is released that was
    // not allocated, nothing twice (C09's stream, its ledger failures)
    extra.extend(crate::c09_drop::fault_cases(ctx));
    // …and against devices whose configuration space is cut off at every length (C09's stream): whichever
    // read fails, nothing the device still refers to is released
    extra.extend(crate::c09_drop::trunc_cases(ctx, "C07"));
    for c in extra.iter_mut() {
        c.oracle_failures.retain(|f| relevant(f));
        for f in c.oracle_failures.iter_mut() {
            *f = format!("[C07] {}", f);
        }
        c.id = format!("C07-via-{}", c.id);
        c.tag("driver-level");
    }
    all.extend(extra);
    let rule = "queue level: random walk of {add, raw used-ring element with arbitrary id (never issued, out of range, aliasing after u16 truncation, repeated) and arbitrary length, used-index jumps, scribbling over descriptor table / available ring / available index, polls by a contract-following caller}; compared with the model on results, driver-private state and platform events (device-visible stores are not compared under scribbling); oracles: no panic under the caller contract, ledger (no double unshare / unknown address / mismatch), num_used and live shares equal what the caller's outstanding chains account for; driver level: the event-queue (oversize and under-written lengths), console hostile, net and vsock malformed-device streams of C19/C15/C16/C18 with their ledger / panic / slice-bound oracles, the sound stream of C20 (every blocking transfer returns, nothing left shared) and the configuration-window bounds streams of C13; non-trivial = at least one submission or consumption happened; distinct = distinct transcript".to_string();
    (all, rule, false, BTreeMap::new())
}
