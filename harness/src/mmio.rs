//! Custom `safe-mmio` backend: every MMIO access performed by the real `MmioTransport`,
//! `PciTransport` and `MmioCam` arrives here, is logged in order with its width, and is answered
//! by a register-level emulated device. Pointers are *fake* addresses that are never dereferenced.

use std::cell::RefCell;

#[derive(Clone, Debug, PartialEq, Eq)]
pub struct Access {
    pub seq: u64,
    pub write: bool,
    pub width: u8,
    /// name of the registered region
    pub region: String,
    pub offset: usize,
    pub value: u64,
}

impl Access {
    pub fn canon(&self) -> String {
        format!("{}{}:{}+{:#x}={:#x}", if self.write { "W" } else { "R" }, self.width * 8, self.region, self.offset, self.value)
    }
}

/// A register-level device model behind a region.
pub trait MmioDevice {
    fn read(&mut self, offset: usize, width: u8) -> u64;
    fn write(&mut self, offset: usize, width: u8, value: u64);
}

pub struct Region {
    pub base: usize,
    pub len: usize,
    pub name: String,
    pub dev: Box<dyn MmioDevice>,
}

#[derive(Default)]
pub struct Bus {
    pub regions: Vec<Region>,
    pub trace: Vec<Access>,
    pub violations: Vec<String>,
    /// accesses allowed before the bus reports a runaway loop (0 = unlimited)
    pub budget: u64,
    pub spent: u64,
}

thread_local! {
    pub static BUS: RefCell<Bus> = RefCell::new(Bus::default());
}

pub fn with<R>(f: impl FnOnce(&mut Bus) -> R) -> R {
    BUS.with(|b| f(&mut b.borrow_mut()))
}

pub fn reset() {
    with(|b| *b = Bus::default());
}

pub fn register(base: usize, len: usize, name: &str, dev: Box<dyn MmioDevice>) {
    with(|b| b.regions.push(Region { base, len, name: name.to_string(), dev }));
}

pub fn take_trace() -> Vec<Access> {
    with(|b| std::mem::take(&mut b.trace))
}

/// Panic payload used when the access budget is exhausted (turns a hang into an outcome).
pub const BUDGET_PANIC: &str = "mmio access budget exhausted";

fn access(addr: usize, width: u8, write: bool, value: u64) -> u64 {
    // take the device out so it may itself use harness state without re-entrancy problems
    let (idx, off, name) = {
        let r = with(|b| {
            b.spent += 1;
            if b.budget != 0 && b.spent > b.budget {
                // the panic that follows unwinds through the driver, whose destructors access registers too
                // (a transport resets the device when dropped): they get a fresh allowance — a panic inside a
                // destructor during unwinding would abort the process
                b.spent = 0;
                return Err(());
            }
            Ok(b.regions.iter().position(|r| addr >= r.base && addr + width as usize <= r.base + r.len).map(|i| (i, addr - b.regions[i].base, b.regions[i].name.clone())))
        });
        match r {
            Err(()) => panic!("{}", BUDGET_PANIC),
            Ok(None) => {
                with(|b| b.violations.push(format!("MMIO {} of width {} at unmapped address {:#x}", if write { "write" } else { "read" }, width, addr)));
                return 0;
            }
            Ok(Some(x)) => x,
        }
    };
    let mut dev = with(|b| std::mem::replace(&mut b.regions[idx].dev, Box::new(Nothing)));
    let v = if write {
        dev.write(off, width, value);
        value
    } else {
        dev.read(off, width)
    };
    with(|b| {
        b.regions[idx].dev = dev;
        b.trace.push(Access { seq: crate::hal::tick(), write, width, region: name, offset: off, value: v });
    });
    v
}

struct Nothing;
impl MmioDevice for Nothing {
    fn read(&mut self, _: usize, _: u8) -> u64 {
        0
    }
    fn write(&mut self, _: usize, _: u8, _: u64) {}
}

pub struct Ops;

impl safe_mmio::MmioOps for Ops {
    unsafe fn read_u8(src: *const u8) -> u8 {
        access(src as usize, 1, false, 0) as u8
    }
    unsafe fn read_u16(src: *const u16) -> u16 {
        access(src as usize, 2, false, 0) as u16
    }
    unsafe fn read_u32(src: *const u32) -> u32 {
        access(src as usize, 4, false, 0) as u32
    }
    unsafe fn read_u64(src: *const u64) -> u64 {
        access(src as usize, 8, false, 0)
    }
    unsafe fn write_u8(dst: *mut u8, value: u8) {
        access(dst as usize, 1, true, value as u64);
    }
    unsafe fn write_u16(dst: *mut u16, value: u16) {
        access(dst as usize, 2, true, value as u64);
    }
    unsafe fn write_u32(dst: *mut u32, value: u32) {
        access(dst as usize, 4, true, value as u64);
    }
    unsafe fn write_u64(dst: *mut u64, value: u64) {
        access(dst as usize, 8, true, value);
    }
}

safe_mmio::set_mmio_ops!(Ops);

/// A plain little-endian byte array as a device (useful for config windows and quick probes).
pub struct RamDevice(pub Vec<u8>);
impl MmioDevice for RamDevice {
    fn read(&mut self, offset: usize, width: u8) -> u64 {
        let mut v = 0u64;
        for i in 0..width as usize {
            v |= (self.0[offset + i] as u64) << (8 * i);
        }
        v
    }
    fn write(&mut self, offset: usize, width: u8, value: u64) {
        for i in 0..width as usize {
            self.0[offset + i] = (value >> (8 * i)) as u8;
        }
    }
}
