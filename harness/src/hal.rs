//! `LedgerHal`: an instrumented, bouncing platform layer.
//!
//! * DMA regions get *fake* device addresses (`DMA_BASE + k·DMA_STRIDE`) that never coincide with
//!   host addresses; every alloc/dealloc is recorded; the k-th allocation can be made to fail.
//! * `share` bounces every buffer to a fresh fake device address (`SHARE_BASE + k·SHARE_STRIDE`),
//!   `unshare` checks the (paddr, ptr, len, direction) tuple against the ledger and copies back.
//! * the device side resolves addresses only through `translate`, i.e. only live ledger ranges.
//!
//! State is thread-local: every worker thread runs independent cases.

use std::alloc::{Layout, alloc_zeroed, dealloc};
use std::cell::RefCell;
use std::ptr::NonNull;
use virtio_drivers::{BufferDirection, Hal, PhysAddr};

pub const PAGE: usize = 4096;
pub const DMA_BASE: u64 = 0x4000_0000_0000;
/// consecutive DMA regions differ in the upper 32 bits of their device address as well, so that a
/// transport which mixes up the halves of two addresses is caught (regions are at most 2^24 bytes)
pub const DMA_STRIDE: u64 = (1 << 32) + (1 << 24);
pub const SHARE_BASE: u64 = 0x6000_0000_0000;
pub const SHARE_STRIDE: u64 = 1 << 20;
pub const P2V_BASE: usize = 0x7000_0000_0000;
pub const P2V_STRIDE: usize = 1 << 32;

pub fn dir_str(d: BufferDirection) -> &'static str {
    match d {
        BufferDirection::DriverToDevice => "DriverToDevice",
        BufferDirection::DeviceToDriver => "DeviceToDriver",
        BufferDirection::Both => "Both",
    }
}

pub struct DmaRegion {
    pub paddr: u64,
    pub host: *mut u8,
    pub pages: usize,
    pub dir: BufferDirection,
    pub ap: bool,
    pub live: bool,
}

pub struct Share {
    pub paddr: u64,
    pub bounce: Vec<u8>,
    /// shared in place (identity-mapping platform): the device address maps to the caller's memory
    pub inplace: bool,
    pub orig: *mut u8,
    pub len: usize,
    pub dir: BufferDirection,
    pub ap: bool,
    pub live: bool,
    pub name: String,
}

#[derive(Clone, Debug, PartialEq, Eq)]
pub enum HalEv {
    Alloc { k: usize, pages: usize, dir: BufferDirection, ap: bool, ok: bool },
    Dealloc { k: Option<usize>, pages: usize, ap: bool },
    Share { k: usize, name: String, len: usize, dir: BufferDirection, ap: bool },
    Unshare { k: Option<usize>, name: String, len: usize, dir: BufferDirection, ap: bool },
    PhysToVirt { paddr: u64, size: usize },
}

impl HalEv {
    pub fn canon(&self) -> String {
        let b = |x: bool| if x { 1 } else { 0 };
        match self {
            HalEv::Alloc { pages, dir, ap, ok, .. } => {
                format!("dma_alloc({},{},{})={}", pages, dir_str(*dir), b(*ap), if *ok { "ok" } else { "fail" })
            }
            HalEv::Dealloc { k, pages, ap } => match k {
                Some(k) => format!("dma_dealloc(D{},{},{})", k, pages, b(*ap)),
                None => format!("dma_dealloc(D?,{},{})", pages, b(*ap)),
            },
            HalEv::Share { k, name, len, dir, ap } => {
                format!("share(S{},{},{},{},{})", k, name, len, dir_str(*dir), b(*ap))
            }
            HalEv::Unshare { k, name, len, dir, ap } => match k {
                Some(k) => format!("unshare(S{},{},{},{},{})", k, name, len, dir_str(*dir), b(*ap)),
                None => format!("unshare(S?,{},{},{},{})", name, len, dir_str(*dir), b(*ap)),
            },
            HalEv::PhysToVirt { paddr, size } => format!("phys_to_virt({:#x},{})", paddr, size),
        }
    }
}

#[derive(Default)]
pub struct HalState {
    pub dma: Vec<DmaRegion>,
    pub shares: Vec<Share>,
    pub events: Vec<(u64, HalEv)>,
    /// 0 = never fail; k = the k-th `dma_alloc` call of this case returns paddr 0
    pub fail_alloc_at: usize,
    pub alloc_attempts: usize,
    /// ledger oracle failures (double unshare, mismatching arguments, unknown addresses, …)
    pub violations: Vec<String>,
    /// names for caller buffers, looked up by (ptr) so events are printed without host addresses
    pub bufnames: Vec<(usize, usize, String)>,
    /// physical→virtual MMIO mappings handed out (paddr, size, fake vaddr)
    pub p2v: Vec<(u64, usize, usize)>,
    /// if set, `share` of a `DeviceToDriver` buffer fills the bounce buffer with this byte
    pub poison: u8,
    /// indices of live shares (kept small so long soaks stay linear)
    pub live_idx: Vec<usize>,
    /// an empty buffer may be shared without a ledger complaint (deliberately malformed submission)
    pub allow_empty: bool,
    /// the next shares may be larger than the harness's device-address stride (a deliberately huge
    /// caller buffer): such a share is recorded but neither bounced nor flagged
    pub allow_huge: bool,
    /// new shares are made in place (no bounce buffer): what the device writes is in the caller's
    /// buffer at once, as on a platform without an IOMMU / bounce buffers
    pub inplace: bool,
}

thread_local! {
    pub static HAL: RefCell<HalState> = RefCell::new(HalState::default());
    /// per-thread logical clock ordering HAL events, transport calls and MMIO accesses
    pub static CLOCK: std::cell::Cell<u64> = const { std::cell::Cell::new(0) };
}

pub fn tick() -> u64 {
    CLOCK.with(|c| {
        let v = c.get() + 1;
        c.set(v);
        v
    })
}

pub trait PushEv {
    fn push_ev(&mut self, e: HalEv);
}
impl PushEv for Vec<(u64, HalEv)> {
    fn push_ev(&mut self, e: HalEv) {
        self.push((tick(), e));
    }
}

pub fn with<R>(f: impl FnOnce(&mut HalState) -> R) -> R {
    HAL.with(|h| f(&mut h.borrow_mut()))
}

thread_local! {
    static NEXT_INPLACE: std::cell::Cell<bool> = const { std::cell::Cell::new(false) };
}

/// the case about to start (next `reset`) runs on a platform that shares buffers in place
pub fn inplace_next(b: bool) {
    NEXT_INPLACE.with(|c| c.set(b));
}

/// Resets the platform for a new case and frees all host memory of the previous one.
pub fn reset() {
    crate::wake::reset();
    let inplace = NEXT_INPLACE.with(|c| c.replace(false));
    with(|h| {
        for r in h.dma.drain(..) {
            // SAFETY: allocated with this layout in `dma_alloc`.
            unsafe { dealloc(r.host, Layout::from_size_align(r.pages.max(1) * PAGE, PAGE).unwrap()) };
        }
        *h = HalState::default();
        h.poison = 0xA5;
        h.inplace = inplace;
    });
}

pub fn take_events() -> Vec<(u64, HalEv)> {
    with(|h| std::mem::take(&mut h.events))
}

pub fn name_buffer(ptr: *const u8, len: usize, name: &str) {
    with(|h| {
        h.bufnames.retain(|(p, _, _)| *p != ptr as usize);
        h.bufnames.push((ptr as usize, len, name.to_string()));
    });
}

impl HalState {
    fn buf_name(&self, ptr: *const u8, len: usize) -> String {
        for (p, l, n) in self.bufnames.iter().rev() {
            if *p == ptr as usize {
                return if *l == len { n.clone() } else { format!("{}[..{}]", n, len) };
            }
            if (ptr as usize) > *p && (ptr as usize) < *p + *l {
                return format!("{}+{}", n, ptr as usize - *p);
            }
        }
        "anon".to_string()
    }

    /// Device-side address resolution: only live DMA regions and live shares are reachable.
    pub fn translate(&mut self, paddr: u64, len: usize) -> Result<*mut u8, String> {
        if paddr >= SHARE_BASE && paddr < SHARE_BASE + SHARE_STRIDE * self.shares.len() as u64 {
            let k = ((paddr - SHARE_BASE) / SHARE_STRIDE) as usize;
            let s = &mut self.shares[k];
            let off = (paddr - s.paddr) as usize;
            if !s.live {
                return Err(format!("device access to unshared range S{}+{} len {}", k, off, len));
            }
            if off + len > s.len {
                return Err(format!("device access beyond shared range S{}+{} len {} (shared {})", k, off, len, s.len));
            }
            if s.inplace {
                return Ok(s.orig.wrapping_add(off));
            }
            return Ok(s.bounce.as_mut_ptr().wrapping_add(off));
        }
        if paddr >= DMA_BASE && paddr < DMA_BASE + DMA_STRIDE * self.dma.len() as u64 {
            let k = ((paddr - DMA_BASE) / DMA_STRIDE) as usize;
            let r = &self.dma[k];
            let off = (paddr - r.paddr) as usize;
            if !r.live {
                return Err(format!("device access to deallocated DMA region D{}+{} len {}", k, off, len));
            }
            if off + len > r.pages * PAGE {
                return Err(format!("device access beyond DMA region D{}+{} len {}", k, off, len));
            }
            return Ok(r.host.wrapping_add(off));
        }
        Err(format!("device access to unmapped device address {:#x} len {}", paddr, len))
    }

    /// canonical name of a device address: `D<k>+off`, `S<k>+off` or the raw number
    pub fn canon_addr(&self, paddr: u64) -> String {
        if paddr >= SHARE_BASE && paddr < SHARE_BASE + SHARE_STRIDE * self.shares.len() as u64 {
            let k = (paddr - SHARE_BASE) / SHARE_STRIDE;
            return format!("S{}+{}", k, paddr - SHARE_BASE - k * SHARE_STRIDE);
        }
        if paddr >= DMA_BASE && paddr < DMA_BASE + DMA_STRIDE * self.dma.len() as u64 {
            let k = (paddr - DMA_BASE) / DMA_STRIDE;
            return format!("D{}+{}", k, paddr - DMA_BASE - k * DMA_STRIDE);
        }
        format!("{:#x}", paddr)
    }

    pub fn live_shares(&self) -> usize {
        self.live_idx.len()
    }
    pub fn live_dma(&self) -> usize {
        self.dma.iter().filter(|s| s.live).count()
    }
}

pub fn translate(paddr: u64, len: usize) -> Result<*mut u8, String> {
    with(|h| h.translate(paddr, len))
}

/// Device-side read of `len` bytes at a device address.
pub fn dev_read(paddr: u64, len: usize) -> Result<Vec<u8>, String> {
    let p = translate(paddr, len)?;
    let mut v = vec![0u8; len];
    // SAFETY: `translate` checked the range lies in live harness-owned memory.
    unsafe { std::ptr::copy_nonoverlapping(p, v.as_mut_ptr(), len) };
    Ok(v)
}

/// Device-side write at a device address.
pub fn dev_write(paddr: u64, data: &[u8]) -> Result<(), String> {
    let p = translate(paddr, data.len())?;
    // SAFETY: as above.
    unsafe { std::ptr::copy_nonoverlapping(data.as_ptr(), p, data.len()) };
    Ok(())
}

pub struct LedgerHal;

// SAFETY: dma_alloc returns page-aligned zeroed memory that stays allocated until `reset`.
unsafe impl Hal for LedgerHal {
    fn dma_alloc(pages: usize, direction: BufferDirection, access_platform: bool) -> (PhysAddr, NonNull<u8>) {
        with(|h| {
            h.alloc_attempts += 1;
            let k = h.dma.len();
            if h.fail_alloc_at != 0 && h.alloc_attempts == h.fail_alloc_at {
                h.events.push_ev(HalEv::Alloc { k, pages, dir: direction, ap: access_platform, ok: false });
                return (0, NonNull::dangling());
            }
            if pages == 0 {
                h.violations.push("dma_alloc of zero pages".into());
            }
            if pages as u64 * PAGE as u64 > DMA_STRIDE {
                h.violations.push(format!("dma_alloc of {} pages exceeds harness stride", pages));
            }
            let layout = Layout::from_size_align(pages.max(1) * PAGE, PAGE).unwrap();
            // SAFETY: non-zero size.
            let host = unsafe { alloc_zeroed(layout) };
            let paddr = DMA_BASE + DMA_STRIDE * k as u64;
            h.dma.push(DmaRegion { paddr, host, pages, dir: direction, ap: access_platform, live: true });
            h.events.push_ev(HalEv::Alloc { k, pages, dir: direction, ap: access_platform, ok: true });
            (paddr, NonNull::new(host).unwrap())
        })
    }

    unsafe fn dma_dealloc(paddr: PhysAddr, vaddr: NonNull<u8>, pages: usize, access_platform: bool) -> i32 {
        with(|h| {
            let mut found = None;
            for (k, r) in h.dma.iter_mut().enumerate() {
                if r.paddr == paddr {
                    found = Some(k);
                    if !r.live {
                        h.violations.push(format!("dma_dealloc of D{} twice", k));
                    }
                    if r.host != vaddr.as_ptr() {
                        h.violations.push(format!("dma_dealloc of D{} with a different pointer", k));
                    }
                    if r.pages != pages {
                        h.violations.push(format!("dma_dealloc of D{} with {} pages, allocated {}", k, pages, r.pages));
                    }
                    if r.ap != access_platform {
                        h.violations.push(format!("dma_dealloc of D{} with different access_platform", k));
                    }
                    r.live = false;
                    // poison so that stale reads by the driver or the device are visible
                    // SAFETY: region memory stays allocated until `reset`.
                    unsafe { std::ptr::write_bytes(r.host, 0xDD, r.pages * PAGE) };
                }
            }
            if found.is_none() {
                h.violations.push(format!("dma_dealloc of unknown address {:#x}", paddr));
            }
            h.events.push_ev(HalEv::Dealloc { k: found, pages, ap: access_platform });
            0
        })
    }

    unsafe fn mmio_phys_to_virt(paddr: PhysAddr, size: usize) -> NonNull<u8> {
        with(|h| {
            h.events.push_ev(HalEv::PhysToVirt { paddr, size });
            let idx = h.p2v.len();
            // never dereferenced: all MMIO goes through the custom safe-mmio backend
            let v = P2V_BASE + idx * P2V_STRIDE + (paddr as usize & 0xfff);
            h.p2v.push((paddr, size, v));
            NonNull::new(v as *mut u8).unwrap()
        })
    }

    unsafe fn share(buffer: NonNull<[u8]>, direction: BufferDirection, access_platform: bool) -> PhysAddr {
        with(|h| {
            let len = buffer.len();
            let ptr = buffer.as_ptr() as *mut u8;
            let k = h.shares.len();
            let name = h.buf_name(ptr, len);
            if len == 0 && !h.allow_empty {
                h.violations.push(format!("share of empty buffer {}", name));
            }
            let huge = len as u64 > SHARE_STRIDE;
            if huge && !h.allow_huge {
                h.violations.push(format!("share of {} bytes exceeds harness stride", len));
            }
            if direction == BufferDirection::Both {
                h.violations.push(format!("share({}) with direction Both", name));
            }
            // a live share of an overlapping range means the same memory is shared twice
            for j in h.live_idx.iter() {
                let s = &h.shares[*j];
                if s.live && (s.orig as usize) < ptr as usize + len && (ptr as usize) < s.orig as usize + s.len {
                    h.violations.push(format!("share({}) overlaps live share S{}", name, j));
                }
            }
            h.live_idx.push(k);
            let inplace = h.inplace || huge;
            if h.inplace && !huge && direction != BufferDirection::DriverToDevice && len > 0 {
                // in place, a device-writable buffer belongs to the device from this moment: it may write
                // it at any time, so its contents are unspecified until the completion is consumed.
                // The platform scribbles over it at once (the same bytes a bounce buffer starts with):
                // a driver that reads the buffer after handing it over sees them.
                // SAFETY: the caller guarantees the buffer is valid for writes while shared.
                unsafe { std::ptr::write_bytes(ptr, h.poison, len) };
            }
            let mut bounce = if inplace { Vec::new() } else { vec![h.poison; len] };
            if !inplace && direction != BufferDirection::DeviceToDriver {
                // SAFETY: caller guarantees the buffer is valid.
                unsafe { std::ptr::copy_nonoverlapping(ptr, bounce.as_mut_ptr(), len) };
            }
            let paddr = SHARE_BASE + SHARE_STRIDE * k as u64;
            h.shares.push(Share { paddr, bounce, inplace, orig: ptr, len, dir: direction, ap: access_platform, live: true, name: name.clone() });
            h.events.push_ev(HalEv::Share { k, name, len, dir: direction, ap: access_platform });
            paddr
        })
    }

    unsafe fn unshare(paddr: PhysAddr, buffer: NonNull<[u8]>, direction: BufferDirection, access_platform: bool) {
        with(|h| {
            let len = buffer.len();
            let ptr = buffer.as_ptr() as *mut u8;
            let name = h.buf_name(ptr, len);
            let mut found = None;
            if paddr >= SHARE_BASE && (paddr - SHARE_BASE) % SHARE_STRIDE == 0 {
                let k = ((paddr - SHARE_BASE) / SHARE_STRIDE) as usize;
                if k < h.shares.len() {
                    found = Some(k);
                }
            }
            match found {
                None => h.violations.push(format!("unshare({}) with address {:#x} never returned by share", name, paddr)),
                Some(k) => {
                    let mut v = Vec::new();
                    let s = &mut h.shares[k];
                    if !s.live {
                        v.push(format!("unshare of S{} ({}) twice", k, s.name));
                    }
                    if s.orig != ptr || s.len != len {
                        v.push(format!("unshare of S{} with a different range ({} vs shared {})", k, name, s.name));
                    }
                    if s.dir != direction {
                        v.push(format!("unshare of S{} with direction {} (shared {})", k, dir_str(direction), dir_str(s.dir)));
                    }
                    if s.ap != access_platform {
                        v.push(format!("unshare of S{} with different access_platform", k));
                    }
                    if !s.inplace && s.live && s.orig == ptr && s.len == len && direction != BufferDirection::DriverToDevice {
                        // SAFETY: caller guarantees the buffer is valid.
                        unsafe { std::ptr::copy_nonoverlapping(s.bounce.as_ptr(), ptr, len) };
                    }
                    s.live = false;
                    h.violations.extend(v);
                    h.live_idx.retain(|x| *x != k);
                }
            }
            h.events.push_ev(HalEv::Unshare { k: found, name, len, dir: direction, ap: access_platform });
        })
    }
}
