//! C05 at the level of the device drivers: every driver operation that makes one buffer chain
//! available on one of its queues must take its notification decision from THAT queue's device-side
//! state.  Each driver is built on the model transport; before each operation the device-owned
//! suppression words (`used.flags`, `avail_event`) of ALL its queues are set independently at random,
//! the operation is run against a device that serves requests while the driver busy-waits (a polling
//! device is entitled not to be notified), and the `Transport::notify` calls are counted per queue.
//! The observed decision is compared with the model's `should_notify` for the same words (the
//! function `notify_sound` is proved about), and with the specification's obligations directly.

use crate::c08_init::{construct_model, Built, Drv, NewCfg, F_INDIRECT, F_VERSION_1};
use crate::hal;
use crate::mtrans::{TCall, TState};
use crate::proto::Case;
use crate::refdev::RefQueue;
use crate::rng::Rng;
use crate::runner::{guarded, Ctx};
use std::cell::RefCell;
use std::collections::BTreeMap;
use std::rc::Rc;

const F_EVENT_IDX: u64 = 1 << 29;

struct Serve {
    st: Rc<RefCell<TState>>,
    queues: BTreeMap<u16, RefQueue>,
    /// request queues the device answers (receive / event queues are left alone)
    serve: Vec<u16>,
    word: u32,
    errors: Vec<String>,
    spins: u64,
}

thread_local! {
    static SERVE: RefCell<Option<Serve>> = const { RefCell::new(None) };
}

fn serve_all() {
    SERVE.with(|s| {
        let mut g = match s.try_borrow_mut() {
            Ok(g) => g,
            Err(_) => return,
        };
        let sv = match g.as_mut() {
            Some(sv) => sv,
            None => return,
        };
        sv.spins += 1;
        if sv.spins > 100_000 {
            sv.spins = 0;
            panic!("driver busy-waits although the device served every request");
        }
        let (regs, neg) = {
            let st = sv.st.borrow();
            (st.queues.clone(), st.driver_features)
        };
        for q in sv.serve.clone() {
            let reg = match regs.get(q as usize) {
                Some(r) if r.set => *r,
                _ => continue,
            };
            let rq = sv.queues.entry(q).or_insert_with(|| RefQueue::new(reg.size as u16, reg.desc, reg.driver, reg.device, neg & F_INDIRECT != 0));
            let chains = match rq.fetch_all() {
                Ok(c) => c,
                Err(e) => {
                    sv.errors.push(format!("queue {}: {}", q, e));
                    continue;
                }
            };
            for ch in chains {
                let wl = rq.writable_len(&ch);
                let mut data = vec![0u8; wl.min(64)];
                for (i, b) in sv.word.to_le_bytes().iter().enumerate() {
                    if i < data.len() {
                        data[i] = *b;
                    }
                }
                if let Err(e) = rq.write_out(&ch, &data) {
                    sv.errors.push(format!("queue {}: {}", q, e));
                }
                if let Err(e) = rq.complete(ch.head, wl as u32) {
                    sv.errors.push(format!("queue {}: {}", q, e));
                }
            }
        }
    });
}

fn rd16(addr: u64) -> u16 {
    hal::dev_read(addr, 2).map(|b| u16::from_le_bytes([b[0], b[1]])).unwrap_or(0)
}

/// (queue the op submits to, name)
fn ops_of(d: Drv) -> Vec<(u16, &'static str)> {
    match d {
        Drv::Blk => vec![(0, "blk.read_blocks")],
        Drv::Console => vec![(1, "console.send")],
        Drv::Gpu => vec![(0, "gpu.resolution"), (1, "gpu.move_cursor")],
        Drv::NetRaw => vec![(1, "netraw.send"), (0, "netraw.receive_begin"), (1, "netraw.transmit_begin")],
        Drv::Net => vec![(1, "net.send")],
        Drv::Rng => vec![(0, "rng.request_entropy")],
        Drv::Rtc => vec![(0, "rtc.read")],
        Drv::Socket => vec![(1, "socket.connect")],
        Drv::P9 => vec![(0, "9p.request")],
        Drv::Input | Drv::Sound => vec![],
    }
}

fn served_queues(d: Drv) -> Vec<u16> {
    match d {
        Drv::Blk | Drv::Rng | Drv::Rtc | Drv::P9 => vec![0],
        Drv::Console | Drv::NetRaw | Drv::Net | Drv::Socket => vec![1],
        Drv::Gpu => vec![0, 1],
        _ => vec![],
    }
}

pub const DRIVERS: [Drv; 9] = [Drv::Blk, Drv::Console, Drv::Gpu, Drv::NetRaw, Drv::Net, Drv::Rng, Drv::Rtc, Drv::Socket, Drv::P9];

pub fn one_case(i: usize, id: String, mut rng: Rng) -> Case {
    let mut c = Case::new(id);
    let d = DRIVERS[i % DRIVERS.len()];
    let ev = (i / DRIVERS.len()) % 2 == 1;
    let ind = (i / (2 * DRIVERS.len())) % 2 == 1;
    let offered = F_VERSION_1 | if ev { F_EVENT_IDX } else { 0 } | if ind { F_INDIRECT } else { 0 };
    let cfg = NewCfg { d, offered, legacy: false, fail: 0, cfg: "ok", max: 64, postfail: false };
    let (r, _toks, st, _mark) = construct_model(&cfg);
    c.tag(d.name());
    c.tag(if ev { "event-idx" } else { "flags" });
    let mut b = match r {
        Ok(Ok(b)) => b,
        other => {
            c.fail(format!("[C05] cannot construct {}: {:?}", d.name(), other.err()));
            return c;
        }
    };
    let ev = st.borrow().driver_features & F_EVENT_IDX != 0;
    SERVE.with(|s| *s.borrow_mut() = Some(Serve { st: st.clone(), queues: BTreeMap::new(), serve: served_queues(d), word: if d == Drv::P9 { 11 } else { 0 }, errors: vec![], spins: 0 }));
    st.borrow_mut().on_notify = Some(Box::new(|_q| serve_all()));
    // buffers that stay posted (netraw receive/transmit) must outlive the driver
    let mut keep: Vec<Vec<u8>> = vec![];
    let ops = ops_of(d);
    let rounds = 3 + rng.below(6) as usize;
    for _ in 0..rounds {
        let (q, name) = *rng.pick(&ops);
        // independent suppression words on every queue of the device
        let regs = st.borrow().queues.clone();
        let mut words: BTreeMap<u16, (u16, u16, u16)> = BTreeMap::new(); // queue -> (flags, avail_event, idx before)
        for (k, reg) in regs.iter().enumerate() {
            if !reg.set {
                continue;
            }
            let idx = rd16(reg.driver + 2);
            let flags = if rng.chance(1, 2) { 1u16 } else { 0 };
            let ae = match rng.below(5) {
                0 | 1 => idx,
                2 => idx.wrapping_add(1),
                3 => idx.wrapping_sub(1),
                _ => rng.next() as u16,
            };
            let _ = hal::dev_write(reg.device, &flags.to_le_bytes());
            let _ = hal::dev_write(reg.device + 4 + 8 * reg.size as u64, &ae.to_le_bytes());
            words.insert(k as u16, (flags, ae, idx));
        }
        let mark = st.borrow().log.len();
        SERVE.with(|s| {
            if let Some(sv) = s.borrow_mut().as_mut() {
                sv.spins = 0;
            }
        });
        let res = guarded(|| match (&mut b, name) {
            (Built::Blk(x), _) => {
                let mut buf = [0u8; 512];
                x.read_blocks(0, &mut buf).is_ok()
            }
            (Built::Console(x), _) => x.send(b'x').is_ok(),
            (Built::Gpu(x), "gpu.resolution") => x.resolution().is_ok(),
            (Built::Gpu(x), _) => x.move_cursor(1, 2).is_ok(),
            (Built::NetRaw(x), "netraw.send") => x.send(&[0u8; 64]).is_ok(),
            (Built::NetRaw(x), "netraw.receive_begin") => {
                keep.push(vec![0u8; 2048]);
                let p: *mut [u8] = keep.last_mut().unwrap().as_mut_slice();
                // SAFETY: the buffer is kept alive in `keep` until after the driver is dropped.
                unsafe { x.receive_begin(&mut *p).is_ok() }
            }
            (Built::NetRaw(x), _) => {
                keep.push(vec![0u8; 64]);
                let p: *const [u8] = keep.last().unwrap().as_slice();
                // SAFETY: as above.
                unsafe { x.transmit_begin(&*p).is_ok() }
            }
            (Built::Net(x), _) => {
                let t = x.new_tx_buffer(64);
                x.send(t).is_ok()
            }
            (Built::Rng(x), _) => {
                let mut buf = [0u8; 16];
                x.request_entropy(&mut buf).is_ok()
            }
            (Built::Rtc(x), _) => x.read(0).is_ok(),
            (Built::Socket(x), _) => {
                use virtio_drivers::device::socket::{ConnectionInfo, VsockAddr};
                let info = ConnectionInfo::new(VsockAddr { cid: 2, port: 7 }, 5000);
                x.connect(&info).is_ok()
            }
            (Built::P9(x), _) => {
                let mut resp = [0u8; 16];
                x.request(&[1, 2, 3, 4], &mut resp).is_ok()
            }
            _ => false,
        });
        if let Err(p) = &res {
            c.fail(format!("[C05] {} panicked: {}", name, p));
        }
        let notified: BTreeMap<u16, usize> = {
            let s = st.borrow();
            let mut m = BTreeMap::new();
            for (_, e) in &s.log[mark..] {
                if let TCall::Notify(k) = e {
                    *m.entry(*k).or_insert(0) += 1;
                }
            }
            m
        };
        for (k, (flags, ae, idx0)) in &words {
            let reg = regs[*k as usize];
            let idx1 = rd16(reg.driver + 2);
            let added = idx1.wrapping_sub(*idx0);
            let n = notified.get(k).copied().unwrap_or(0);
            if *k == q {
                if added != 1 {
                    c.fail(format!("[C05] {}: expected exactly one entry on queue {}, the available index moved by {}", name, q, added));
                    continue;
                }
                // specification obligations, stated directly
                if !ev && *flags & 1 == 0 && n == 0 {
                    c.fail(format!("[C05] lost notification: {} made entry {} available on queue {} whose used.flags was 0 and did not notify it (the other queues' words: {:?})", name, idx0, q, words));
                }
                if !ev && *flags & 1 == 1 && n != 0 {
                    c.fail(format!("[C05] {} notified queue {} although the device had set VIRTQ_USED_F_NO_NOTIFY on it", name, q));
                }
                if ev && *ae == *idx0 && n == 0 {
                    c.fail(format!("[C05] lost notification: {} made entry {} available on queue {} whose avail_event was {} and did not notify it", name, idx0, q, ae));
                }
                c.step(
                    format!("queue decide ev={} flags={} avail_event={} idx={}", ev as u8, flags, ae, idx1),
                    format!("notified={}", (n > 0) as u8),
                );
                c.tag(format!("decide:{}:{}", name, (n > 0) as u8));
                c.nontrivial = true;
            } else if added != 0 {
                c.fail(format!("[C05] {} (queue {}) also moved the available index of queue {} by {}", name, q, k, added));
            }
        }
    }
    st.borrow_mut().on_notify = None;
    let errs = SERVE.with(|s| s.borrow_mut().take().map(|sv| sv.errors).unwrap_or_default());
    for e in errs {
        c.fail(format!("[C05] device: {}", e));
    }
    drop(b);
    drop(keep);
    let _ = hal::with(|h| std::mem::take(&mut h.violations));
    c
}

pub fn run_cases(ctx: &Ctx) -> Vec<Case> {
    virtio_drivers::verif_hooks::set_spin_hook(Some(serve_all));
    let n = ctx.tier.pick(360, 20000);
    let cases = crate::runner::par_cases(ctx, "C05", "drivers", n, |i, id| one_case(i, id, ctx.case_rng("C05-drivers", i)));
    virtio_drivers::verif_hooks::set_spin_hook(None);
    cases
}
