//! Reference split-virtqueue device, written from the VirtIO specification (§2.7): it sees only
//! device addresses (resolved through the ledger HAL), keeps its own fetch pointer, validates every
//! chain it fetches, and writes the used ring.

use crate::hal;

pub const F_NEXT: u16 = 1;
pub const F_WRITE: u16 = 2;
pub const F_INDIRECT: u16 = 4;

#[derive(Clone, Debug, PartialEq, Eq)]
pub struct Seg {
    pub addr: u64,
    pub len: u32,
    pub write: bool,
}

#[derive(Clone, Debug, PartialEq, Eq)]
pub struct Chain {
    pub head: u16,
    /// descriptor-table indices occupied by the chain (the head only, for an indirect chain)
    pub descs: Vec<u16>,
    pub segs: Vec<Seg>,
    pub indirect: bool,
}

#[derive(Clone, Debug)]
pub struct RefQueue {
    pub size: u16,
    pub desc: u64,
    pub avail: u64,
    pub used: u64,
    /// device's private copy of how many available entries it has consumed
    pub fetch_idx: u16,
    /// device's private used index
    pub used_idx: u16,
    /// whether indirect descriptors were negotiated (a chain using them otherwise is a violation)
    pub indirect_ok: bool,
    /// fetched but not yet completed
    pub inflight: Vec<Chain>,
}

fn rd16(a: u64) -> Result<u16, String> {
    let b = hal::dev_read(a, 2)?;
    Ok(u16::from_le_bytes([b[0], b[1]]))
}
fn wr16(a: u64, v: u16) -> Result<(), String> {
    hal::dev_write(a, &v.to_le_bytes())
}

#[derive(Clone, Copy, Debug)]
pub struct RawDesc {
    pub addr: u64,
    pub len: u32,
    pub flags: u16,
    pub next: u16,
}

pub fn read_desc(table: u64, i: usize) -> Result<RawDesc, String> {
    let b = hal::dev_read(table + 16 * i as u64, 16)?;
    Ok(RawDesc {
        addr: u64::from_le_bytes(b[0..8].try_into().unwrap()),
        len: u32::from_le_bytes(b[8..12].try_into().unwrap()),
        flags: u16::from_le_bytes(b[12..14].try_into().unwrap()),
        next: u16::from_le_bytes(b[14..16].try_into().unwrap()),
    })
}

impl RefQueue {
    pub fn new(size: u16, desc: u64, avail: u64, used: u64, indirect_ok: bool) -> Self {
        RefQueue { size, desc, avail, used, fetch_idx: 0, used_idx: 0, indirect_ok, inflight: vec![] }
    }

    pub fn avail_flags(&self) -> Result<u16, String> {
        rd16(self.avail)
    }
    pub fn avail_idx(&self) -> Result<u16, String> {
        rd16(self.avail + 2)
    }
    pub fn avail_ring(&self, slot: u16) -> Result<u16, String> {
        rd16(self.avail + 4 + 2 * slot as u64)
    }
    pub fn used_event(&self) -> Result<u16, String> {
        rd16(self.avail + 4 + 2 * self.size as u64)
    }
    pub fn set_used_flags(&self, v: u16) -> Result<(), String> {
        wr16(self.used, v)
    }
    pub fn set_avail_event(&self, v: u16) -> Result<(), String> {
        wr16(self.used + 4 + 8 * self.size as u64, v)
    }
    pub fn pending(&self) -> Result<u16, String> {
        Ok(self.avail_idx()?.wrapping_sub(self.fetch_idx))
    }

    /// Parses the chain starting at `head` exactly as a device would, validating it against §2.7.
    pub fn parse_chain(&self, head: u16) -> Result<Chain, String> {
        if head >= self.size {
            return Err(format!("available ring entry {} out of range", head));
        }
        let d = read_desc(self.desc, head as usize)?;
        if d.flags & F_INDIRECT != 0 {
            if !self.indirect_ok {
                return Err(format!("descriptor {} uses INDIRECT although the feature was not negotiated", head));
            }
            if d.flags & (F_NEXT | F_WRITE) != 0 {
                return Err(format!("indirect descriptor {} has NEXT or WRITE set (flags {:#x})", head, d.flags));
            }
            if d.len == 0 || d.len % 16 != 0 {
                return Err(format!("indirect table length {} not a positive multiple of 16", d.len));
            }
            let n = (d.len / 16) as usize;
            let mut segs = vec![];
            let mut i = 0usize;
            let mut seen_write = false;
            let mut steps = 0;
            loop {
                steps += 1;
                if steps > n {
                    return Err("indirect chain longer than its table (cycle)".into());
                }
                let e = read_desc(d.addr, i)?;
                if e.flags & F_INDIRECT != 0 {
                    return Err("nested indirect descriptor".into());
                }
                let w = e.flags & F_WRITE != 0;
                if seen_write && !w {
                    return Err("device-readable descriptor after device-writable one".into());
                }
                seen_write |= w;
                if e.len == 0 {
                    return Err("zero-length descriptor".into());
                }
                segs.push(Seg { addr: e.addr, len: e.len, write: w });
                if e.flags & F_NEXT == 0 {
                    break;
                }
                if e.next as usize >= n {
                    return Err(format!("indirect next {} out of table of {}", e.next, n));
                }
                i = e.next as usize;
            }
            return Ok(Chain { head, descs: vec![head], segs, indirect: true });
        }
        let mut segs = vec![];
        let mut descs = vec![];
        let mut i = head;
        let mut seen_write = false;
        loop {
            if descs.len() >= self.size as usize {
                return Err("descriptor chain longer than the queue (cycle)".into());
            }
            let e = read_desc(self.desc, i as usize)?;
            if e.flags & F_INDIRECT != 0 {
                return Err(format!("INDIRECT descriptor {} inside a chain", i));
            }
            let w = e.flags & F_WRITE != 0;
            if seen_write && !w {
                return Err("device-readable descriptor after device-writable one".into());
            }
            seen_write |= w;
            if e.len == 0 {
                return Err("zero-length descriptor".into());
            }
            descs.push(i);
            segs.push(Seg { addr: e.addr, len: e.len, write: w });
            if e.flags & F_NEXT == 0 {
                break;
            }
            if e.next >= self.size {
                return Err(format!("next {} out of range", e.next));
            }
            i = e.next;
        }
        Ok(Chain { head, descs, segs, indirect: false })
    }

    /// Fetches the next available entry (if any), validates it, checks it shares no descriptor with
    /// a chain still in flight and that every segment lies in memory shared with the device.
    pub fn fetch_one(&mut self) -> Result<Option<Chain>, String> {
        if self.pending()? == 0 {
            return Ok(None);
        }
        let slot = self.fetch_idx % self.size;
        let head = self.avail_ring(slot)?;
        let c = self.parse_chain(head)?;
        for o in &self.inflight {
            for d in &c.descs {
                if o.descs.contains(d) {
                    return Err(format!("descriptor {} belongs to two outstanding chains ({} and {})", d, o.head, c.head));
                }
            }
        }
        for s in &c.segs {
            hal::translate(s.addr, s.len as usize).map_err(|e| format!("chain {} segment not shared: {}", head, e))?;
        }
        self.fetch_idx = self.fetch_idx.wrapping_add(1);
        self.inflight.push(c.clone());
        Ok(Some(c))
    }

    pub fn fetch_all(&mut self) -> Result<Vec<Chain>, String> {
        let mut v = vec![];
        while let Some(c) = self.fetch_one()? {
            v.push(c);
        }
        Ok(v)
    }

    /// Reads all device-readable bytes of a chain.
    pub fn read_in(&self, c: &Chain) -> Result<Vec<u8>, String> {
        let mut v = vec![];
        for s in c.segs.iter().filter(|s| !s.write) {
            v.extend(hal::dev_read(s.addr, s.len as usize)?);
        }
        Ok(v)
    }

    pub fn writable_len(&self, c: &Chain) -> usize {
        c.segs.iter().filter(|s| s.write).map(|s| s.len as usize).sum()
    }

    /// Writes `data` into the device-writable part of the chain (scatter), returns bytes written.
    pub fn write_out(&self, c: &Chain, data: &[u8]) -> Result<usize, String> {
        let mut off = 0;
        for s in c.segs.iter().filter(|s| s.write) {
            if off >= data.len() {
                break;
            }
            let n = (s.len as usize).min(data.len() - off);
            hal::dev_write(s.addr, &data[off..off + n])?;
            off += n;
        }
        Ok(off)
    }

    /// Raw used-ring write (also used by hostile devices): element at the device's used index,
    /// then the index.
    pub fn push_used_raw(&mut self, id: u32, len: u32) -> Result<(), String> {
        let slot = (self.used_idx % self.size) as u64;
        let a = self.used + 4 + 8 * slot;
        let mut b = [0u8; 8];
        b[0..4].copy_from_slice(&id.to_le_bytes());
        b[4..8].copy_from_slice(&len.to_le_bytes());
        hal::dev_write(a, &b)?;
        self.used_idx = self.used_idx.wrapping_add(1);
        wr16(self.used + 2, self.used_idx)
    }

    /// Completes an in-flight chain (by head) with the given written length.
    pub fn complete(&mut self, head: u16, len: u32) -> Result<(), String> {
        let pos = self.inflight.iter().position(|c| c.head == head).ok_or_else(|| format!("refdev: chain {} not in flight", head))?;
        self.inflight.remove(pos);
        self.push_used_raw(head as u32, len)
    }
}
