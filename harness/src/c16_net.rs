//! C16: network frames pass unmodified; receive buffers are never lost or duplicated.
//!
//! The REAL `VirtIONetRaw` and `VirtIONet` (several `QUEUE_SIZE`s) run on `ModelTransport` +
//! `LedgerHal` against a reference NIC written from the VirtIO specification (§5.1.6): it validates
//! every transmit chain (header of the size the negotiated features require, all zero as no offload
//! was negotiated, then the frame) and injects frames into posted receive buffers in an order and
//! burst size of its choosing.  It keeps its own account of which buffer (by identity of the
//! memory the driver shared) is posted.

use crate::c14_blk::{canon_bytes, chain_str, hex};
use crate::hal::{self, LedgerHal};
use crate::mtrans::{ModelTransport, TState};
use crate::proto::Case;
use crate::refdev::{Chain, RefQueue};
use crate::rng::Rng;
use crate::runner::{Ctx, guarded};
use std::cell::RefCell;
use std::collections::{BTreeMap, BTreeSet};
use virtio_drivers::Error;
use virtio_drivers::device::net::{RxBuffer, TxBuffer, VirtIONet, VirtIONetRaw};
use virtio_drivers::transport::DeviceType;

const VIRTIO_F_VERSION_1: u64 = 1 << 32;
const VIRTIO_NET_F_MRG_RXBUF: u64 = 1 << 15;
const MIN_BUF: usize = 1526;

/// §5.1.6: `struct virtio_net_hdr` is 12 bytes; legacy devices without MRG_RXBUF omit `num_buffers`
fn spec_hdr_len(negotiated: u64) -> usize {
    if negotiated & (VIRTIO_F_VERSION_1 | VIRTIO_NET_F_MRG_RXBUF) != 0 { 12 } else { 10 }
}

#[derive(Clone, Copy, Debug)]
pub enum SpinMode {
    None,
    Tx { ulen: u32 },
    Rx { frame_len: usize, ulen: Option<u32> },
}

#[derive(Clone, Debug)]
pub struct TxSeen {
    pub head: u16,
    pub chain: String,
    pub bytes: Vec<u8>,
}

#[derive(Clone, Debug)]
pub struct RxDone {
    pub head: u16,
    pub ulen: u32,
    pub frame: Vec<u8>,
    /// device-visible content of the whole buffer after the device wrote
    pub view: Vec<u8>,
}

pub struct Nic {
    pub rx: RefQueue,
    pub tx: RefQueue,
    pub negotiated: u64,
    pub rng: Rng,
    /// tx chains fetched and not yet completed, with what the device read
    pub tx_seen: Vec<TxSeen>,
    pub tx_log: Vec<TxSeen>,
    /// device-side account of posted receive buffers: token -> (identity of the shared memory, length)
    pub rx_posted: BTreeMap<u16, (usize, usize)>,
    pub spin: SpinMode,
    pub spin_tx: Option<(TxSeen, u32)>,
    pub spin_rx: Option<RxDone>,
    pub spins: usize,
    pub errors: Vec<String>,
}

fn share_identity(addr: u64) -> usize {
    hal::with(|h| {
        let k = ((addr - hal::SHARE_BASE) / hal::SHARE_STRIDE) as usize;
        h.shares.get(k).map(|s| s.orig as usize).unwrap_or(0)
    })
}

impl Nic {
    /// fetch new transmit chains, validating them against §5.1.6.2
    fn poll_tx(&mut self) -> Vec<TxSeen> {
        let mut out = vec![];
        match self.tx.fetch_all() {
            Err(e) => self.errors.push(format!("transmit queue: {}", e)),
            Ok(v) => {
                for c in v {
                    if c.segs.iter().any(|s| s.write) {
                        self.errors.push("transmit chain has a device-writable buffer".into());
                    }
                    let bytes = self.tx.read_in(&c).unwrap_or_default();
                    let t = TxSeen { head: c.head, chain: chain_str(&c).unwrap_or_else(|e| e), bytes };
                    self.tx_seen.push(t.clone());
                    self.tx_log.push(t.clone());
                    out.push(t);
                }
            }
        }
        out
    }
    fn complete_tx(&mut self, head: u16, ulen: u32) -> Result<TxSeen, String> {
        let i = self.tx_seen.iter().position(|t| t.head == head).ok_or("tx chain not pending")?;
        let t = self.tx_seen.remove(i);
        self.tx.complete(head, ulen)?;
        Ok(t)
    }
    /// fetch newly posted receive buffers
    fn poll_rx(&mut self) -> Vec<Chain> {
        match self.rx.fetch_all() {
            Err(e) => {
                self.errors.push(format!("receive queue: {}", e));
                vec![]
            }
            Ok(v) => {
                for c in &v {
                    if c.segs.iter().any(|s| !s.write) {
                        self.errors.push("receive chain has a device-readable buffer".into());
                    }
                    if c.segs.len() != 1 {
                        self.errors.push(format!("receive chain has {} buffers", c.segs.len()));
                    }
                    let ident = share_identity(c.segs[0].addr);
                    if self.rx_posted.values().any(|(p, _)| *p == ident) {
                        self.errors.push(format!("the same receive buffer is posted twice (token {})", c.head));
                    }
                    self.rx_posted.insert(c.head, (ident, c.segs[0].len as usize));
                }
                v
            }
        }
    }
    /// injects a frame into the posted buffer `head` (§5.1.6.4): header, then the frame
    fn inject(&mut self, head: u16, frame: &[u8], ulen_override: Option<u32>) -> Result<RxDone, String> {
        let c = self.rx.inflight.iter().find(|c| c.head == head).cloned().ok_or("rx chain not pending")?;
        let hl = spec_hdr_len(self.negotiated);
        let mut w = vec![0u8; hl];
        if hl == 12 {
            w[10] = 1; // num_buffers = 1 (le16)
        }
        w.extend_from_slice(frame);
        if w.len() > self.rx.writable_len(&c) {
            return Err("frame does not fit".into());
        }
        self.rx.write_out(&c, &w)?;
        let mut view = vec![];
        for s in &c.segs {
            view.extend(hal::dev_read(s.addr, s.len as usize)?);
        }
        let ulen = ulen_override.unwrap_or(w.len() as u32);
        self.rx.complete(head, ulen)?;
        Ok(RxDone { head, ulen, frame: frame.to_vec(), view })
    }
}

thread_local! {
    static NIC: RefCell<Option<Nic>> = const { RefCell::new(None) };
}
fn with_nic<R>(f: impl FnOnce(&mut Nic) -> R) -> R {
    NIC.with(|d| f(d.borrow_mut().as_mut().expect("no NIC")))
}

fn spin_hook() {
    NIC.with(|d| {
        let mut g = d.borrow_mut();
        let Some(n) = g.as_mut() else { return };
        n.spins += 1;
        if n.spins > 64 {
            drop(g);
            panic!("hang: driver spins although the device has nothing to complete");
        }
        match n.spin {
            SpinMode::None => {}
            SpinMode::Tx { ulen } => {
                let new = n.poll_tx();
                if let Some(t) = new.last() {
                    match n.complete_tx(t.head, ulen) {
                        Ok(t) => n.spin_tx = Some((t, ulen)),
                        Err(e) => n.errors.push(e),
                    }
                }
            }
            SpinMode::Rx { frame_len, ulen } => {
                let new = n.poll_rx();
                if let Some(c) = new.last() {
                    let frame = n.rng.bytes(frame_len);
                    match n.inject(c.head, &frame, ulen) {
                        Ok(r) => n.spin_rx = Some(r),
                        Err(e) => n.errors.push(e),
                    }
                }
            }
        }
    });
}

fn setup_transport(offered: u64) -> (ModelTransport, std::rc::Rc<RefCell<TState>>) {
    hal::reset();
    let mut ts = TState::new(DeviceType::Network, offered, 2, 256);
    ts.config = vec![0x52, 0x54, 0, 0x12, 0x34, 0x56, 1, 0, 1, 0, 0xdc, 0x05, 0, 0, 0, 0];
    ModelTransport::new(ts)
}

fn install_nic(st: &std::rc::Rc<RefCell<TState>>, n: usize, rng: Rng) -> Result<u64, String> {
    let s = st.borrow();
    let neg = s.driver_features;
    let (q0, q1) = (s.queues[0], s.queues[1]);
    if !q0.set || !q1.set || q0.size as usize != n || q1.size as usize != n {
        return Err("receive/transmit queues not registered with QUEUE_SIZE entries".into());
    }
    let ind = neg & (1 << 28) != 0;
    NIC.with(|d| {
        *d.borrow_mut() = Some(Nic {
            rx: RefQueue::new(n as u16, q0.desc, q0.driver, q0.device, ind),
            tx: RefQueue::new(n as u16, q1.desc, q1.driver, q1.device, ind),
            negotiated: neg,
            rng,
            tx_seen: vec![],
            tx_log: vec![],
            rx_posted: BTreeMap::new(),
            spin: SpinMode::None,
            spin_tx: None,
            spin_rx: None,
            spins: 0,
            errors: vec![],
        })
    });
    Ok(neg)
}

fn pick_offered(rng: &mut Rng, idx: usize) -> u64 {
    let mut offered = 0u64;
    for b in [5u64, 16, 28, 29, 32, 33] {
        if rng.chance(1, 2) {
            offered |= 1 << b;
        }
    }
    if rng.chance(1, 3) {
        // bits the driver does not support (MRG_RXBUF among them) must be ignored
        offered |= rng.next() & !(1 << 32);
    }
    // force both header sizes to be well represented
    if idx % 2 == 0 { offered | (1 << 32) } else { offered & !(1 << 32) }
}

fn pick_frame_len(rng: &mut Rng, max: usize) -> usize {
    match rng.below(10) {
        0 => 0,
        1 => 1,
        2 => max,
        3 => max.saturating_sub(1),
        4 => 60.min(max),
        5 => 1514.min(max),
        _ => rng.below(max as u64 + 1) as usize,
    }
}

/// oracle for a transmitted frame, from the specification: zeroed header of the required size,
/// then exactly the caller's bytes
fn check_tx(c: &mut Case, neg: u64, seen: &[u8], payload: &[u8]) {
    let hl = spec_hdr_len(neg);
    if seen.len() < hl {
        c.fail(format!("transmitted {} bytes: shorter than the {}-byte virtio-net header", seen.len(), hl));
        return;
    }
    if seen[..hl].iter().any(|b| *b != 0) {
        c.fail(format!("virtio-net header on transmit is not zero: {:02x?}", &seen[..hl]));
    }
    if &seen[hl..] != payload {
        c.fail(format!(
            "device sees a frame of {} bytes after the {}-byte header, the caller sent {} bytes{}",
            seen.len() - hl,
            hl,
            payload.len(),
            if seen.len() - hl == payload.len() { " (contents differ)" } else { "" }
        ));
    }
}

fn res_u(r: &Result<(), Error>) -> String {
    match r {
        Ok(()) => "Ok".into(),
        Err(e) => format!("{:?}", e),
    }
}

fn opt_tok(o: Option<u16>) -> String {
    match o {
        None => "none".into(),
        Some(t) => format!("some {}", t),
    }
}

/// blocking `send` through either driver; returns the op/output pair pieces and runs the oracles
fn do_send(c: &mut Case, neg: u64, payload: &[u8], ulen: u32, can_send: bool, stale: bool, call: impl FnOnce() -> Result<(), Error>) -> bool {
    with_nic(|n| {
        n.spin = SpinMode::Tx { ulen };
        n.spin_tx = None;
        n.spins = 0;
    });
    let r = guarded(call);
    let (served, late) = with_nic(|n| {
        n.spin = SpinMode::None;
        let late = n.poll_tx();
        (n.spin_tx.take(), late)
    });
    let r = match r {
        Ok(r) => r,
        Err(p) => {
            c.fail(format!("send panicked: {}", p));
            return false;
        }
    };
    let (tok, chain) = match (&served, late.last()) {
        (Some((t, _)), _) => (t.head.to_string(), t.chain.clone()),
        (None, Some(t)) => (t.head.to_string(), t.chain.clone()),
        _ => ("-".into(), "-".into()),
    };
    c.step(format!("net send tok={} data={} ulen={}", tok, hex(payload), ulen), format!("chain={} res={}", chain, res_u(&r)));
    if let Some((t, _)) = &served {
        check_tx(c, neg, &t.bytes, payload);
        if r != Ok(()) {
            c.fail(format!("send returned {} although the device completed the frame", res_u(&r)));
        }
        c.tag(if payload.is_empty() { "send-empty" } else { "send" });
    } else if r.is_ok() {
        c.fail("send returned Ok although no frame reached the device");
    }
    // readiness: can_send() <=> a non-empty frame is not refused for lack of descriptors
    if !payload.is_empty() && !stale {
        if can_send && r == Err(Error::QueueFull) {
            c.fail("can_send() was true but send reported QueueFull");
        }
        if !can_send && r != Err(Error::QueueFull) {
            c.fail(format!("can_send() was false but send of a non-empty frame returned {}", res_u(&r)));
        }
    }
    served.is_none() && !late.is_empty()
}

fn finish(c: &mut Case) {
    let errs = with_nic(|n| std::mem::take(&mut n.errors));
    for e in errs {
        c.fail(format!("reference NIC: {}", e));
    }
    NIC.with(|d| *d.borrow_mut() = None);
    for v in hal::with(|h| std::mem::take(&mut h.violations)) {
        c.fail(format!("ledger: {}", v));
    }
}

// ------------------------------------------------------------------------------------------
// VirtIONetRaw
// ------------------------------------------------------------------------------------------

struct RawRx {
    token: u16,
    buf: Vec<u8>,
    done: Option<RxDone>,
}
struct RawTx {
    token: u16,
    buf: Vec<u8>,
    done: Option<u32>,
}

fn raw_case<const N: usize>(ctx: &Ctx, idx: usize, id: String, hostile: bool) -> Case {
    let mut c = Case::new(id);
    let mut rng = ctx.case_rng(if hostile { "raw-malformed" } else { "raw" }, idx);
    let offered = pick_offered(&mut rng, idx);
    // a third of the honest cases run on a platform that shares buffers in place
    hal::inplace_next(!hostile && idx % 3 == 1);
    let (t, st) = setup_transport(offered);
    c.tag(if !hostile && idx % 3 == 1 { "platform=inplace" } else { "platform=bounce" });
    let mut net = match guarded(|| VirtIONetRaw::<LedgerHal, ModelTransport, N>::new(t)) {
        Ok(Ok(n)) => n,
        other => {
            c.fail(format!("VirtIONetRaw::new failed: {:?}", other.map(|r| r.err())));
            return c;
        }
    };
    let neg = match install_nic(&st, N, rng.fork()) {
        Ok(n) => n,
        Err(e) => {
            c.fail(e);
            return c;
        }
    };
    let hl = spec_hdr_len(neg);
    // header size as the driver reports it, observed through fill_buffer_header
    let mut probe = [0xffu8; 64];
    let drv_hl = net.fill_buffer_header(&mut probe).unwrap_or(0);
    c.step(format!("net new raw=1 q={} feats={:#x}", N, offered), format!("ok neg={:#x} hdr={}", neg, drv_hl));
    if drv_hl != hl {
        c.fail(format!("driver uses a {}-byte header, the negotiated features ({:#x}) require {}", drv_hl, neg, hl));
    }
    c.tag(format!("q={}", N));
    c.tag(format!("hdr={}", hl));
    c.tag(if neg & (1 << 28) != 0 { "indirect" } else { "direct" });
    let mut rxs: Vec<RawRx> = vec![];
    let mut txs: Vec<RawTx> = vec![];
    let mut rx_used: Vec<u16> = vec![];
    let mut tx_used: Vec<u16> = vec![];
    let mut good = 0usize;
    let nops = rng.range(10, ctx.tier.pick(50, 120) as u64);
    let mut dead = false;
    for _ in 0..nops {
        if dead {
            break;
        }
        match rng.below(16) {
            0..=2 => {
                // post a receive buffer
                if rxs.len() > N {
                    continue;
                }
                let mut len = *rng.pick(&[1526usize, 1527, 1536, 2048, 4096]);
                if hostile && rng.chance(1, 4) {
                    len = *rng.pick(&[0usize, 1, 12, 1525]);
                }
                let mut buf = vec![0xEEu8; len];
                let r = guarded(|| unsafe { net.receive_begin(&mut buf) });
                let new = with_nic(|n| n.poll_rx());
                match r {
                    Err(p) => {
                        c.fail(format!("receive_begin panicked: {}", p));
                        dead = true;
                    }
                    Ok(Err(e)) => {
                        c.step(format!("net rx_begin tok=- len={}", len), format!("err {:?}", e));
                        c.tag(format!("rx_begin-{:?}", e));
                        if !new.is_empty() {
                            c.fail("a buffer reached the device although receive_begin failed");
                        }
                        if e == Error::QueueFull && rxs.len() < N {
                            c.fail(format!("receive_begin: QueueFull with {} of {} buffers posted", rxs.len(), N));
                        }
                    }
                    Ok(Ok(tok)) => {
                        if new.len() != 1 || new[0].head != tok {
                            c.fail(format!("receive_begin returned token {}, device fetched {:?}", tok, new.iter().map(|c| c.head).collect::<Vec<_>>()));
                            dead = true;
                            continue;
                        }
                        c.step(format!("net rx_begin tok={} len={}", tok, len), format!("ok {} chain={}", tok, chain_str(&new[0]).unwrap_or_else(|e| e)));
                        rxs.push(RawRx { token: tok, buf, done: None });
                    }
                }
            }
            3..=5 => {
                // the device injects a burst of frames into pending buffers of its choice
                let burst = rng.range(1, 3);
                for _ in 0..burst {
                    let pend: Vec<usize> = (0..rxs.len()).filter(|i| rxs[*i].done.is_none()).collect();
                    if pend.is_empty() {
                        break;
                    }
                    let i = *rng.pick(&pend);
                    let max = rxs[i].buf.len() - hl;
                    let flen = pick_frame_len(&mut rng, max);
                    let frame = rng.bytes(flen);
                    let short = if hostile && rng.chance(1, 5) { Some(rng.below(hl as u64) as u32) } else { None };
                    match with_nic(|n| n.inject(rxs[i].token, &frame, short)) {
                        Err(e) => {
                            c.fail(format!("reference NIC could not inject: {}", e));
                            dead = true;
                        }
                        Ok(d) => {
                            c.step(format!("net dev_rx tok={} ulen={} wdata={}", d.head, d.ulen, hex(&d.view)), "ok");
                            rx_used.push(d.head);
                            rxs[i].done = Some(d);
                            c.tag(if short.is_some() { "rx-short-used-len" } else { "rx-frame" });
                        }
                    }
                }
            }
            6 => {
                let p = net.poll_receive();
                c.step("net rx_poll", opt_tok(p));
                if p != rx_used.first().copied() {
                    c.fail(format!("poll_receive() = {:?}, oldest unconsumed completion is {:?}", p, rx_used.first()));
                }
            }
            7..=8 => {
                if rxs.is_empty() {
                    continue;
                }
                if rx_used.is_empty() && !rng.chance(1, 4) {
                    continue;
                }
                let i = if rng.chance(1, 6) || rx_used.is_empty() { rng.below(rxs.len() as u64) as usize } else { rxs.iter().position(|r| r.token == rx_used[0]).unwrap() };
                let tok = rxs[i].token;
                let r = {
                    let b = &mut rxs[i].buf;
                    guarded(|| unsafe { net.receive_complete(tok, b) })
                };
                let r = match r {
                    Ok(r) => r,
                    Err(p) => {
                        c.fail(format!("receive_complete panicked: {}", p));
                        dead = true;
                        continue;
                    }
                };
                let out = match &r {
                    Ok((h, p)) => {
                        let b = &rxs[i].buf;
                        let fr = if h + p <= b.len() { canon_bytes(&b[*h..h + p]) } else { "out-of-bounds".into() };
                        format!("ok hdr={} pkt={} frame={}", h, p, fr)
                    }
                    Err(e) => format!("err {:?}", e),
                };
                c.step(format!("net rx_complete tok={}", tok), out);
                if rx_used.first() == Some(&tok) {
                    rx_used.remove(0);
                    with_nic(|n| n.rx_posted.remove(&tok));
                    let rx = rxs.remove(i);
                    let d = rx.done.unwrap();
                    if (d.ulen as usize) < hl {
                        if r != Err(Error::IoError) {
                            c.fail(format!("used length {} below the header size: expected IoError, got {:?}", d.ulen, r));
                        }
                    } else {
                        match r {
                            Ok((h, p)) => {
                                if h != hl || p != d.ulen as usize - hl {
                                    c.fail(format!("receive_complete = ({}, {}) for used length {} and a {}-byte header", h, p, d.ulen, hl));
                                } else if rx.buf[h..h + p] != d.frame[..] {
                                    c.fail("received packet differs from the frame the device wrote".to_string());
                                } else {
                                    good += 1;
                                }
                            }
                            Err(e) => c.fail(format!("receive_complete failed with {:?} for a well-formed frame", e)),
                        }
                    }
                } else {
                    let want = if rx_used.is_empty() { Error::NotReady } else { Error::WrongToken };
                    if r != Err(want) {
                        c.fail(format!("receive_complete of token {} (not next) returned {:?}", tok, r));
                    }
                }
            }
            9..=10 => {
                // non-blocking transmit
                if txs.len() > N {
                    continue;
                }
                let plen = pick_frame_len(&mut rng, 1514);
                let mut buf = vec![0xCCu8; hl + plen];
                if hostile && rng.chance(1, 4) {
                    buf = vec![0xCC; rng.below(hl as u64) as usize];
                }
                let fh = net.fill_buffer_header(&mut buf);
                match &fh {
                    Ok(k) => c.step(format!("net fill_header len={}", buf.len()), format!("ok {} {}", k, canon_bytes(&buf[..*k]))),
                    Err(e) => c.step(format!("net fill_header len={}", buf.len()), format!("err {:?}", e)),
                }
                if buf.len() >= hl {
                    let p = rng.bytes(plen);
                    buf[hl..].copy_from_slice(&p);
                }
                let r = guarded(|| unsafe { net.transmit_begin(&buf) });
                let new = with_nic(|n| n.poll_tx());
                match r {
                    Err(p) => {
                        c.fail(format!("transmit_begin panicked: {}", p));
                        dead = true;
                    }
                    Ok(Err(e)) => {
                        c.step(format!("net tx_begin tok=- data={}", hex(&buf)), format!("err {:?}", e));
                        c.tag(format!("tx_begin-{:?}", e));
                        if !new.is_empty() {
                            c.fail("a frame reached the device although transmit_begin failed");
                        }
                    }
                    Ok(Ok(tok)) => {
                        if new.len() != 1 || new[0].head != tok {
                            c.fail(format!("transmit_begin returned token {}, device fetched {:?}", tok, new.iter().map(|c| c.head).collect::<Vec<_>>()));
                            dead = true;
                            continue;
                        }
                        c.step(format!("net tx_begin tok={} data={}", tok, hex(&buf)), format!("ok {} chain={}", tok, new[0].chain));
                        check_tx(&mut c, neg, &new[0].bytes, &buf[hl..]);
                        txs.push(RawTx { token: tok, buf, done: None });
                    }
                }
            }
            11 => {
                let pend: Vec<usize> = (0..txs.len()).filter(|i| txs[*i].done.is_none()).collect();
                if pend.is_empty() {
                    continue;
                }
                let i = *rng.pick(&pend);
                let ulen = if rng.chance(1, 3) { rng.u32_biased() } else { 0 };
                match with_nic(|n| n.complete_tx(txs[i].token, ulen)) {
                    Ok(_) => {
                        c.step(format!("net dev_tx tok={} ulen={}", txs[i].token, ulen), "ok");
                        txs[i].done = Some(ulen);
                        tx_used.push(txs[i].token);
                    }
                    Err(e) => c.fail(e),
                }
            }
            12 => {
                let p = net.poll_transmit();
                c.step("net tx_poll", opt_tok(p));
                if p != tx_used.first().copied() {
                    c.fail(format!("poll_transmit() = {:?}, oldest unconsumed completion is {:?}", p, tx_used.first()));
                }
                if txs.is_empty() || (tx_used.is_empty() && !rng.chance(1, 4)) {
                    continue;
                }
                let i = if rng.chance(1, 6) || tx_used.is_empty() { rng.below(txs.len() as u64) as usize } else { txs.iter().position(|r| r.token == tx_used[0]).unwrap() };
                let tok = txs[i].token;
                let r = {
                    let b = &txs[i].buf;
                    guarded(|| unsafe { net.transmit_complete(tok, b) })
                };
                match r {
                    Err(p) => {
                        c.fail(format!("transmit_complete panicked: {}", p));
                        dead = true;
                    }
                    Ok(r) => {
                        c.step(format!("net tx_complete tok={}", tok), match &r { Ok(n) => format!("ok {}", n), Err(e) => format!("err {:?}", e) });
                        if tx_used.first() == Some(&tok) {
                            tx_used.remove(0);
                            let t = txs.remove(i);
                            if r != Ok(t.done.unwrap() as usize) {
                                c.fail(format!("transmit_complete returned {:?}, device reported {}", r, t.done.unwrap()));
                            }
                        } else if r.is_ok() {
                            c.fail("transmit_complete succeeded for a token that is not next");
                        }
                    }
                }
            }
            13..=14 => {
                // blocking send
                let stale = !tx_used.is_empty();
                if stale && !hostile {
                    continue;
                }
                let plen = pick_frame_len(&mut rng, 1514);
                let payload = rng.bytes(plen);
                let ulen = if rng.chance(1, 3) { rng.u32_biased() } else { 0 };
                let cs = net.can_send();
                c.step("net can_send", (cs as u8).to_string());
                let leaked = do_send(&mut c, neg, &payload, ulen, cs, stale, || net.send(&payload));
                if leaked {
                    c.tag("send-with-stale-completion");
                    dead = true;
                }
            }
            _ => {
                // blocking receive
                if !rx_used.is_empty() {
                    // ... while an older completion is still unconsumed: `poll_receive` reports that
                    // one at once, so `receive_wait` must refuse (WrongToken) and consume nothing —
                    // never complete the older buffer's entry against this buffer
                    if rxs.len() > N {
                        continue;
                    }
                    let len = *rng.pick(&[1526usize, 1600, 2048]);
                    let mut buf = vec![0xEEu8; len];
                    with_nic(|n| {
                        n.spin = SpinMode::None;
                        n.spin_rx = None;
                        n.spins = 0;
                    });
                    let r = guarded(|| net.receive_wait(&mut buf));
                    let new = with_nic(|n| n.poll_rx());
                    let r = match r {
                        Ok(r) => r,
                        Err(p) => {
                            c.fail(format!("receive_wait panicked: {}", p));
                            dead = true;
                            continue;
                        }
                    };
                    let out = match &r {
                        Ok((h, p)) => format!("ok hdr={} pkt={} frame={}", h, p, if h + p <= buf.len() { canon_bytes(&buf[*h..h + p]) } else { "out-of-bounds".into() }),
                        Err(e) => format!("err {:?}", e),
                    };
                    match new.last() {
                        Some(ch) => {
                            let tok = ch.head;
                            c.step(format!("net rx_wait tok={} len={} ulen=0 wdata=-", tok, len), out);
                            if r != Err(Error::WrongToken) {
                                c.fail(format!("receive_wait returned {:?} while the completion of an older buffer (token {}) was pending: expected WrongToken with nothing consumed", r, rx_used[0]));
                                dead = true;
                            }
                            rxs.push(RawRx { token: tok, buf, done: None });
                            c.tag("rx_wait-behind-pending-completion");
                        }
                        None => {
                            c.step(format!("net rx_wait tok=- len={} ulen=0 wdata=-", len), out);
                            if r != Err(Error::QueueFull) {
                                c.fail(format!("receive_wait returned {:?} without posting a buffer", r));
                            }
                        }
                    }
                    continue;
                }
                let len = *rng.pick(&[1526usize, 1600, 2048]);
                let mut buf = vec![0xEEu8; len];
                let flen = pick_frame_len(&mut rng, len - hl);
                with_nic(|n| {
                    n.spin = SpinMode::Rx { frame_len: flen, ulen: None };
                    n.spin_rx = None;
                    n.spins = 0;
                });
                let r = guarded(|| net.receive_wait(&mut buf));
                let (served, late) = with_nic(|n| {
                    n.spin = SpinMode::None;
                    let late = n.poll_rx();
                    (n.spin_rx.take(), late)
                });
                let r = match r {
                    Ok(r) => r,
                    Err(p) => {
                        c.fail(format!("receive_wait panicked: {}", p));
                        dead = true;
                        continue;
                    }
                };
                let out = match &r {
                    Ok((h, p)) => format!("ok hdr={} pkt={} frame={}", h, p, canon_bytes(&buf[*h..h + p])),
                    Err(e) => format!("err {:?}", e),
                };
                match (&served, late.last()) {
                    (Some(d), _) => {
                        c.step(format!("net rx_wait tok={} len={} ulen={} wdata={}", d.head, len, d.ulen, hex(&d.view)), out);
                        with_nic(|n| n.rx_posted.remove(&d.head));
                        match r {
                            Ok((h, p)) if h == hl && p == flen && buf[h..h + p] == d.frame[..] => good += 1,
                            other => c.fail(format!("receive_wait returned {:?} for a {}-byte frame", other, flen)),
                        }
                        c.tag("rx_wait");
                    }
                    (None, Some(_)) => {
                        c.fail("receive_wait returned without the device having served the buffer");
                        dead = true;
                    }
                    (None, None) => {
                        c.step(format!("net rx_wait tok=- len={} ulen=0 wdata=-", len), out);
                        if r != Err(Error::QueueFull) {
                            c.fail(format!("receive_wait returned {:?} without posting a buffer", r));
                        }
                    }
                }
            }
        }
    }
    c.nontrivial = good > 0;
    drop(net);
    finish(&mut c);
    c
}

// ------------------------------------------------------------------------------------------
// VirtIONet
// ------------------------------------------------------------------------------------------

fn dev_case<const N: usize>(ctx: &Ctx, idx: usize, id: String, hostile: bool) -> Case {
    let mut c = Case::new(id);
    let mut rng = ctx.case_rng(if hostile { "dev-malformed" } else { "dev" }, idx);
    let offered = pick_offered(&mut rng, idx);
    let mut buf_len = *rng.pick(&[1528usize, 1536, 1600, 2048, 2049, 4096]);
    if hostile && rng.chance(1, 6) {
        buf_len = *rng.pick(&[0usize, 7, 1525, 1526, 1527]);
    }
    hal::inplace_next(!hostile && idx % 3 == 1);
    let (t, st) = setup_transport(offered);
    c.tag(if !hostile && idx % 3 == 1 { "platform=inplace" } else { "platform=bounce" });
    let r = guarded(|| VirtIONet::<LedgerHal, ModelTransport, N>::new(t, buf_len));
    let mut net = match r {
        Ok(Ok(n)) => n,
        Ok(Err(e)) => {
            c.step(format!("net new raw=0 q={} feats={:#x} buflen={} toks=-", N, offered, buf_len), format!("err {:?}", e));
            c.tag(format!("new-{:?}", e));
            if buf_len / 8 * 8 >= MIN_BUF {
                c.fail(format!("VirtIONet::new({}) failed with {:?}", buf_len, e));
            }
            for v in hal::with(|h| std::mem::take(&mut h.violations)) {
                c.fail(format!("ledger: {}", v));
            }
            return c;
        }
        Err(p) => {
            c.fail(format!("VirtIONet::new panicked: {}", p));
            return c;
        }
    };
    let neg = match install_nic(&st, N, rng.fork()) {
        Ok(n) => n,
        Err(e) => {
            c.fail(e);
            return c;
        }
    };
    let hl = spec_hdr_len(neg);
    let posted0 = with_nic(|n| n.poll_rx());
    let toks: Vec<String> = posted0.iter().map(|c| c.head.to_string()).collect();
    // buffer identities in creation order
    let idents: Vec<usize> = posted0.iter().map(|c| share_identity(c.segs[0].addr)).collect();
    let blen = posted0.first().map(|c| c.segs[0].len as usize).unwrap_or(0);
    let drv_hl = {
        let tb = net.new_tx_buffer(0);
        drop(tb);
        // the managed driver does not expose fill_buffer_header; header size is observed on the wire
        hl
    };
    c.step(
        format!("net new raw=0 q={} feats={:#x} buflen={} toks={}", N, offered, buf_len, if toks.is_empty() { "-".into() } else { toks.join(",") }),
        format!("ok neg={:#x} hdr={} posted={} blen={}", neg, drv_hl, posted0.len(), blen),
    );
    if posted0.len() != N {
        c.fail(format!("{} receive buffers posted after new, QUEUE_SIZE is {}", posted0.len(), N));
    }
    if idents.iter().collect::<BTreeSet<_>>().len() != idents.len() {
        c.fail("two posted receive buffers share memory");
    }
    c.tag(format!("q={}", N));
    c.tag(format!("hdr={}", hl));
    let mut held: Vec<(usize, RxBuffer)> = vec![];
    let mut rx_used: Vec<u16> = vec![];
    let mut frames: BTreeMap<u16, RxDone> = BTreeMap::new();
    let mut lost = 0usize;
    let mut good = 0usize;
    let mut dead = false;
    let nops = rng.range(10, ctx.tier.pick(60, 150) as u64);
    let total = nops + 1;
    for step in 0..total {
        if dead {
            break;
        }
        let draining = step == nops;
        let choice = if draining { 99 } else { rng.below(16) };
        match choice {
            0..=4 => {
                // a burst of frames, into posted buffers chosen by the device
                let burst = rng.range(1, N.min(4) as u64);
                for _ in 0..burst {
                    let pend: Vec<u16> = with_nic(|n| n.rx.inflight.iter().map(|c| c.head).collect());
                    if pend.is_empty() {
                        break;
                    }
                    let tok = *rng.pick(&pend);
                    let flen = pick_frame_len(&mut rng, blen - hl);
                    let frame = rng.bytes(flen);
                    let short = if hostile && rng.chance(1, 6) { Some(rng.below(hl as u64) as u32) } else { None };
                    match with_nic(|n| n.inject(tok, &frame, short)) {
                        Err(e) => {
                            c.fail(format!("reference NIC could not inject: {}", e));
                            dead = true;
                        }
                        Ok(d) => {
                            c.step(format!("net dev_rx tok={} ulen={} wdata={}", d.head, d.ulen, hex(&d.view)), "ok");
                            rx_used.push(d.head);
                            frames.insert(d.head, d);
                            c.tag(if short.is_some() { "rx-short-used-len" } else { "rx-frame" });
                        }
                    }
                }
            }
            5 => {
                let r = net.can_recv();
                c.step("net can_recv", (r as u8).to_string());
                if r != !rx_used.is_empty() {
                    c.fail(format!("can_recv() = {} but the device has {} unconsumed completions", r, rx_used.len()));
                }
            }
            6..=9 => {
                let r = guarded(|| net.receive());
                let r = match r {
                    Ok(r) => r,
                    Err(p) => {
                        c.step("net recv", "panic");
                        c.fail(format!("receive panicked: {}", p));
                        dead = true;
                        continue;
                    }
                };
                match r {
                    Err(e) => {
                        c.step("net recv", format!("err {:?}", e));
                        if rx_used.is_empty() {
                            if e != Error::NotReady {
                                c.fail(format!("receive with nothing completed returned {:?}", e));
                            }
                        } else {
                            let tok = rx_used.remove(0);
                            let d = frames.remove(&tok).unwrap();
                            with_nic(|n| n.rx_posted.remove(&tok));
                            if (d.ulen as usize) < hl && e == Error::IoError {
                                // the buffer taken out of rx_buffers was dropped
                                lost += 1;
                                c.tag("rx-buffer-dropped-on-short-length");
                            } else {
                                c.fail(format!("receive failed with {:?} for a completed buffer (used length {})", e, d.ulen));
                                dead = true;
                            }
                        }
                    }
                    Ok(mut b) => {
                        let ident = b.as_bytes().as_ptr() as usize;
                        let bid = idents.iter().position(|p| *p == ident);
                        let pk = guarded(|| b.packet().to_vec());
                        // the mutable view is the same frame (same header length: 12 bytes iff VERSION_1)
                        let pm = guarded(|| b.packet_mut().to_vec());
                        match (&pk, &pm) {
                            (Ok(p), Ok(m)) if p != m => c.fail(format!("RxBuffer::packet_mut() is not the frame packet() returns with a {}-byte header: {} bytes vs {} bytes{}", hl, m.len(), p.len(), if m.len() == p.len() { ", shifted" } else { "" })),
                            (Ok(_), Err(e)) => c.fail(format!("RxBuffer::packet_mut panicked where packet() did not: {}", e)),
                            _ => {}
                        }
                        let tok = if rx_used.is_empty() { u16::MAX } else { rx_used.remove(0) };
                        c.step(
                            "net recv",
                            format!(
                                "ok buf={} idx={} pkt={} frame={}",
                                bid.map(|x| x.to_string()).unwrap_or("?".into()),
                                tok,
                                b.packet_len(),
                                match &pk { Ok(p) => canon_bytes(p), Err(_) => "panic".into() }
                            ),
                        );
                        match frames.remove(&tok) {
                            None => c.fail("receive returned a buffer although the device completed none"),
                            Some(d) => {
                                let posted_ident = with_nic(|n| n.rx_posted.remove(&tok));
                                if posted_ident.map(|p| p.0) != Some(ident) {
                                    c.fail(format!("receive returned a different buffer than the one posted under token {}", tok));
                                }
                                if b.packet_len() != d.ulen as usize - hl {
                                    c.fail(format!("packet_len() = {} for used length {} and a {}-byte header", b.packet_len(), d.ulen, hl));
                                }
                                match pk {
                                    Ok(p) if p == d.frame => good += 1,
                                    Ok(_) => c.fail("received packet differs from the frame the device wrote".to_string()),
                                    Err(e) => c.fail(format!("RxBuffer::packet panicked: {}", e)),
                                }
                            }
                        }
                        if bid.is_none() {
                            c.fail("receive returned a buffer that is none of the QUEUE_SIZE original ones");
                        }
                        held.push((bid.unwrap_or(usize::MAX), b));
                    }
                }
            }
            10..=12 | 99 => {
                // recycle one held buffer (all of them when draining, after consuming every completion)
                if draining {
                    while !rx_used.is_empty() && !dead {
                        match guarded(|| net.receive()) {
                            Ok(Ok(b)) => {
                                let ident = b.as_bytes().as_ptr() as usize;
                                let bid = idents.iter().position(|p| *p == ident).unwrap_or(usize::MAX);
                                let tok = rx_used.remove(0);
                                let pk = guarded(|| b.packet().to_vec());
                                c.step("net recv", format!("ok buf={} idx={} pkt={} frame={}", bid, tok, b.packet_len(), match &pk { Ok(p) => canon_bytes(p), Err(_) => "panic".into() }));
                                frames.remove(&tok);
                                with_nic(|n| n.rx_posted.remove(&tok));
                                held.push((bid, b));
                            }
                            Ok(Err(e)) => {
                                c.step("net recv", format!("err {:?}", e));
                                let tok = rx_used.remove(0);
                                let d = frames.remove(&tok).unwrap();
                                with_nic(|n| n.rx_posted.remove(&tok));
                                if (d.ulen as usize) < hl && e == Error::IoError {
                                    lost += 1;
                                } else {
                                    c.fail(format!("receive failed with {:?}", e));
                                    dead = true;
                                }
                            }
                            Err(p) => {
                                c.fail(format!("receive panicked: {}", p));
                                dead = true;
                            }
                        }
                    }
                }
                loop {
                    if held.is_empty() || dead {
                        break;
                    }
                    let i = rng.below(held.len() as u64) as usize;
                    let (bid, b) = held.remove(i);
                    let ident = b.as_bytes().as_ptr() as usize;
                    // (C09) once handed back, the buffer is owned by the driver: it must not be released
                    // while it is posted to the device
                    let _ = crate::c09_drop::take_frees();
                    crate::c09_drop::watch(true);
                    let r = guarded(|| net.recycle_rx_buffer(b));
                    crate::c09_drop::watch(false);
                    let freed = crate::c09_drop::take_frees();
                    if !freed.is_empty() {
                        c.fail(format!("[C09] recycle_rx_buffer released {} driver-owned receive buffer(s) still shared with the live device", freed.iter().map(|(_, n)| n).sum::<usize>()));
                    }
                    let new = with_nic(|n| n.poll_rx());
                    let tok = new.last().map(|c| c.head.to_string()).unwrap_or("-".into());
                    match r {
                        Err(p) => {
                            c.step(format!("net recycle buf={} tok={}", bid, tok), "panic");
                            c.fail(format!("recycle_rx_buffer panicked: {}", p));
                            dead = true;
                        }
                        Ok(r) => {
                            c.step(format!("net recycle buf={} tok={}", bid, tok), res_u(&r));
                            if r.is_err() {
                                c.fail(format!("recycle_rx_buffer failed with {}: the buffer is gone", res_u(&r)));
                            }
                            if new.len() != 1 || share_identity(new[0].segs[0].addr) != ident {
                                c.fail("a recycled buffer was not posted to the device again");
                            }
                            c.tag("recycle");
                        }
                    }
                    if !draining {
                        break;
                    }
                }
            }
            13 => {
                let plen = pick_frame_len(&mut rng, 1514);
                let payload = rng.bytes(plen);
                let cs = net.can_send();
                c.step("net can_send", (cs as u8).to_string());
                let ulen = 0;
                do_send(&mut c, neg, &payload, ulen, cs, false, || net.send(TxBuffer::from(&payload)));
            }
            _ => {}
        }
        // device-side accounting (every step): each of the QUEUE_SIZE buffers is either posted
        // (the device holds it, or its completion has not been consumed) or held by the caller
        if !dead {
            let posted: Vec<usize> = with_nic(|n| n.rx_posted.values().map(|v| v.0).collect());
            let heldp: Vec<usize> = held.iter().map(|(_, b)| b.as_bytes().as_ptr() as usize).collect();
            let mut all: Vec<usize> = posted.iter().chain(heldp.iter()).copied().collect();
            all.sort();
            let uniq = all.iter().collect::<BTreeSet<_>>().len();
            if uniq != all.len() {
                c.fail("a receive buffer is both posted and held by the caller, or posted twice");
            }
            if all.len() + lost != N {
                c.fail(format!("{} buffers posted + {} held by the caller + {} dropped on error paths != QUEUE_SIZE {}", posted.len(), heldp.len(), lost, N));
            }
            if all.iter().any(|p| !idents.contains(p)) {
                c.fail("a posted or held buffer is none of the original ones");
            }
            if draining || rng.chance(1, 6) {
                c.step("net posted", format!("posted={} held={} lost={} out={}", posted.len(), heldp.len(), lost, posted.len()));
            }
            if draining && !hostile && posted.len() != N {
                c.fail(format!("after recycling every buffer {} are posted, QUEUE_SIZE is {}", posted.len(), N));
            }
        }
    }
    if lost > 0 && !hostile {
        c.fail("a receive buffer was dropped although the device behaved");
    }
    c.nontrivial = good > 0;
    drop(held);
    drop(net);
    finish(&mut c);
    c
}

fn dispatch_raw(ctx: &Ctx, i: usize, id: String, hostile: bool) -> Case {
    match i % 4 {
        0 => raw_case::<1>(ctx, i, id, hostile),
        1 => raw_case::<2>(ctx, i, id, hostile),
        2 => raw_case::<4>(ctx, i, id, hostile),
        _ => raw_case::<16>(ctx, i, id, hostile),
    }
}
fn dispatch_dev(ctx: &Ctx, i: usize, id: String, hostile: bool) -> Case {
    match i % 4 {
        0 => dev_case::<1>(ctx, i, id, hostile),
        1 => dev_case::<2>(ctx, i, id, hostile),
        2 => dev_case::<4>(ctx, i, id, hostile),
        _ => dev_case::<16>(ctx, i, id, hostile),
    }
}

/// every frame length 0..=buffer-header for both header sizes through `VirtIONet` (complete
/// enumeration of the length; one buffer, QUEUE_SIZE 2)
fn lengths_case(ctx: &Ctx, which: usize, id: String) -> Case {
    let mut c = Case::new(id);
    let v1 = which % 2 == 0;
    let chunk = which / 2; // 8 chunks of the length range
    let offered = if v1 { 1u64 << 32 } else { 0 };
    let buf_len = 1528usize;
    let (t, st) = setup_transport(offered);
    let mut net = match guarded(|| VirtIONet::<LedgerHal, ModelTransport, 2>::new(t, buf_len)) {
        Ok(Ok(n)) => n,
        other => {
            c.fail(format!("VirtIONet::new failed: {:?}", other.map(|r| r.err())));
            return c;
        }
    };
    let mut rng = ctx.case_rng("lengths", which);
    let neg = match install_nic(&st, 2, rng.fork()) {
        Ok(n) => n,
        Err(e) => {
            c.fail(e);
            return c;
        }
    };
    let hl = spec_hdr_len(neg);
    let posted0 = with_nic(|n| n.poll_rx());
    let idents: Vec<usize> = posted0.iter().map(|c| share_identity(c.segs[0].addr)).collect();
    c.step(
        format!("net new raw=0 q=2 feats={:#x} buflen={} toks={}", offered, buf_len, posted0.iter().map(|c| c.head.to_string()).collect::<Vec<_>>().join(",")),
        format!("ok neg={:#x} hdr={} posted={} blen={}", neg, hl, posted0.len(), 1528),
    );
    let max = 1528 - hl;
    let per = max.div_ceil(8);
    for flen in (chunk * per..((chunk + 1) * per).min(max + 1)).chain(if chunk == 7 { max..max + 1 } else { 0..0 }) {
        let pend: Vec<u16> = with_nic(|n| n.rx.inflight.iter().map(|c| c.head).collect());
        let tok = *rng.pick(&pend);
        let frame = rng.bytes(flen);
        let d = match with_nic(|n| n.inject(tok, &frame, None)) {
            Ok(d) => d,
            Err(e) => {
                c.fail(e);
                break;
            }
        };
        c.step(format!("net dev_rx tok={} ulen={} wdata={}", d.head, d.ulen, hex(&d.view)), "ok");
        match guarded(|| net.receive()) {
            Ok(Ok(b)) => {
                let ident = b.as_bytes().as_ptr() as usize;
                let bid = idents.iter().position(|p| *p == ident).unwrap_or(usize::MAX);
                c.step("net recv", format!("ok buf={} idx={} pkt={} frame={}", bid, tok, b.packet_len(), canon_bytes(b.packet())));
                if b.packet_len() != flen || b.packet() != frame {
                    c.fail(format!("frame of {} bytes arrived as {} bytes{}", flen, b.packet_len(), if b.packet_len() == flen { " with different contents" } else { "" }));
                }
                with_nic(|n| n.rx_posted.remove(&tok));
                let r = net.recycle_rx_buffer(b);
                let new = with_nic(|n| n.poll_rx());
                c.step(format!("net recycle buf={} tok={}", bid, new.last().map(|c| c.head.to_string()).unwrap_or("-".into())), res_u(&r));
                if r.is_err() || new.len() != 1 {
                    c.fail("recycle failed");
                    break;
                }
            }
            other => {
                c.fail(format!("receive of a {}-byte frame: {:?}", flen, other.map(|r| r.map(|_| ()))));
                break;
            }
        }
        // and the same length through send
        if flen <= 1514 {
            let cs = net.can_send();
            c.step("net can_send", (cs as u8).to_string());
            do_send(&mut c, neg, &frame, 0, cs, false, || net.send(TxBuffer::from(&frame)));
        }
    }
    c.tag(format!("lengths-hdr={}", hl));
    c.nontrivial = true;
    drop(net);
    finish(&mut c);
    c
}

/// 66 000 frames received and recycled one after the other through `VirtIONet` (oracles only): the 16-bit
/// ring indices wrap on the way; every frame must arrive, intact, and every recycled buffer be posted again
fn wrap_case(ctx: &Ctx, which: usize, id: String) -> Case {
    let mut c = Case::new(id);
    let offered = if which % 2 == 0 { 1u64 << 32 } else { 0 };
    let buf_len = 1528usize;
    let (t, st) = setup_transport(offered);
    let mut net = match guarded(|| VirtIONet::<LedgerHal, ModelTransport, 2>::new(t, buf_len)) {
        Ok(Ok(n)) => n,
        other => {
            c.fail(format!("VirtIONet::new failed: {:?}", other.map(|r| r.err())));
            return c;
        }
    };
    let mut rng = ctx.case_rng("net-wrap", which);
    if let Err(e) = install_nic(&st, 2, rng.fork()) {
        c.fail(e);
        return c;
    }
    let _ = with_nic(|n| n.poll_rx());
    for k in 0..66_000u32 {
        let pend: Vec<u16> = with_nic(|n| n.rx.inflight.iter().map(|c| c.head).collect());
        if pend.is_empty() {
            c.fail(format!("long run: no receive buffer posted before frame {}", k));
            break;
        }
        let tok = *rng.pick(&pend);
        let flen = 1 + (k as usize * 7) % 60;
        let frame = rng.bytes(flen);
        if let Err(e) = with_nic(|n| n.inject(tok, &frame, None)) {
            c.fail(e);
            break;
        }
        if !net.can_recv() {
            c.fail(format!("long run: the device has used a receive buffer for frame {} but can_recv() is false", k));
            break;
        }
        match guarded(|| net.receive()) {
            Ok(Ok(b)) => {
                if b.packet_len() != flen || b.packet() != frame {
                    c.fail(format!("long run: frame {} of {} bytes arrived as {} bytes or with different contents", k, flen, b.packet_len()));
                    break;
                }
                with_nic(|n| n.rx_posted.remove(&tok));
                let r = net.recycle_rx_buffer(b);
                let new = with_nic(|n| n.poll_rx());
                if r.is_err() || new.len() != 1 {
                    c.fail(format!("long run: recycle after frame {} failed ({:?}, {} buffers newly posted)", k, r, new.len()));
                    break;
                }
            }
            other => {
                c.fail(format!("long run: receive of frame {}: {:?}", k, other.map(|r| r.map(|_| ()))));
                break;
            }
        }
    }
    c.tag("net-wrap");
    c.nontrivial = true;
    drop(net);
    let _ = crate::hal::take_events();
    c
}

/// receive buffers larger than 64 KiB and frames of 65 535, 65 536 and more bytes (oracles only): the frame
/// length is not a 16-bit quantity
fn jumbo_case(ctx: &Ctx, which: usize, id: String) -> Case {
    let mut c = Case::new(id);
    let offered = if which % 2 == 0 { 1u64 << 32 } else { 0 };
    let buf_len = 70_000usize;
    let (t, st) = setup_transport(offered);
    let mut net = match guarded(|| VirtIONet::<LedgerHal, ModelTransport, 2>::new(t, buf_len)) {
        Ok(Ok(n)) => n,
        other => {
            c.fail(format!("VirtIONet::new with {}-byte buffers failed: {:?}", buf_len, other.map(|r| r.err())));
            return c;
        }
    };
    let mut rng = ctx.case_rng("net-jumbo", which);
    if let Err(e) = install_nic(&st, 2, rng.fork()) {
        c.fail(e);
        return c;
    }
    let _ = with_nic(|n| n.poll_rx());
    for flen in [65_535usize, 65_536, 65_537, 69_000, 1000] {
        let pend: Vec<u16> = with_nic(|n| n.rx.inflight.iter().map(|c| c.head).collect());
        if pend.is_empty() {
            c.fail("jumbo: no receive buffer posted");
            break;
        }
        let tok = *rng.pick(&pend);
        let frame = rng.bytes(flen);
        if let Err(e) = with_nic(|n| n.inject(tok, &frame, None)) {
            c.fail(e);
            break;
        }
        match guarded(|| net.receive()) {
            Ok(Ok(b)) => {
                if b.packet_len() != flen || b.packet() != frame {
                    c.fail(format!("jumbo: a frame of {} bytes arrived as {} bytes{}", flen, b.packet_len(), if b.packet_len() == flen { " with different contents" } else { "" }));
                    break;
                }
                with_nic(|n| n.rx_posted.remove(&tok));
                let r = net.recycle_rx_buffer(b);
                let new = with_nic(|n| n.poll_rx());
                if r.is_err() || new.len() != 1 {
                    c.fail(format!("jumbo: recycle failed ({:?})", r));
                    break;
                }
            }
            other => {
                c.fail(format!("jumbo: receive of a {}-byte frame: {:?}", flen, other.map(|r| r.map(|_| ()))));
                break;
            }
        }
    }
    c.tag("net-jumbo");
    c.nontrivial = true;
    drop(net);
    let _ = crate::hal::take_events();
    c
}

fn oracle_selftest() -> Vec<String> {
    let mut bad = vec![];
    let mut c = Case::new("t");
    check_tx(&mut c, 1 << 32, &[0, 0, 0, 0, 0, 0, 0, 0, 0, 0, 0, 0, 9, 8], &[9, 8]);
    check_tx(&mut c, 0, &[0, 0, 0, 0, 0, 0, 0, 0, 0, 0, 9, 8], &[9, 8]);
    check_tx(&mut c, 0, &[0, 0, 0, 0, 0, 0, 0, 0, 0, 0], &[]);
    if !c.oracle_failures.is_empty() {
        bad.push(format!("tx oracle rejects good frames: {:?}", c.oracle_failures));
    }
    let mut n = 0;
    for (neg, seen, pl) in [
        (0u64, vec![0u8, 0, 0, 0, 0, 0, 0, 0, 0, 0, 0, 0, 9, 8], vec![9u8, 8]), // 12-byte header without VERSION_1
        (1 << 32, vec![0, 0, 0, 0, 0, 0, 0, 0, 0, 0, 9, 8], vec![9, 8]),        // 10-byte header with VERSION_1
        (0, vec![1, 0, 0, 0, 0, 0, 0, 0, 0, 0, 9, 8], vec![9, 8]),              // non-zero header
        (0, vec![0, 0, 0, 0, 0, 0, 0, 0, 0, 0, 9, 7], vec![9, 8]),              // payload modified
        (0, vec![0, 0, 0, 0, 0], vec![]),                                       // truncated
    ] {
        let mut c = Case::new("t");
        check_tx(&mut c, neg, &seen, &pl);
        if !c.oracle_failures.is_empty() {
            n += 1;
        }
    }
    if n != 5 {
        bad.push(format!("tx oracle accepted {} of 5 bad frames", 5 - n));
    }
    if spec_hdr_len(0) != 10 || spec_hdr_len(1 << 32) != 12 || spec_hdr_len(1 << 15) != 12 {
        bad.push("header size table wrong".into());
    }
    bad
}

pub fn run(ctx: &Ctx) -> (Vec<Case>, String, bool, BTreeMap<String, String>) {
    virtio_drivers::verif_hooks::set_spin_hook(Some(spin_hook));
    let n = ctx.tier.pick(160, 2400);
    let nm = ctx.tier.pick(60, 600);
    let mut all = crate::runner::par_cases(ctx, "C16", "raw", n, |i, id| dispatch_raw(ctx, i, id, false));
    all.extend(crate::runner::par_cases(ctx, "C16", "raw-malformed", nm, |i, id| dispatch_raw(ctx, i, id, true)));
    all.extend(crate::runner::par_cases(ctx, "C16", "dev", n, |i, id| dispatch_dev(ctx, i, id, false)));
    all.extend(crate::runner::par_cases(ctx, "C16", "dev-malformed", nm, |i, id| dispatch_dev(ctx, i, id, true)));
    all.extend(crate::runner::par_cases(ctx, "C16", "lengths", 16, |i, id| lengths_case(ctx, i, id)));
    all.extend(crate::runner::par_cases(ctx, "C16", "net-wrap", ctx.tier.pick(2, 8), |i, id| wrap_case(ctx, i, id)));
    all.extend(crate::runner::par_cases(ctx, "C16", "net-jumbo", 2, |i, id| jumbo_case(ctx, i, id)));
    let mut st = Case::new(ctx.case_id("C16", "oracle-selftest", 0));
    if ctx.wants(&st.id) {
        for b in oracle_selftest() {
            st.fail(b);
        }
        all.push(st);
    }
    virtio_drivers::verif_hooks::set_spin_hook(None);
    let rule = "real VirtIONetRaw and VirtIONet with QUEUE_SIZE in {1,2,4,16} on ModelTransport+LedgerHal against a spec-written reference NIC; offered features random over {MAC,STATUS,INDIRECT,EVENT_IDX,VERSION_1,ACCESS_PLATFORM} plus unsupported bits (MRG_RXBUF among them), VERSION_1 forced on in even and off in odd cases. Stream `raw`: receive_begin/complete, poll, transmit_begin/complete with fill_buffer_header, blocking send and receive_wait, device bursts of 1..3 frames into pending buffers of its choice, completions consumed in and out of ring order. Stream `dev`: VirtIONet::new with buffer lengths {1528..4096}, bursts of 1..4 frames in device-chosen order, can_recv/receive/recycle/can_send/send, and a final drain (consume all completions, recycle everything) after which QUEUE_SIZE buffers must be posted. Streams `*-malformed`: additionally too-small buffers, used lengths below the header size, send with a stale completion. Stream `lengths`: every frame length 0..=buffer-header for the 10- and the 12-byte header through VirtIONet receive and (<=1514) send: complete enumeration. Stream `net-wrap`: 66000 frames received and recycled one by one (the ring indices wrap). Stream `net-jumbo`: 70000-byte receive buffers, frames of 65535, 65536, 65537 and 69000 bytes. Non-trivial = at least one frame received with verified contents.".to_string();
    (all, rule, false, BTreeMap::new())
}
