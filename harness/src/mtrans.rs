//! `ModelTransport`: an in-process `Transport` that logs every call in order and lets a case
//! choose every answer the driver can observe (features, queue-in-use, maximum size, legacy layout,
//! config bytes, generation schedule).  `notify` can synchronously run a device callback.

use std::cell::RefCell;
use std::rc::Rc;
use virtio_drivers::transport::{DeviceStatus, DeviceType, InterruptStatus, Transport};
use virtio_drivers::{Error, PhysAddr};
use zerocopy::{FromBytes, Immutable, IntoBytes};

#[derive(Clone, Debug, PartialEq, Eq)]
pub enum TCall {
    ReadFeatures,
    WriteFeatures(u64),
    MaxQueueSize(u16),
    Notify(u16),
    GetStatus,
    SetStatus(u32),
    SetGuestPageSize(u32),
    RequiresLegacy,
    QueueSet { queue: u16, size: u32, desc: u64, driver: u64, device: u64 },
    QueueUnset(u16),
    QueueUsed(u16),
    AckInterrupt,
    ReadGeneration,
    ReadConfig { offset: usize, size: usize, ok: bool },
    WriteConfig { offset: usize, size: usize, ok: bool },
    /// the transport value was dropped (a real transport resets the device here)
    Dropped,
}

#[derive(Clone, Copy, Debug, Default)]
pub struct QueueReg {
    pub size: u32,
    pub desc: u64,
    pub driver: u64,
    pub device: u64,
    pub set: bool,
}

pub type NotifyFn = Box<dyn FnMut(u16)>;

pub struct TState {
    pub device_type: DeviceType,
    pub offered: u64,
    pub driver_features: u64,
    pub status: u32,
    pub legacy: bool,
    pub max_queue_size: u32,
    /// per-queue override of the `queue_used` answer (default: whether it is currently set)
    pub force_in_use: Vec<u16>,
    /// a device whose "in use" answer does not become true when a queue is configured (it enables queues
    /// lazily, or the transport cannot tell): the answer stays false
    pub never_in_use: bool,
    pub queues: Vec<QueueReg>,
    pub log: Vec<(u64, TCall)>,
    pub config: Vec<u8>,
    pub generation: u32,
    /// called after each individual config read: lets a case change config/generation mid-read
    pub on_config_read: Option<Box<dyn FnMut(&mut Vec<u8>, &mut u32)>>,
    pub on_notify: Option<NotifyFn>,
    pub isr: u32,
    pub guest_page_size: u32,
    /// what the status register reads back: `(status & status_and) | status_or` — a device may clear
    /// FEATURES_OK (features refused) or raise DEVICE_NEEDS_RESET / FAILED on its own
    pub status_and: u32,
    pub status_or: u32,
}

impl TState {
    pub fn new(device_type: DeviceType, offered: u64, nqueues: usize, max_queue_size: u32) -> Self {
        TState {
            device_type,
            offered,
            driver_features: 0,
            status: 0,
            legacy: false,
            max_queue_size,
            force_in_use: vec![],
            never_in_use: false,
            queues: vec![QueueReg::default(); nqueues],
            log: vec![],
            config: vec![],
            generation: 0,
            on_config_read: None,
            on_notify: None,
            isr: 0,
            guest_page_size: 0,
            status_and: !0,
            status_or: 0,
        }
    }
}

pub struct ModelTransport {
    pub st: Rc<RefCell<TState>>,
}

impl ModelTransport {
    pub fn new(st: TState) -> (Self, Rc<RefCell<TState>>) {
        let rc = Rc::new(RefCell::new(st));
        (ModelTransport { st: rc.clone() }, rc)
    }
}

impl Drop for ModelTransport {
    fn drop(&mut self) {
        let mut s = self.st.borrow_mut();
        s.log.push((crate::hal::tick(), TCall::Dropped));
        crate::wake::unregister(Rc::as_ptr(&self.st) as usize, None);
        // like the real transports: reset on drop
        s.status = 0;
        for q in s.queues.iter_mut() {
            *q = QueueReg::default();
        }
    }
}

impl Transport for ModelTransport {
    fn device_type(&self) -> DeviceType {
        self.st.borrow().device_type
    }
    fn read_device_features(&mut self) -> u64 {
        let mut s = self.st.borrow_mut();
        s.log.push((crate::hal::tick(), TCall::ReadFeatures));
        s.offered
    }
    fn write_driver_features(&mut self, driver_features: u64) {
        let mut s = self.st.borrow_mut();
        s.log.push((crate::hal::tick(), TCall::WriteFeatures(driver_features)));
        s.driver_features = driver_features;
    }
    fn max_queue_size(&mut self, queue: u16) -> u32 {
        let mut s = self.st.borrow_mut();
        s.log.push((crate::hal::tick(), TCall::MaxQueueSize(queue)));
        s.max_queue_size
    }
    fn notify(&mut self, queue: u16) {
        let cb = {
            let mut s = self.st.borrow_mut();
            s.log.push((crate::hal::tick(), TCall::Notify(queue)));
            s.on_notify.take()
        };
        crate::wake::notified(Rc::as_ptr(&self.st) as usize, queue);
        if let Some(mut f) = cb {
            f(queue);
            let mut s = self.st.borrow_mut();
            if s.on_notify.is_none() {
                s.on_notify = Some(f);
            }
        }
    }
    fn get_status(&self) -> DeviceStatus {
        let mut s = self.st.borrow_mut();
        s.log.push((crate::hal::tick(), TCall::GetStatus));
        DeviceStatus::from_bits_retain((s.status & s.status_and) | s.status_or)
    }
    fn set_status(&mut self, status: DeviceStatus) {
        let mut s = self.st.borrow_mut();
        s.log.push((crate::hal::tick(), TCall::SetStatus(status.bits())));
        s.status = status.bits();
        crate::wake::status(Rc::as_ptr(&self.st) as usize, status.bits());
        if status.bits() == 0 {
            for q in s.queues.iter_mut() {
                *q = QueueReg::default();
            }
            crate::wake::unregister(Rc::as_ptr(&self.st) as usize, None);
        }
    }
    fn set_guest_page_size(&mut self, guest_page_size: u32) {
        let mut s = self.st.borrow_mut();
        s.log.push((crate::hal::tick(), TCall::SetGuestPageSize(guest_page_size)));
        s.guest_page_size = guest_page_size;
    }
    fn requires_legacy_layout(&self) -> bool {
        let mut s = self.st.borrow_mut();
        s.log.push((crate::hal::tick(), TCall::RequiresLegacy));
        s.legacy
    }
    fn queue_set(&mut self, queue: u16, size: u32, descriptors: PhysAddr, driver_area: PhysAddr, device_area: PhysAddr) {
        let mut s = self.st.borrow_mut();
        s.log.push((crate::hal::tick(), TCall::QueueSet { queue, size, desc: descriptors, driver: driver_area, device: device_area }));
        let q = queue as usize;
        if q >= s.queues.len() {
            s.queues.resize(q + 1, QueueReg::default());
        }
        s.queues[q] = QueueReg { size, desc: descriptors, driver: driver_area, device: device_area, set: true };
        crate::wake::register(Rc::as_ptr(&self.st) as usize, queue, size, driver_area, device_area, s.driver_features & (1 << 29) != 0);
    }
    fn queue_unset(&mut self, queue: u16) {
        let mut s = self.st.borrow_mut();
        s.log.push((crate::hal::tick(), TCall::QueueUnset(queue)));
        let q = queue as usize;
        if q < s.queues.len() {
            s.queues[q] = QueueReg::default();
        }
        crate::wake::unregister(Rc::as_ptr(&self.st) as usize, Some(queue));
    }
    fn queue_used(&mut self, queue: u16) -> bool {
        let mut s = self.st.borrow_mut();
        s.log.push((crate::hal::tick(), TCall::QueueUsed(queue)));
        s.force_in_use.contains(&queue) || (!s.never_in_use && s.queues.get(queue as usize).map(|q| q.set).unwrap_or(false))
    }
    fn ack_interrupt(&mut self) -> InterruptStatus {
        let mut s = self.st.borrow_mut();
        s.log.push((crate::hal::tick(), TCall::AckInterrupt));
        let v = s.isr;
        s.isr = 0;
        InterruptStatus::from_bits_retain(v)
    }
    fn read_config_generation(&self) -> u32 {
        let mut s = self.st.borrow_mut();
        s.log.push((crate::hal::tick(), TCall::ReadGeneration));
        s.generation
    }
    fn read_config_space<T: FromBytes + IntoBytes>(&self, offset: usize) -> Result<T, Error> {
        let mut s = self.st.borrow_mut();
        let size = size_of::<T>();
        if s.config.is_empty() {
            s.log.push((crate::hal::tick(), TCall::ReadConfig { offset, size, ok: false }));
            return Err(Error::ConfigSpaceMissing);
        }
        if s.config.len() < offset + size {
            s.log.push((crate::hal::tick(), TCall::ReadConfig { offset, size, ok: false }));
            return Err(Error::ConfigSpaceTooSmall);
        }
        s.log.push((crate::hal::tick(), TCall::ReadConfig { offset, size, ok: true }));
        let v = T::read_from_bytes(&s.config[offset..offset + size]).unwrap();
        if let Some(mut f) = s.on_config_read.take() {
            let st = &mut *s;
            f(&mut st.config, &mut st.generation);
            s.on_config_read = Some(f);
        }
        Ok(v)
    }
    fn write_config_space<T: IntoBytes + Immutable>(&mut self, offset: usize, value: T) -> Result<(), Error> {
        let mut s = self.st.borrow_mut();
        let size = size_of::<T>();
        if s.config.is_empty() {
            s.log.push((crate::hal::tick(), TCall::WriteConfig { offset, size, ok: false }));
            return Err(Error::ConfigSpaceMissing);
        }
        if s.config.len() < offset + size {
            s.log.push((crate::hal::tick(), TCall::WriteConfig { offset, size, ok: false }));
            return Err(Error::ConfigSpaceTooSmall);
        }
        s.log.push((crate::hal::tick(), TCall::WriteConfig { offset, size, ok: true }));
        s.config[offset..offset + size].copy_from_slice(value.as_bytes());
        Ok(())
    }
}
