//! C15: console byte streams — the REAL `VirtIOConsole` (incl. the embedded-io traits) behind
//! `ModelTransport` + `LedgerHal`, against a reference console device that feeds a known
//! pseudo-random byte stream in random chunk sizes at random moments (also *inside* blocking
//! reads, through the spin hook).
//!
//! Compared with the Lean model (`Model/Console.lean`): every returned value, the number of
//! receive buffers the device sees posted after each call, receive-queue notifications per call,
//! transmit chains as the device read them, config writes.
//!
//! Independent oracles (written from the property text, evaluated on the real code):
//!  O1 returned bytes (pops, bulk reads, consumed prefixes of `fill_buf`) are, in order, exactly
//!     the device's stream: each returned byte equals `stream[#returned so far]`, and never more
//!     than the device has written; peeks and `fill_buf` views show the same next bytes;
//!  O2 after draining, `#returned == #written` (nothing lost);
//!  O3 the device never sees two receive buffers outstanding (checked at every device action,
//!     every notification, every spin and after every call); each posted chain is one
//!     device-writable segment of the full buffer size;
//!  O4 at the moment a receive buffer is posted (its notification), every byte the device has
//!     written so far has been handed to the caller by the end of that call at the latest;
//!  O5 every send puts exactly one chain with exactly the caller's bytes on the transmit queue;
//!  O6 `recv`/`read_ready` never report "nothing" while the device has delivered unreturned bytes;
//!  O7 HAL ledger violations (double unshare, …) and reference-device chain validation errors.

use crate::hal::{self, LedgerHal};
use crate::mtrans::{ModelTransport, TState};
use crate::proto::Case;
use crate::refdev::RefQueue;
use crate::rng::{Rng, fnv64};
use crate::runner::{Ctx, guarded};
use std::cell::RefCell;
use std::collections::BTreeMap;
use std::rc::Rc;
use virtio_drivers::device::console::VirtIOConsole;
use virtio_drivers::transport::DeviceType;

const F_SIZE: u64 = 1 << 0;
const F_EMERG: u64 = 1 << 2;
const F_INDIRECT: u64 = 1 << 28;
const F_EVENT_IDX: u64 = 1 << 29;
const F_VERSION_1: u64 = 1 << 32;
const F_ACCESS_PLATFORM: u64 = 1 << 33;

/// the reference device's byte stream (same formula as `Console.streamByte` in Lean)
pub fn stream_byte(seed: u64, i: u64) -> u8 {
    ((i * i / 3 + 7 * i + 13 * seed + i / 251) % 256) as u8
}
pub fn stream_chunk(seed: u64, pos: u64, n: usize) -> Vec<u8> {
    (0..n as u64).map(|k| stream_byte(seed, pos + k)).collect()
}

pub fn bytes_str(b: &[u8]) -> String {
    if b.is_empty() {
        "-".into()
    } else if b.len() <= 16 {
        b.iter().map(|x| format!("{:02x}", x)).collect()
    } else {
        format!("{}:{:#x}", b.len(), fnv64(b))
    }
}

#[derive(Clone, Copy, PartialEq, Eq, Debug)]
enum Mode {
    Idle,
    RxWait,
    TxWait,
}

struct Dev {
    st: Rc<RefCell<TState>>,
    rx: Option<RefQueue>,
    tx: Option<RefQueue>,
    event_idx: bool,
    seed: u64,
    /// bytes written into receive buffers so far
    pos: u64,
    cap: usize,
    wire: Vec<Vec<u8>>,
    errors: Vec<String>,
    mode: Mode,
    // plan for the current blocking call
    idle_left: u32,
    plan_fill: usize,
    plan_claim: u32,
    tx_on_notify: bool,
    raise_isr: bool,
    // what happened during the current call
    op_idle: u32,
    op_fill: Option<(usize, u32)>,
    spins: u64,
    rx_notifies: usize,
    /// plan: fill the re-posted receive buffer synchronously when its notification arrives
    notify_fill: Option<(usize, u32)>,
    /// what happened: (bytes, claim, buffers outstanding when the notification arrived)
    notify_filled: Option<(usize, u32, u16)>,
    /// like `notify_fill`, but the device does not wait for the notification: it polls the available
    /// ring and fills the buffer the moment the index store makes it visible (flag mode only: fetching
    /// moves `avail_event`, which would change the driver's notification decision)
    store_fill: Option<(usize, u32)>,
    post_seen_at_store: bool,
    waiting_on_nothing_reported: bool,
    /// `pos` at each receive-queue notification of the current call
    post_marks: Vec<u64>,
}

impl Dev {
    fn rx_outstanding(&mut self) -> u16 {
        match &self.rx {
            Some(q) => match q.avail_idx() {
                Ok(a) => a.wrapping_sub(q.used_idx),
                Err(e) => {
                    self.errors.push(format!("device cannot read the receive queue: {}", e));
                    0
                }
            },
            None => 0,
        }
    }

    /// O3
    fn check_rx(&mut self, at: &str) {
        let n = self.rx_outstanding();
        if n > 1 {
            self.errors.push(format!("{} receive buffers outstanding at the device ({})", n, at));
        }
    }

    fn fetch_rx(&mut self) {
        let ev = self.event_idx;
        if let Some(q) = self.rx.as_mut() {
            match q.fetch_all() {
                Err(e) => self.errors.push(format!("receive queue: {}", e)),
                Ok(cs) => {
                    for c in cs {
                        if c.segs.len() != 1 || !c.segs[0].write {
                            self.errors.push(format!("receive chain {} is not one device-writable segment: {:?}", c.head, c.segs));
                        } else if self.cap != 0 && c.segs[0].len as usize != self.cap {
                            self.errors.push(format!("receive chain length {} differs from the first one ({})", c.segs[0].len, self.cap));
                        }
                    }
                }
            }
            if ev {
                let _ = q.set_avail_event(q.fetch_idx);
            }
            if q.inflight.len() > 1 {
                self.errors.push(format!("{} receive chains in flight at the device", q.inflight.len()));
            }
        }
    }

    /// writes the next `n` stream bytes into the posted receive buffer and reports `claim`
    fn fill(&mut self, n: usize, claim: u32) -> bool {
        self.check_rx("before fill");
        self.fetch_rx();
        let Some(q) = self.rx.as_mut() else { return false };
        let Some(c) = q.inflight.first().cloned() else { return false };
        let data = stream_chunk(self.seed, self.pos, n);
        match q.write_out(&c, &data) {
            Ok(w) if w == n => {}
            Ok(w) => self.errors.push(format!("device could write only {} of {} bytes into the receive buffer", w, n)),
            Err(e) => self.errors.push(format!("receive buffer not writable by the device: {}", e)),
        }
        if let Err(e) = q.complete(c.head, claim) {
            self.errors.push(format!("receive queue used ring: {}", e));
        }
        self.pos += n as u64;
        if self.raise_isr {
            self.st.borrow_mut().isr |= 1;
        }
        true
    }

    fn serve_tx(&mut self) {
        let ev = self.event_idx;
        let Some(q) = self.tx.as_mut() else { return };
        match q.fetch_all() {
            Err(e) => self.errors.push(format!("transmit queue: {}", e)),
            Ok(cs) => {
                for c in cs {
                    if c.segs.iter().any(|s| s.write) {
                        self.errors.push(format!("transmit chain {} has a device-writable segment", c.head));
                    }
                    match q.read_in(&c) {
                        Ok(b) => self.wire.push(b),
                        Err(e) => self.errors.push(format!("transmit chain unreadable: {}", e)),
                    }
                    if let Err(e) = q.complete(c.head, 0) {
                        self.errors.push(format!("transmit used ring: {}", e));
                    }
                }
            }
        }
        if ev {
            let _ = q.set_avail_event(q.fetch_idx);
        }
    }

    fn on_notify(&mut self, queue: u16) {
        if queue == 0 {
            self.rx_notifies += 1;
            if self.post_seen_at_store {
                self.post_seen_at_store = false;
            } else {
                self.post_marks.push(self.pos);
            }
            self.check_rx("at notification");
            if let Some((n, cl)) = self.notify_fill.take() {
                let rx = self.rx_outstanding();
                if self.fill(n, cl) {
                    self.notify_filled = Some((n, cl, rx));
                }
            }
        } else if queue == 1 && self.tx_on_notify {
            self.serve_tx();
        }
    }

    fn on_store(&mut self) {
        if let Some((n, cl)) = self.store_fill {
            let visible = match &self.rx {
                Some(q) => q.pending().map(|p| p > 0).unwrap_or(false),
                None => false,
            };
            if visible {
                self.store_fill = None;
                self.notify_fill = None;
                // the post is observed here, before the device writes; the notification that follows
                // announces the same post
                self.post_marks.push(self.pos);
                self.post_seen_at_store = true;
                let rx = self.rx_outstanding();
                if self.fill(n, cl) {
                    self.notify_filled = Some((n, cl, rx));
                }
            }
        }
    }

    fn on_spin(&mut self) {
        self.spins += 1;
        if self.spins == 2000 && self.mode == Mode::RxWait && !self.waiting_on_nothing_reported {
            // a blocking receive call has been spinning for a while: it must be waiting for a buffer it has
            // posted (or for data already delivered) — a call that waits with nothing posted waits for ever,
            // whatever the device does
            let posted = self.rx_outstanding();
            if posted == 0 && self.rx.as_ref().map(|q| q.pending().unwrap_or(0) == 0).unwrap_or(false) {
                self.waiting_on_nothing_reported = true;
                self.errors.push("[C05] a blocking receive call is busy-waiting although no receive buffer is posted to the device: nothing can ever wake it".into());
                self.errors.push("a blocking receive call is busy-waiting although no receive buffer is posted to the device: nothing can ever end it".into());
            }
        }
        if self.spins > 200_000 {
            panic!("harness: busy-wait did not terminate");
        }
        match self.mode {
            Mode::Idle => {}
            Mode::TxWait => {
                if self.idle_left > 0 {
                    self.idle_left -= 1;
                } else {
                    self.serve_tx();
                }
            }
            Mode::RxWait => {
                self.check_rx("inside wait_for_receive");
                if self.idle_left > 0 {
                    self.idle_left -= 1;
                    self.op_idle += 1;
                } else if self.op_fill.is_none() {
                    let (n, cl) = (self.plan_fill, self.plan_claim);
                    if self.fill(n, cl) {
                        self.op_fill = Some((n, cl));
                    } else {
                        self.op_idle += 1;
                    }
                } else {
                    self.op_idle += 1;
                    self.errors.push("harness: spin after the device filled the buffer".into());
                }
            }
        }
    }
}

thread_local! {
    static DEV: RefCell<Option<Rc<RefCell<Dev>>>> = const { RefCell::new(None) };
}

fn spin_hook() {
    let d = DEV.with(|d| d.borrow().clone());
    if let Some(d) = d {
        d.borrow_mut().on_spin();
    }
}

fn store_hook() {
    // the observers every check relies on (per-store validation, lost-notification oracle) stay in place
    crate::cq_queue::on_store_all();
    let d = DEV.with(|d| d.borrow().clone());
    if let Some(d) = d {
        if let Ok(mut d) = d.try_borrow_mut() {
            d.on_store();
        }
    }
}

type Con = VirtIOConsole<LedgerHal, ModelTransport>;

fn res_str<T>(r: Result<Result<T, virtio_drivers::Error>, String>, f: impl FnOnce(T) -> String) -> (String, bool) {
    match r {
        Err(_) => ("panic".into(), true),
        Ok(Err(e)) => (format!("err {:?}", e), false),
        Ok(Ok(v)) => (f(v), false),
    }
}

struct Sim {
    dev: Rc<RefCell<Dev>>,
    con: Option<Con>,
    case: Case,
    seed: u64,
    returned: u64,
    last_slice: Vec<u8>,
    /// stream oracles are meaningful only while the device is honest
    honest: bool,
    dead: bool,
    stalls: usize,
    blocked_calls: usize,
    sent: usize,
}

impl Sim {
    fn tail(&mut self, nt0: usize) -> String {
        let mut d = self.dev.borrow_mut();
        d.check_rx("after call");
        let rx = d.rx_outstanding();
        format!(" | rx={} nt={}", rx, d.rx_notifies - nt0)
    }

    fn expect_stream(&mut self, what: &str, got: &[u8], consume: bool) {
        if !self.honest {
            return;
        }
        let pos = self.dev.borrow().pos;
        if self.returned + got.len() as u64 > pos {
            self.case.fail(format!("{}: {} bytes returned beyond the {} bytes the device has written (returned so far {})", what, got.len(), pos, self.returned));
        }
        let want = stream_chunk(self.seed, self.returned, got.len());
        if got != &want[..] {
            let k = got.iter().zip(want.iter()).position(|(a, b)| a != b).unwrap_or(0);
            self.case.fail(format!("{}: byte {} of the stream delivered as {:#04x}, device wrote {:#04x} (lost, duplicated or reordered data)", what, self.returned + k as u64, got[k], want[k]));
        }
        if consume {
            self.returned += got.len() as u64;
        }
    }

    /// O4 + bookkeeping after each call
    fn after_call(&mut self, what: &str) {
        let marks: Vec<u64> = std::mem::take(&mut self.dev.borrow_mut().post_marks);
        if self.honest {
            for w in marks {
                if self.returned < w {
                    self.case.fail(format!("{}: receive buffer re-posted while {} of the {} bytes written by the device had not been returned", what, w - self.returned, w));
                }
            }
        }
    }

    fn begin(&mut self, mode: Mode, rng: &mut Rng, hostile: bool) -> usize {
        let mut d = self.dev.borrow_mut();
        d.mode = mode;
        d.spins = 0;
        d.op_idle = 0;
        d.op_fill = None;
        d.idle_left = rng.below(4) as u32;
        d.plan_fill = chunk_len(rng, d.cap);
        d.plan_claim = d.plan_fill as u32;
        if hostile && rng.chance(1, 3) {
            let (n, c) = hostile_fill(rng, d.cap);
            d.plan_fill = n;
            d.plan_claim = c;
        }
        d.tx_on_notify = rng.chance(1, 2);
        d.raise_isr = rng.chance(2, 3);
        d.rx_notifies
    }

    fn script(&mut self) -> String {
        let (s, fill, cap) = {
            let mut d = self.dev.borrow_mut();
            d.mode = Mode::Idle;
            let s = match d.op_fill {
                Some((n, c)) => format!("idle={} act=1 fill={} claim={}", d.op_idle, n, c),
                None => format!("idle={} act=0 fill=0 claim=0", d.op_idle),
            };
            (s, d.op_fill, d.cap)
        };
        if let Some((n, c)) = fill {
            if c as usize != n || n == 0 || n > cap {
                self.honest = false;
            }
            self.blocked_calls += 1;
        }
        s
    }

    fn finish(&mut self, op: String, out: String, panicked: bool, nt0: usize, what: &str) {
        let t = self.tail(nt0);
        self.after_call(what);
        self.case.step(op, format!("{}{}", out, t));
        if panicked {
            self.dead = true;
        }
    }
}

fn chunk_len(rng: &mut Rng, cap: usize) -> usize {
    let cap = cap.max(1);
    match rng.below(10) {
        0..=4 => rng.range(1, 8) as usize,
        5 | 6 => rng.range(9, 300) as usize,
        7 => *rng.pick(&[cap, cap - 1, cap / 2, 255, 256, 257]),
        8 => rng.range(1, cap as u64) as usize,
        _ => 1,
    }
    .clamp(1, cap)
}

/// (bytes written, reported length) of a misbehaving device
fn hostile_fill(rng: &mut Rng, cap: usize) -> (usize, u32) {
    match rng.below(5) {
        0 => (0, 0),
        1 => (rng.range(1, 16) as usize, 0),
        2 => (cap, cap as u32 + rng.range(1, 5000) as u32),
        3 => {
            let n = rng.range(0, 32) as usize;
            (n, n as u32 + rng.range(1, 64) as u32)
        }
        _ => {
            let n = rng.range(2, 64) as usize;
            (n, rng.range(1, n as u64 - 1) as u32)
        }
    }
}

fn read_size(rng: &mut Rng) -> usize {
    match rng.below(8) {
        0 => 0,
        1 | 2 => rng.range(1, 4) as usize,
        3 | 4 => rng.range(5, 64) as usize,
        5 => rng.range(65, 4095) as usize,
        6 => 4096,
        _ => *rng.pick(&[4097usize, 5000, 8192, 1]),
    }
}

fn one_case(ctx: &Ctx, stream: &str, idx: usize, id: String, hostile: bool) -> Case {
    use embedded_io::{BufRead, Read, ReadReady};
    let mut rng = ctx.case_rng(stream, idx);
    hal::reset();
    // half of the honest cases run on a platform that shares buffers in place (no bounce buffers)
    let inplace = !hostile && idx % 2 == 1;
    hal::with(|h| h.inplace = inplace);
    let seed = rng.below(60000);
    let mut offered = F_VERSION_1;
    for f in [F_SIZE, F_EMERG, F_INDIRECT, F_EVENT_IDX, F_ACCESS_PLATFORM] {
        if rng.chance(1, 2) {
            offered |= f;
        }
    }
    // also offer bits the driver does not support, to see that they are not negotiated
    if rng.chance(1, 4) {
        offered |= 1 << 1 | 1 << 34 | 1 << 38;
    }
    let cfg_len = *rng.pick(&[12usize, 12, 12, 12, 0, 2, 4]);
    let (cols, rows) = (rng.u16_biased(), rng.u16_biased());
    let mut ts = TState::new(DeviceType::Console, offered, 2, *rng.pick(&[2u32, 2, 4, 256, 32768]));
    ts.config = vec![0u8; cfg_len];
    if cfg_len >= 2 {
        ts.config[0..2].copy_from_slice(&cols.to_le_bytes());
    }
    if cfg_len >= 4 {
        ts.config[2..4].copy_from_slice(&rows.to_le_bytes());
    }
    let (t, st) = ModelTransport::new(ts);
    let dev = Rc::new(RefCell::new(Dev {
        st: st.clone(),
        rx: None,
        tx: None,
        event_idx: false,
        seed,
        pos: 0,
        cap: 0,
        wire: vec![],
        errors: vec![],
        mode: Mode::Idle,
        idle_left: 0,
        plan_fill: 1,
        plan_claim: 1,
        tx_on_notify: false,
        raise_isr: false,
        op_idle: 0,
        op_fill: None,
        spins: 0,
        rx_notifies: 0,
        notify_fill: None,
        notify_filled: None,
        store_fill: None,
        post_seen_at_store: false,
        waiting_on_nothing_reported: false,
        post_marks: vec![],
    }));
    DEV.with(|d| *d.borrow_mut() = Some(dev.clone()));
    {
        let d2 = dev.clone();
        st.borrow_mut().on_notify = Some(Box::new(move |q| d2.borrow_mut().on_notify(q)));
    }
    let mut sim = Sim { dev: dev.clone(), con: None, case: Case::new(id), seed, returned: 0, last_slice: vec![], honest: true, dead: false, stalls: 0, blocked_calls: 0, sent: 0 };
    sim.case.tag(if hostile { "stream=hostile" } else { "stream=honest" });
    sim.case.tag(if inplace { "platform=inplace" } else { "platform=bounce" });

    // ---- construction ----
    let r = guarded(|| Con::new(t));
    let negotiated = st.borrow().driver_features;
    let supported = F_SIZE | F_EMERG | F_INDIRECT | F_EVENT_IDX | F_VERSION_1 | F_ACCESS_PLATFORM;
    if negotiated != offered & supported {
        sim.case.fail(format!("negotiated features {:#x} != offered & supported {:#x}", negotiated, offered & supported));
    }
    let (qsz, cap) = {
        let s = st.borrow();
        let mut d = dev.borrow_mut();
        d.event_idx = negotiated & F_EVENT_IDX != 0;
        if s.queues.len() >= 2 && s.queues[0].set && s.queues[1].set {
            let (a, b) = (s.queues[0], s.queues[1]);
            d.rx = Some(RefQueue::new(a.size as u16, a.desc, a.driver, a.device, negotiated & F_INDIRECT != 0));
            d.tx = Some(RefQueue::new(b.size as u16, b.desc, b.driver, b.device, negotiated & F_INDIRECT != 0));
        }
        drop(s);
        d.fetch_rx();
        let cap = d.rx.as_ref().and_then(|q| q.inflight.first().map(|c| c.segs.iter().map(|s| s.len as usize).sum())).unwrap_or(0);
        d.cap = cap;
        (d.rx.as_ref().map(|q| q.size).unwrap_or(0), cap)
    };
    let op = format!(
        "con new cap={} qsz={} fsize={} femerg={} cfg={} cols={} rows={} seed={}",
        cap, qsz, (negotiated & F_SIZE != 0) as u8, (negotiated & F_EMERG != 0) as u8, cfg_len, cols, rows, seed
    );
    match r {
        Err(p) => {
            sim.case.step(op, "panic | rx=0 nt=0");
            sim.case.fail(format!("VirtIOConsole::new panicked: {}", p));
            DEV.with(|d| *d.borrow_mut() = None);
            return sim.case;
        }
        Ok(Err(e)) => {
            sim.case.step(op, format!("err {:?} | rx=0 nt=0", e));
            sim.case.fail(format!("VirtIOConsole::new failed: {:?}", e));
            DEV.with(|d| *d.borrow_mut() = None);
            return sim.case;
        }
        Ok(Ok(c)) => {
            sim.con = Some(c);
            let t = sim.tail(0);
            sim.after_call("new");
            sim.case.step(op, format!("ok{}", t));
        }
    }
    if cap != virtio_drivers::PAGE_SIZE {
        sim.case.fail(format!("receive buffer of {} bytes posted, expected PAGE_SIZE", cap));
    }
    sim.case.tag(format!("features={}{}{}", if negotiated & F_EVENT_IDX != 0 { "E" } else { "-" }, if negotiated & F_INDIRECT != 0 { "I" } else { "-" }, if negotiated & F_ACCESS_PLATFORM != 0 { "A" } else { "-" }));

    // ---- random walk ----
    let nops = match rng.below(4) {
        0 => rng.range(5, 30),
        1 | 2 => rng.range(30, 150),
        _ => rng.range(150, ctx.tier.pick(300, 600) as u64),
    } as usize;
    let mut kinds: BTreeMap<&'static str, usize> = BTreeMap::new();
    // per-case bias: uniform / byte-at-a-time callers (re-post happens inside recv) / BufRead callers
    let style = rng.below(3);
    sim.case.tag(format!("style={}", ["uniform", "recv-heavy", "bufread-heavy"][style as usize]));
    for _ in 0..nops {
        if sim.dead {
            break;
        }
        let mut k = rng.below(100);
        if style == 1 && rng.chance(1, 2) {
            k = if rng.chance(2, 3) { rng.below(20) } else { 62 };
        } else if style == 2 && rng.chance(1, 2) {
            k = rng.range(34, 43);
        }
        let mut con = sim.con.take().unwrap();
        match k {
            0..=19 => {
                // recv(pop) / recv(peek)
                let pop = k < 14;
                *kinds.entry(if pop { "recv_pop" } else { "recv_peek" }).or_default() += 1;
                let nt0 = sim.begin(Mode::Idle, &mut rng, hostile);
                // a device that reacts to the notification at once: if this call re-posts the receive
                // buffer, the next chunk is written into it before the call returns (on an in-place
                // platform that is the driver's own buffer)
                if pop && !hostile && rng.chance(1, 2) {
                    let mut d = sim.dev.borrow_mut();
                    let n = chunk_len(&mut rng, d.cap);
                    d.notify_fill = Some((n, n as u32));
                    if !d.event_idx && rng.chance(1, 2) {
                        // …or even earlier: at the index store that makes the buffer visible
                        d.store_fill = Some((n, n as u32));
                    }
                    d.raise_isr = false;
                }
                let r = guarded(|| con.recv(pop));
                let nf = {
                    let mut d = sim.dev.borrow_mut();
                    d.notify_fill = None;
                    d.store_fill = None;
                    d.notify_filled.take()
                };
                if let Ok(Ok(v)) = &r {
                    match v {
                        Some(b) => {
                            sim.expect_stream(if pop { "recv(pop)" } else { "recv(peek)" }, &[*b], pop);
                            if pop {
                                sim.last_slice.clear();
                            }
                        }
                        None => {
                            if sim.honest && sim.returned < sim.dev.borrow().pos {
                                sim.case.fail("recv returned None although the device had delivered bytes that were not returned yet");
                            }
                        }
                    }
                }
                let (o, p) = res_str(r, |v| match v {
                    None => "ok none".into(),
                    Some(b) => format!("ok byte {:02x}", b),
                });
                match nf {
                    None => sim.finish(format!("con recv pop={}", pop as u8), o, p, nt0, "recv"),
                    Some((n, cl, rx_at)) => {
                        // recorded as the call (as seen when its notification arrived) followed by
                        // the device's fill
                        let nt = sim.dev.borrow().rx_notifies - nt0;
                        sim.after_call("recv");
                        sim.case.step(format!("con recv pop={}", pop as u8), format!("{} | rx={} nt={}", o, rx_at, nt));
                        if p {
                            sim.dead = true;
                        }
                        let nt1 = sim.dev.borrow().rx_notifies;
                        sim.finish(format!("con dev fill={} claim={}", n, cl), "filled".into(), false, nt1, "device");
                        sim.case.tag("device_filled_at_notification");
                    }
                }
            }
            20..=33 => {
                // bulk read (blocking when nothing is pending)
                *kinds.entry("read").or_default() += 1;
                let n = read_size(&mut rng);
                let mut buf = vec![0u8; n];
                let nt0 = sim.begin(Mode::RxWait, &mut rng, hostile);
                // data is pending, so this call returns it without waiting; should it hand the receive
                // buffer back to the device on the way, a device that reacts to the notification at once
                // refills it before the call returns — whatever is delivered then must still come out
                // exactly once, in order
                let armed = !hostile && sim.returned < sim.dev.borrow().pos && rng.chance(1, 2);
                if armed {
                    let mut d = sim.dev.borrow_mut();
                    let m = chunk_len(&mut rng, d.cap);
                    d.notify_fill = Some((m, m as u32));
                    if !d.event_idx {
                        d.store_fill = Some((m, m as u32));
                    }
                    d.raise_isr = false;
                }
                let r = guarded(|| Read::read(&mut con, &mut buf));
                if armed {
                    let mut d = sim.dev.borrow_mut();
                    d.notify_fill = None;
                    d.store_fill = None;
                    if d.notify_filled.take().is_some() {
                        sim.case.tag("device_filled_inside_read");
                    }
                }
                let sc = sim.script();
                if let Ok(Ok(k)) = &r {
                    let k = *k;
                    if k > n || (n > 0 && k == 0) {
                        if sim.honest {
                            sim.case.fail(format!("read into {} bytes returned {}", n, k));
                        }
                    } else {
                        sim.expect_stream("read", &buf[..k], true);
                        if k > 0 {
                            sim.last_slice.clear();
                        }
                    }
                }
                let (o, p) = res_str(r, |k| format!("ok {} {}", k, bytes_str(&buf[..k.min(n)])));
                sim.finish(format!("con read n={} {}", n, sc), o, p, nt0, "read");
            }
            34..=43 => {
                // fill_buf, usually followed by consume
                *kinds.entry("fill_buf").or_default() += 1;
                let nt0 = sim.begin(Mode::RxWait, &mut rng, hostile);
                let r = guarded(|| BufRead::fill_buf(&mut con).map(|s| s.to_vec()));
                let sc = sim.script();
                if let Ok(Ok(s)) = &r {
                    if s.is_empty() && sim.honest {
                        sim.case.fail("fill_buf returned an empty view");
                    }
                    sim.expect_stream("fill_buf", s, false);
                    sim.last_slice = s.clone();
                }
                let (o, p) = res_str(r, |s| format!("ok slice {} {}", s.len(), bytes_str(&s)));
                sim.finish(format!("con fill_buf {}", sc), o, p, nt0, "fill_buf");
                if !sim.dead && rng.chance(4, 5) {
                    let avail = sim.last_slice.len();
                    let kk = match rng.below(6) {
                        0 => 0,
                        1 => avail,
                        2 => avail.saturating_sub(1),
                        3 => 1.min(avail),
                        _ => rng.range(0, avail as u64) as usize,
                    };
                    consume_op(&mut sim, &mut con, kk, &mut rng, hostile);
                }
            }
            44..=47 => {
                // consume on its own: 0, or (hostile stream) out of range
                *kinds.entry("consume").or_default() += 1;
                let kk = if hostile && rng.chance(1, 2) {
                    *rng.pick(&[1usize, 4097, usize::MAX, usize::MAX - 3, 1 << 63, 5000])
                } else {
                    0
                };
                consume_op(&mut sim, &mut con, kk, &mut rng, hostile);
            }
            48..=53 => {
                *kinds.entry("read_ready").or_default() += 1;
                let nt0 = sim.begin(Mode::Idle, &mut rng, hostile);
                let r = guarded(|| ReadReady::read_ready(&mut con));
                if let Ok(Ok(b)) = &r {
                    let want = sim.returned < sim.dev.borrow().pos;
                    if sim.honest && *b != want {
                        sim.case.fail(format!("read_ready = {} although {} delivered bytes are unreturned", b, sim.dev.borrow().pos - sim.returned));
                    }
                }
                let (o, p) = res_str(r, |b| format!("ok {}", b as u8));
                sim.finish("con read_ready".into(), o, p, nt0, "read_ready");
            }
            54..=61 => {
                *kinds.entry("ack_interrupt").or_default() += 1;
                // the interrupt status is whatever the device left there, or arbitrary
                if rng.chance(1, 3) {
                    st.borrow_mut().isr = rng.below(4) as u32;
                }
                let isr = st.borrow().isr;
                let nt0 = sim.begin(Mode::Idle, &mut rng, hostile);
                let r = guarded(|| con.ack_interrupt());
                if let Ok(Ok(true)) = &r {
                    if sim.honest && sim.returned >= sim.dev.borrow().pos {
                        sim.case.fail("ack_interrupt reported new data although the device delivered none");
                    }
                }
                let (o, p) = res_str(r, |b| format!("ok {}", b as u8));
                sim.finish(format!("con ack isr={}", isr), o, p, nt0, "ack_interrupt");
            }
            62..=81 => {
                // the device acts between two calls
                *kinds.entry("dev_fill").or_default() += 1;
                let nt0 = {
                    let mut d = sim.dev.borrow_mut();
                    d.raise_isr = rng.chance(2, 3);
                    d.rx_notifies
                };
                let cap = sim.dev.borrow().cap;
                let (n, cl) = if hostile && rng.chance(1, 4) {
                    hostile_fill(&mut rng, cap)
                } else {
                    let n = chunk_len(&mut rng, cap);
                    (n, n as u32)
                };
                let done = sim.dev.borrow_mut().fill(n, cl);
                if done && (cl as usize != n || n == 0) {
                    sim.honest = false;
                }
                sim.finish(format!("con dev fill={} claim={}", n, cl), if done { "filled".into() } else { "nobuf".into() }, false, nt0, "device");
            }
            82..=93 => {
                // transmit
                let which = rng.below(5);
                let n = match rng.below(6) {
                    0 => 1,
                    1 | 2 => rng.range(1, 16) as usize,
                    3 => rng.range(17, 200) as usize,
                    4 => *rng.pick(&[4096usize, 5000, 255, 256]),
                    _ => {
                        if hostile || which == 2 {
                            0
                        } else {
                            2
                        }
                    }
                };
                let g = rng.below(60000);
                let nt0 = sim.begin(Mode::TxWait, &mut rng, hostile);
                let w0 = sim.dev.borrow().wire.len();
                let (op, want, r): (String, Vec<u8>, Result<Result<Option<usize>, virtio_drivers::Error>, String>) = match which {
                    0 => {
                        *kinds.entry("send").or_default() += 1;
                        let b = stream_byte(g, 0);
                        (format!("con send b={}", b), vec![b], guarded(|| con.send(b).map(|_| None)))
                    }
                    1 => {
                        *kinds.entry("send_bytes").or_default() += 1;
                        let d = stream_chunk(g, 0, n);
                        (format!("con send_bytes n={} g={}", n, g), d.clone(), guarded(|| con.send_bytes(&d).map(|_| None)))
                    }
                    2 => {
                        *kinds.entry("write").or_default() += 1;
                        let d = stream_chunk(g, 0, n);
                        (format!("con write n={} g={}", n, g), d.clone(), guarded(|| embedded_io::Write::write(&mut con, &d).map(Some)))
                    }
                    4 => {
                        // fmt::Write::write_char / write!("{}", char): the character's UTF-8 encoding is
                        // what must reach the device (one to four bytes), not a truncation of its code point
                        *kinds.entry("write_char").or_default() += 1;
                        const CPS: [u32; 12] = [0x41, 0x7f, 0x80, 0xe9, 0x7ff, 0x800, 0x20ac, 0xd7ff, 0xe000, 0xffff, 0x10000, 0x1f600];
                        let cp = CPS[(g % 12) as usize];
                        let ch = char::from_u32(cp).unwrap();
                        let mut b4 = [0u8; 4];
                        let d = ch.encode_utf8(&mut b4).as_bytes().to_vec();
                        if g % 2 == 0 {
                            (format!("con write_char cp={}", cp), d, guarded(|| core::fmt::Write::write_char(&mut con, ch).map(|_| None).map_err(|_| virtio_drivers::Error::IoError)))
                        } else {
                            (format!("con write_char cp={}", cp), d, guarded(|| { use core::fmt::Write; write!(con, "{}", ch).map(|_| None).map_err(|_| virtio_drivers::Error::IoError) }))
                        }
                    }
                    _ => {
                        *kinds.entry("write_str").or_default() += 1;
                        let d: Vec<u8> = stream_chunk(g, 0, n).into_iter().map(|b| b % 128).collect();
                        let s = String::from_utf8(d.clone()).unwrap();
                        (format!("con write_str n={} g={}", n, g), d, guarded(|| core::fmt::Write::write_str(&mut con, &s).map(|_| None).map_err(|_| virtio_drivers::Error::IoError)))
                    }
                };
                sim.dev.borrow_mut().mode = Mode::Idle;
                let new_chains: Vec<Vec<u8>> = sim.dev.borrow().wire[w0..].to_vec();
                // O5
                match &r {
                    Ok(Ok(res)) => {
                        if want.is_empty() {
                            if !new_chains.is_empty() {
                                sim.case.fail("an empty write put a chain on the transmit queue");
                            }
                        } else if new_chains.len() != 1 || new_chains[0] != want {
                            sim.case.fail(format!("send of {} bytes: device saw {} chain(s), first {} — not exactly the caller's bytes", want.len(), new_chains.len(), new_chains.first().map(|c| bytes_str(c)).unwrap_or_default()));
                        } else {
                            sim.sent += 1;
                        }
                        if let Some(k) = res {
                            if *k != want.len() {
                                sim.case.fail(format!("write of {} bytes reported {}", want.len(), k));
                            }
                        }
                    }
                    Ok(Err(e)) => sim.case.fail(format!("send failed: {:?}", e)),
                    Err(_) => {}
                }
                let wire_s = new_chains.first().map(|c| bytes_str(c)).unwrap_or_else(|| "-".into());
                let (o, p) = res_str(r, |res| match res {
                    Some(k) if want.is_empty() => format!("ok {}", k),
                    Some(k) => format!("n={} ok wire={}", k, wire_s),
                    None => format!("ok wire={}", wire_s),
                });
                sim.finish(op, o, p, nt0, "send");
            }
            94..=96 => {
                *kinds.entry("size").or_default() += 1;
                let nt0 = sim.begin(Mode::Idle, &mut rng, hostile);
                let r = guarded(|| con.size());
                let (o, p) = res_str(r, |s| match s {
                    None => "ok none".into(),
                    Some(s) => format!("ok {}x{}", s.columns, s.rows),
                });
                sim.finish("con size".into(), o, p, nt0, "size");
            }
            _ => {
                *kinds.entry("emergency_write").or_default() += 1;
                let b = rng.below(256) as u8;
                let nt0 = sim.begin(Mode::Idle, &mut rng, hostile);
                let r = guarded(|| con.emergency_write(b));
                let got = {
                    let s = st.borrow();
                    if s.config.len() >= 12 { u32::from_le_bytes(s.config[8..12].try_into().unwrap()) } else { 0 }
                };
                let (o, p) = res_str(r, |_| format!("ok cfgw=8:{}", got));
                sim.finish(format!("con emerg b={}", b), o, p, nt0, "emergency_write");
            }
        }
        sim.con = Some(con);
        // observation (DESIGN §6, outside the property): nothing pending, nothing posted
        if !sim.dead && sim.honest {
            let mut d = sim.dev.borrow_mut();
            if d.rx_outstanding() == 0 && sim.returned == d.pos {
                drop(d);
                sim.stalls += 1;
            }
        }
    }

    // ---- drain (O2) ----
    if !sim.dead {
        let mut con = sim.con.take().unwrap();
        let mut guard = 0;
        loop {
            guard += 1;
            if guard > 64 {
                sim.case.fail("drain did not terminate");
                break;
            }
            let nt0 = sim.begin(Mode::Idle, &mut rng, false);
            let r = guarded(|| ReadReady::read_ready(&mut con));
            let ready = matches!(r, Ok(Ok(true)));
            let (o, p) = res_str(r, |b| format!("ok {}", b as u8));
            sim.finish("con read_ready".into(), o, p, nt0, "read_ready");
            if !ready || sim.dead {
                break;
            }
            let mut buf = vec![0u8; 4096];
            let nt0 = sim.begin(Mode::RxWait, &mut rng, false);
            let r = guarded(|| Read::read(&mut con, &mut buf));
            let sc = sim.script();
            if let Ok(Ok(k)) = &r {
                let k = (*k).min(4096);
                sim.expect_stream("read (drain)", &buf[..k], true);
            }
            let (o, p) = res_str(r, |k| format!("ok {} {}", k, bytes_str(&buf[..k.min(4096)])));
            sim.finish(format!("con read n=4096 {}", sc), o, p, nt0, "read");
            if sim.dead {
                break;
            }
        }
        if !sim.dead {
            let nt0 = sim.begin(Mode::Idle, &mut rng, false);
            let r = guarded(|| con.recv(true));
            if let Ok(Ok(Some(_))) = &r {
                if sim.honest {
                    sim.case.fail("recv returned a byte after the stream was drained");
                }
            }
            let (o, p) = res_str(r, |v| match v {
                None => "ok none".into(),
                Some(b) => format!("ok byte {:02x}", b),
            });
            sim.finish("con recv pop=1".into(), o, p, nt0, "recv");
        }
        if sim.honest && !sim.dead {
            let pos = sim.dev.borrow().pos;
            if sim.returned != pos {
                sim.case.fail(format!("after draining, {} bytes returned but the device wrote {} (bytes lost)", sim.returned, pos));
            }
        }
        if !sim.dead && sim.honest && !hostile && idx % 100 == 7 {
            // long-run epilogue (oracles only): 66 000 more one-byte chunks, each delivered and read at once;
            // the 16-bit ring indices of the receive queue wrap on the way and nothing may be lost
            sim.case.tag("long-run");
            for j in 0..66_000u32 {
                {
                    let mut d = sim.dev.borrow_mut();
                    d.mode = Mode::RxWait;
                    d.spins = 0;
                    d.idle_left = 0;
                    d.op_idle = 0;
                    d.op_fill = None;
                    d.plan_fill = 1;
                    d.plan_claim = 1;
                    d.raise_isr = false;
                }
                let mut one = [0u8; 1];
                let r = guarded(|| Read::read(&mut con, &mut one));
                sim.dev.borrow_mut().mode = Mode::Idle;
                match r {
                    Ok(Ok(1)) => sim.expect_stream("read", &one, true),
                    other => {
                        sim.case.fail(format!("long run: blocking one-byte read number {} returned {:?} (the device delivers one byte per request)", j, other.map(|r| r.map_err(|e| format!("{:?}", e)))));
                        break;
                    }
                }
                if !sim.case.oracle_failures.is_empty() {
                    break;
                }
            }
        }
        if !sim.dead {
            // hostile epilogue (oracles only, nothing recorded for the model): the device reports a
            // completion whose id is not the outstanding receive request, then the caller keeps
            // polling.  The receive buffer must not be handed out a second time while it is still
            // shared (ledger: overlapping share), nothing may be unshared twice.
            // bring the driver into the state "one receive request outstanding, nothing pending":
            // a one-byte blocking read against a device that delivers two bytes, then single-byte
            // pops (the pop of the last pending byte re-posts the buffer)
            for _ in 0..2 {
                {
                    let mut d = dev.borrow_mut();
                    d.mode = Mode::RxWait;
                    d.spins = 0;
                    d.idle_left = 0;
                    d.op_idle = 0;
                    d.op_fill = None;
                    d.plan_fill = 2;
                    d.plan_claim = 2;
                    d.raise_isr = false;
                }
                let mut one = [0u8; 1];
                let _ = guarded(|| Read::read(&mut con, &mut one));
                dev.borrow_mut().mode = Mode::Idle;
                let _ = guarded(|| while let Ok(Some(_)) = con.recv(true) {});
            }
            let bogus = {
                let mut d = dev.borrow_mut();
                d.fetch_rx();


                match d.rx.as_mut() {
                    Some(q) => {
                        let n = q.size.max(2);
                        match q.inflight.first().map(|c| (c.head + 1) % n) {
                            Some(id) => q.push_used_raw(id as u32, 1).is_ok(),
                            None => false,
                        }
                    }
                    None => false,
                }
            };
            if bogus {
                // the caller keeps trying to read; the device stays silent.  A correct driver waits for
                // its outstanding request for ever (the harness ends the busy-wait by a panic after
                // 200000 spins, which is caught here and is not a failure)
                for _ in 0..2 {
                    {
                        let mut d = dev.borrow_mut();
                        d.mode = Mode::Idle;
                        d.spins = 0;
                    }
                    let mut one = [0u8; 1];
                    let _ = guarded(|| Read::read(&mut con, &mut one));
                }
                sim.case.tag("epilogue:bogus_rx_id");
            }
        }
        sim.con = Some(con);
    }
    // dropping the driver must not upset the ledger either
    let con = sim.con.take();
    let _ = guarded(move || drop(con));
    DEV.with(|d| *d.borrow_mut() = None);
    st.borrow_mut().on_notify = None;
    for e in std::mem::take(&mut dev.borrow_mut().errors) {
        if e.starts_with("[C") {
            sim.case.fail(e);
        } else {
            sim.case.fail(format!("device: {}", e));
        }
    }
    for v in hal::with(|h| std::mem::take(&mut h.violations)) {
        sim.case.fail(format!("ledger: {}", v));
    }
    for (k, _) in kinds {
        sim.case.tag(format!("op={}", k));
    }
    let pos = dev.borrow().pos;
    sim.case.tag(format!("bytes_received={}", if pos == 0 { "0" } else if pos < 100 { "1..99" } else if pos < 10000 { "100..9999" } else { ">=10000" }));
    if sim.blocked_calls > 0 {
        sim.case.tag("device_filled_inside_blocking_call");
    }
    if sim.stalls > 0 {
        sim.case.tag("observed:nothing_posted_and_nothing_pending");
    }
    if sim.dead {
        sim.case.tag("ended_by_panic");
    }
    // non-trivial: at least one chunk travelled device → caller and at least one send was seen
    sim.case.nontrivial = sim.returned > 0 && (sim.sent > 0 || hostile);
    sim.case
}

fn consume_op(sim: &mut Sim, con: &mut Con, kk: usize, rng: &mut Rng, hostile: bool) {
    use embedded_io::BufRead;
    let nt0 = sim.begin(Mode::Idle, rng, hostile);
    let r = guarded(|| {
        BufRead::consume(con, kk);
        Ok(())
    });
    if r.is_ok() {
        // bytes handed over = prefix of what the last fill_buf showed (if that view is still current)
        if kk <= sim.last_slice.len() {
            let s = sim.last_slice[..kk].to_vec();
            sim.expect_stream("consume", &s, true);
            sim.last_slice.drain(..kk);
        } else {
            // the caller skipped bytes it was never shown; the driver accepted, so they count as
            // handed over — they must at least exist (O1: never more than the device has written)
            sim.last_slice.clear();
            if sim.honest {
                let pos = sim.dev.borrow().pos;
                if (kk as u64) > pos - sim.returned.min(pos) {
                    sim.case.fail(format!("consume({}) accepted although only {} delivered bytes were unreturned (the stream position moves past the data)", kk, pos - sim.returned.min(pos)));
                    sim.honest = false;
                } else {
                    sim.returned += kk as u64;
                }
            }
        }
    } else if sim.honest && kk <= sim.last_slice.len() {
        sim.case.fail(format!("consume({}) panicked although fill_buf showed {} bytes", kk, sim.last_slice.len()));
    }
    let (o, p) = res_str(r, |_| "ok".into());
    sim.finish(format!("con consume k={}", kk), o, p, nt0, "consume");
}

pub fn run(ctx: &Ctx) -> (Vec<Case>, String, bool, BTreeMap<String, String>) {
    virtio_drivers::verif_hooks::set_spin_hook(Some(spin_hook));
    virtio_drivers::verif_hooks::set_store_hook(Some(store_hook));
    let n_honest = ctx.tier.pick(600, 8000);
    let n_hostile = ctx.tier.pick(200, 2000);
    let mut cases = crate::runner::par_cases(ctx, "C15", "walk", n_honest, |i, id| one_case(ctx, "walk", i, id, false));
    cases.extend(crate::runner::par_cases(ctx, "C15", "hostile", n_hostile, |i, id| one_case(ctx, "hostile", i, id, true)));
    virtio_drivers::verif_hooks::set_spin_hook(None);
    // back to the default store observers (other streams of the same check run after this one)
    crate::cq_queue::install_hooks();
    let stalls = cases.iter().filter(|c| c.tags.iter().any(|t| t.starts_with("observed:"))).count();
    let mut extra = BTreeMap::new();
    extra.insert(
        "x_observation_outside_property".into(),
        crate::proto::json_str(&format!(
            "in {} of {} cases a state was reached in which all received data had been returned and NO receive buffer was posted (after a bulk read/consume drained the chunk): the buffer is re-posted only by the next blocking call or recv(pop) of a later chunk, so a caller that only polls recv()/read_ready()/ack_interrupt() receives nothing further (DESIGN §6 observation; not part of C15)",
            stalls,
            cases.len()
        )),
    );
    let rule = "random walks over the real VirtIOConsole: recv(pop/peek), Read::read (sizes 0..8192), BufRead::fill_buf+consume, ReadReady, ack_interrupt (ISR as left by the device or arbitrary), send/send_bytes/Write::write/fmt::Write::write_str/write_char/write! of a char (ASCII to four-byte UTF-8), size(), emergency_write, and device fills of 1..4096 bytes between calls and inside blocking calls (spin hook); features SIZE/EMERG_WRITE/INDIRECT/EVENT_IDX/ACCESS_PLATFORM and config-space length varied; stream `hostile` adds zero/oversized/over-/under-reported device lengths, out-of-range consume and empty sends; every case ends with a drain; non-trivial = at least one byte travelled device->caller and (honest stream) at least one send reached the device".to_string();
    (cases, rule, false, extra)
}

#[cfg(test)]
mod tests {
    use super::*;
    #[test]
    fn stream_is_position_dependent() {
        assert_ne!(stream_chunk(1, 0, 64), stream_chunk(1, 1, 64));
        assert_ne!(stream_chunk(1, 0, 64), stream_chunk(1, 256, 64));
    }
}
