//! Reference virtio-gpu device (VirtIO 1.2 §5.7, 2D commands + EDID + cursor queue) and the case
//! driver running the real `VirtIOGpu` against it.

use super::edid_spec;
use super::{F_ACCESS_PLATFORM, F_EVENT_IDX, F_INDIRECT, F_VERSION_1, hex, le32, le64, refq};
use crate::hal::{self, DMA_BASE, DMA_STRIDE, HalEv, LedgerHal};
use crate::mtrans::{ModelTransport, TCall, TState};
use crate::proto::Case;
use crate::refdev::{Chain, RefQueue};
use crate::rng::{Rng, fnv64};
use crate::runner::{Ctx, guarded};
use std::cell::RefCell;
use std::collections::{BTreeMap, VecDeque};
use std::rc::Rc;
use virtio_drivers::device::gpu::VirtIOGpu;
use virtio_drivers::transport::DeviceType;

// ---- numbers from §5.7.6.7 `enum virtio_gpu_ctrl_type` ----
const GET_DISPLAY_INFO: u32 = 0x0100;
const RESOURCE_CREATE_2D: u32 = 0x0101;
const RESOURCE_UNREF: u32 = 0x0102;
const SET_SCANOUT: u32 = 0x0103;
const RESOURCE_FLUSH: u32 = 0x0104;
const TRANSFER_TO_HOST_2D: u32 = 0x0105;
const RESOURCE_ATTACH_BACKING: u32 = 0x0106;
const RESOURCE_DETACH_BACKING: u32 = 0x0107;
const GET_EDID: u32 = 0x010a;
const UPDATE_CURSOR: u32 = 0x0300;
const MOVE_CURSOR: u32 = 0x0301;
const OK_NODATA: u32 = 0x1100;
const OK_DISPLAY_INFO: u32 = 0x1101;
const OK_EDID: u32 = 0x1104;
const ERR_UNSPEC: u32 = 0x1200;
const ERR_OUT_OF_MEMORY: u32 = 0x1201;
const ERR_INVALID_SCANOUT_ID: u32 = 0x1202;
const ERR_INVALID_RESOURCE_ID: u32 = 0x1203;
const ERR_INVALID_PARAMETER: u32 = 0x1205;
const F_EDID: u64 = 1 << 1;
/// largest resource the reference device accepts (keeps host allocations of the harness small)
const MAX_RES_BYTES: u64 = 4 << 20;

fn area4(w: u32, h: u32) -> u128 {
    w as u128 * h as u128 * 4
}

fn ok_for(cmd: u32) -> u32 {
    match cmd {
        GET_DISPLAY_INFO => OK_DISPLAY_INFO,
        GET_EDID => OK_EDID,
        _ => OK_NODATA,
    }
}

/// size of the request structure of a command, by the specification
fn struct_size(cmd: u32, rd: &[u8]) -> usize {
    match cmd {
        GET_DISPLAY_INFO => 24,
        RESOURCE_CREATE_2D => 40,
        RESOURCE_UNREF | RESOURCE_DETACH_BACKING | GET_EDID => 32,
        SET_SCANOUT | RESOURCE_FLUSH => 48,
        TRANSFER_TO_HOST_2D | UPDATE_CURSOR | MOVE_CURSOR => 56,
        RESOURCE_ATTACH_BACKING => {
            let n = if rd.len() >= 32 { le32(rd, 28) as usize } else { 0 };
            32 + 16 * n.min(16)
        }
        _ => 24,
    }
}

#[derive(Clone, Debug, Default)]
struct Resource {
    w: u32,
    h: u32,
    backing: Vec<(u64, u32)>,
    /// snapshot of the backing taken by the last TRANSFER_TO_HOST_2D (bounded)
    host: Vec<u8>,
}

#[derive(Clone, Debug)]
enum DevEv {
    Attach { res: u32, regions: Vec<usize> },
    Detach { res: u32 },
    Error,
}

#[derive(Clone, Debug)]
pub struct ReqRec {
    tick: u64,
    q: usize,
    cmd: u32,
    bytes: Vec<u8>,
    /// what the driver finds in its response buffer (written bytes, then the platform's poison)
    rsp_eff: Vec<u8>,
    rsp_type: u32,
}

#[derive(Clone, Copy, Debug)]
enum Forced {
    Natural,
    Type(u32),
    /// natural type, but only the header is written
    Short,
}

pub struct GpuDev {
    st: Rc<RefCell<TState>>,
    q: [Option<RefQueue>; 2],
    event_idx: bool,
    num_scanouts: u32,
    resources: BTreeMap<u32, Resource>,
    scanout0: u32,
    display: (u32, u32, u32, u32),
    edid: (Vec<u8>, u32),
    forced: VecDeque<Forced>,
    rng: Rng,
    reqs: Vec<ReqRec>,
    devevs: Vec<(u64, DevEv)>,
    fails: Vec<String>,
    /// complaints about command order / backing: meaningful only in histories without device errors
    order_fails: Vec<String>,
    last_ok_ctrl: Option<(u32, u32, (u32, u32, u32, u32))>,
    cursor: Option<(u32, u32, u32, u32, u32, u32)>, // cmd, x, y, res, hot_x, hot_y
}

fn rect_at(b: &[u8], o: usize) -> (u32, u32, u32, u32) {
    (le32(b, o), le32(b, o + 4), le32(b, o + 8), le32(b, o + 12))
}

impl GpuDev {
    fn natural(&self, cmd: u32, rd: &[u8]) -> u32 {
        let inside = |r: (u32, u32, u32, u32), res: &Resource| {
            r.2 != 0 && r.3 != 0 && r.0 as u64 + r.2 as u64 <= res.w as u64 && r.1 as u64 + r.3 as u64 <= res.h as u64
        };
        match cmd {
            GET_DISPLAY_INFO => OK_DISPLAY_INFO,
            GET_EDID => {
                if self.st.borrow().driver_features & F_EDID == 0 {
                    ERR_UNSPEC
                } else if le32(rd, 24) >= self.num_scanouts {
                    ERR_INVALID_SCANOUT_ID
                } else {
                    OK_EDID
                }
            }
            RESOURCE_CREATE_2D => {
                let (id, format, w, h) = (le32(rd, 24), le32(rd, 28), le32(rd, 32), le32(rd, 36));
                if id == 0 || self.resources.contains_key(&id) {
                    ERR_INVALID_RESOURCE_ID
                } else if ![1u32, 2, 3, 4, 67, 68, 121, 134].contains(&format) || w == 0 || h == 0 {
                    ERR_INVALID_PARAMETER
                } else if area4(w, h) > MAX_RES_BYTES as u128 {
                    ERR_OUT_OF_MEMORY
                } else {
                    OK_NODATA
                }
            }
            RESOURCE_UNREF | RESOURCE_DETACH_BACKING => {
                if self.resources.contains_key(&le32(rd, 24)) { OK_NODATA } else { ERR_INVALID_RESOURCE_ID }
            }
            SET_SCANOUT => {
                let (r, sc, id) = (rect_at(rd, 24), le32(rd, 40), le32(rd, 44));
                if sc >= self.num_scanouts {
                    ERR_INVALID_SCANOUT_ID
                } else if id == 0 {
                    OK_NODATA
                } else {
                    match self.resources.get(&id) {
                        None => ERR_INVALID_RESOURCE_ID,
                        Some(res) if !inside(r, res) => ERR_INVALID_PARAMETER,
                        Some(_) => OK_NODATA,
                    }
                }
            }
            RESOURCE_FLUSH => match self.resources.get(&le32(rd, 40)) {
                None => ERR_INVALID_RESOURCE_ID,
                Some(res) if !inside(rect_at(rd, 24), res) => ERR_INVALID_PARAMETER,
                Some(_) => OK_NODATA,
            },
            TRANSFER_TO_HOST_2D => match self.resources.get(&le32(rd, 48)) {
                None => ERR_INVALID_RESOURCE_ID,
                Some(res) if res.backing.is_empty() => ERR_UNSPEC,
                Some(res) if !inside(rect_at(rd, 24), res) => ERR_INVALID_PARAMETER,
                Some(_) => OK_NODATA,
            },
            RESOURCE_ATTACH_BACKING => match self.resources.get(&le32(rd, 24)) {
                None => ERR_INVALID_RESOURCE_ID,
                Some(res) if !res.backing.is_empty() => ERR_UNSPEC,
                Some(_) if le32(rd, 28) == 0 || le32(rd, 28) > 16 => ERR_INVALID_PARAMETER,
                Some(_) => OK_NODATA,
            },
            _ => ERR_UNSPEC,
        }
    }

    /// effects of a command the device accepts; order/backing oracles of the property live here
    fn apply(&mut self, cmd: u32, rd: &[u8], tick: u64) {
        match cmd {
            RESOURCE_CREATE_2D => {
                self.resources.insert(le32(rd, 24), Resource { w: le32(rd, 32), h: le32(rd, 36), ..Default::default() });
            }
            RESOURCE_UNREF => {
                let id = le32(rd, 24);
                if let Some(r) = self.resources.remove(&id) {
                    if !r.backing.is_empty() {
                        self.devevs.push((tick, DevEv::Detach { res: id }));
                    }
                }
                if self.scanout0 == id {
                    self.scanout0 = 0;
                }
            }
            RESOURCE_DETACH_BACKING => {
                let id = le32(rd, 24);
                if let Some(r) = self.resources.get_mut(&id) {
                    r.backing.clear();
                }
                self.devevs.push((tick, DevEv::Detach { res: id }));
            }
            RESOURCE_ATTACH_BACKING => {
                let id = le32(rd, 24);
                let n = le32(rd, 28) as usize;
                let mut entries = vec![];
                let mut regions = vec![];
                let mut total = 0u64;
                for i in 0..n {
                    let (a, l, pad) = (le64(rd, 32 + 16 * i), le32(rd, 40 + 16 * i), le32(rd, 44 + 16 * i));
                    if pad != 0 {
                        self.fails.push(format!("RESOURCE_ATTACH_BACKING entry {} has non-zero padding", i));
                    }
                    if let Err(e) = hal::translate(a, l as usize) {
                        self.order_fails.push(format!("RESOURCE_ATTACH_BACKING entry {} is not live DMA memory of its length: {}", i, e));
                    }
                    if a >= DMA_BASE {
                        regions.push(((a - DMA_BASE) / DMA_STRIDE) as usize);
                    }
                    total += l as u64;
                    entries.push((a, l));
                }
                let res = self.resources.get_mut(&id).unwrap();
                let need = area4(res.w, res.h);
                if (total as u128) < need {
                    self.order_fails.push(format!("backing of resource {:#x} covers {} bytes, resource needs {}", id, total, need));
                }
                res.backing = entries;
                self.devevs.push((tick, DevEv::Attach { res: id, regions }));
            }
            SET_SCANOUT => {
                let id = le32(rd, 44);
                if id != 0 && self.resources[&id].backing.is_empty() {
                    self.order_fails.push(format!("SET_SCANOUT of resource {:#x} before RESOURCE_ATTACH_BACKING", id));
                }
                self.scanout0 = id;
            }
            TRANSFER_TO_HOST_2D => {
                let id = le32(rd, 48);
                let res = self.resources.get_mut(&id).unwrap();
                let mut host = vec![];
                for (a, l) in res.backing.clone() {
                    let take = (l as usize).min(65536usize.saturating_sub(host.len()));
                    match hal::dev_read(a, take) {
                        Ok(v) => host.extend(v),
                        Err(e) => self.order_fails.push(format!("TRANSFER_TO_HOST_2D: backing of resource {:#x} not accessible: {}", id, e)),
                    }
                }
                res.host = host;
            }
            RESOURCE_FLUSH => {
                let (r, id) = (rect_at(rd, 24), le32(rd, 40));
                match self.last_ok_ctrl {
                    Some((TRANSFER_TO_HOST_2D, tid, tr)) if tid == id && tr == r => {}
                    other => self.order_fails.push(format!(
                        "RESOURCE_FLUSH of resource {:#x} rect {:?} not directly preceded by a matching TRANSFER_TO_HOST_2D (previous accepted command: {:?})",
                        id, r, other
                    )),
                }
            }
            _ => {}
        }
        let key = match cmd {
            TRANSFER_TO_HOST_2D => Some((cmd, le32(rd, 48), rect_at(rd, 24))),
            _ => Some((cmd, 0, (0, 0, 0, 0))),
        };
        self.last_ok_ctrl = key;
    }

    fn process(&mut self, qi: usize, q: &mut RefQueue, c: Chain) {
        let tick = hal::tick();
        let rd = match q.read_in(&c) {
            Ok(v) => v,
            Err(e) => {
                self.fails.push(format!("gpu: request not readable: {}", e));
                let _ = q.complete(c.head, 0);
                return;
            }
        };
        if rd.len() < 24 {
            self.fails.push(format!("gpu queue {}: request of {} bytes is shorter than virtio_gpu_ctrl_hdr", qi, rd.len()));
            let _ = q.complete(c.head, 0);
            return;
        }
        let cmd = le32(&rd, 0);
        let need = struct_size(cmd, &rd);
        if rd.len() < need {
            self.fails.push(format!("gpu: command {:#x} carries {} readable bytes, structure needs {}", cmd, rd.len(), need));
            let _ = q.complete(c.head, 0);
            return;
        }
        // header fields of a 2D command without fence: all zero (§5.7.6.7)
        if le32(&rd, 4) != 0 || le64(&rd, 8) != 0 || le32(&rd, 16) != 0 || le32(&rd, 20) != 0 {
            self.fails.push(format!("gpu: command {:#x} has non-zero flags/fence_id/ctx_id/padding in its header", cmd));
        }
        let bytes = rd[..need].to_vec();
        if qi == 1 {
            // cursor queue: virtio_gpu_update_cursor, no response
            if cmd != UPDATE_CURSOR && cmd != MOVE_CURSOR {
                self.fails.push(format!("cursor queue carries command {:#x}", cmd));
            } else {
                if le32(&rd, 36) != 0 || le32(&rd, 52) != 0 {
                    self.fails.push("cursor command with non-zero padding".into());
                }
                let res = le32(&rd, 40);
                if cmd == UPDATE_CURSOR && res != 0 {
                    match self.resources.get(&res) {
                        None => self.order_fails.push(format!("UPDATE_CURSOR with unknown resource {:#x}", res)),
                        Some(r) if r.backing.is_empty() || r.host.is_empty() => {
                            self.order_fails.push(format!("UPDATE_CURSOR with resource {:#x} that has no transferred image", res))
                        }
                        Some(_) => {}
                    }
                }
                self.cursor = Some((cmd, le32(&rd, 28), le32(&rd, 32), res, le32(&rd, 44), le32(&rd, 48)));
            }
            self.reqs.push(ReqRec { tick, q: 1, cmd, bytes, rsp_eff: vec![], rsp_type: 0 });
            let _ = q.complete(c.head, 0);
            return;
        }
        if q.writable_len(&c) < 24 {
            self.fails.push(format!("gpu: command {:#x} has no room for a response header", cmd));
        }
        let known = matches!(
            cmd,
            GET_DISPLAY_INFO | RESOURCE_CREATE_2D | RESOURCE_UNREF | SET_SCANOUT | RESOURCE_FLUSH | TRANSFER_TO_HOST_2D | RESOURCE_ATTACH_BACKING | RESOURCE_DETACH_BACKING | GET_EDID
        );
        if !known {
            self.fails.push(format!("gpu: unknown control command {:#x}", cmd));
        }
        let nat = self.natural(cmd, &rd);
        let (fin, short) = match self.forced.pop_front().unwrap_or(Forced::Natural) {
            Forced::Natural => (nat, false),
            Forced::Short => (nat, true),
            Forced::Type(t) if t == ok_for(cmd) => (nat, false),
            Forced::Type(t) => (t, false),
        };
        if fin == ok_for(cmd) {
            self.apply(cmd, &rd, tick);
        } else {
            self.devevs.push((tick, DevEv::Error));
        }
        let mut rsp = vec![];
        rsp.extend(fin.to_le_bytes());
        rsp.extend([0u8; 20]);
        if !short {
            if fin == OK_DISPLAY_INFO {
                for i in 0..16 {
                    if i == 0 {
                        for v in [self.display.0, self.display.1, self.display.2, self.display.3, 1, 0] {
                            rsp.extend(v.to_le_bytes());
                        }
                    } else {
                        rsp.extend([0u8; 24]);
                    }
                }
            } else if fin == OK_EDID {
                rsp.extend(self.edid.1.to_le_bytes());
                rsp.extend([0u8; 4]);
                rsp.extend(&self.edid.0);
            }
        }
        let room = q.writable_len(&c);
        if room < rsp.len() {
            self.fails.push(format!("gpu: response of {} bytes does not fit the {} writable bytes of command {:#x}", rsp.len(), room, cmd));
            rsp.truncate(room);
        }
        if let Err(e) = q.write_out(&c, &rsp) {
            self.fails.push(format!("gpu: response buffer not writable: {}", e));
        }
        let want = match cmd {
            GET_EDID => 1056,
            GET_DISPLAY_INFO => 48,
            _ => 24,
        };
        let mut eff = rsp.clone();
        eff.truncate(want);
        while eff.len() < want {
            eff.push(0xA5);
        }
        self.reqs.push(ReqRec { tick, q: 0, cmd, bytes, rsp_eff: eff, rsp_type: fin });
        let _ = q.complete(c.head, rsp.len() as u32);
    }

    pub fn service(&mut self) {
        for qi in 0..2 {
            if self.q[qi].is_none() {
                self.q[qi] = refq(&self.st.borrow(), qi);
            }
            let Some(mut q) = self.q[qi].take() else { continue };
            loop {
                match q.fetch_one() {
                    Ok(Some(c)) => self.process(qi, &mut q, c),
                    Ok(None) => break,
                    Err(e) => {
                        self.fails.push(format!("gpu queue {}: malformed chain: {}", qi, e));
                        break;
                    }
                }
            }
            if self.event_idx {
                let _ = q.set_avail_event(q.fetch_idx);
            }
            self.q[qi] = Some(q);
        }
    }
}

#[derive(Clone, Debug)]
enum Op {
    Resolution,
    GetEdid(u32),
    SetupFb,
    ChangeRes(u32, u32),
    Flush,
    SetupCursor(usize, u32, u32, u32, u32),
    MoveCursor(u32, u32),
}

fn gen_dims(rng: &mut Rng, malformed: bool) -> (u32, u32) {
    if !malformed || rng.chance(1, 2) {
        match rng.below(4) {
            0 => (rng.range(1, 64) as u32, rng.range(1, 64) as u32),
            1 => *rng.pick(&[(640, 480), (800, 600), (1024, 768), (1, 1), (1, 1024), (1024, 1), (1000, 1000)]),
            2 => (rng.range(1, 1024) as u32, rng.range(1, 1024) as u32),
            _ => (rng.range(1, 300) as u32, rng.range(1, 300) as u32),
        }
    } else {
        match rng.below(6) {
            0 => (0, rng.range(0, 64) as u32),
            1 => (rng.range(1, 64) as u32, 0),
            2 => (65536, 65536),
            3 => (rng.u32_biased(), rng.u32_biased()),
            4 => (32768, 32768),
            _ => (0x4000_0000, 1),
        }
    }
}

fn gen_op(rng: &mut Rng, malformed: bool) -> Op {
    let pos = |rng: &mut Rng| if rng.chance(1, 2) { rng.u32_biased() } else { rng.below(2048) as u32 };
    match rng.below(14) {
        0 => Op::Resolution,
        1 => Op::GetEdid(if malformed && rng.chance(1, 2) { rng.u32_biased() } else { 0 }),
        2 | 3 => Op::SetupFb,
        4 | 5 | 6 => {
            let (w, h) = gen_dims(rng, malformed);
            Op::ChangeRes(w, h)
        }
        7 | 8 | 9 => Op::Flush,
        10 => {
            let len = if malformed && rng.chance(1, 2) { *rng.pick(&[0usize, 1, 16383, 16385, 4096]) } else { 16384 };
            Op::SetupCursor(len, pos(rng), pos(rng), pos(rng), pos(rng))
        }
        _ => Op::MoveCursor(pos(rng), pos(rng)),
    }
}

fn gen_forced(rng: &mut Rng, density: u64) -> VecDeque<Forced> {
    let mut v = VecDeque::new();
    for _ in 0..10 {
        if rng.below(100) < density {
            v.push_back(match rng.below(8) {
                0 => Forced::Short,
                1 => Forced::Type(*rng.pick(&[OK_NODATA, OK_DISPLAY_INFO, 0x1102, 0x1103, OK_EDID])),
                2 | 3 => Forced::Type(*rng.pick(&[ERR_UNSPEC, ERR_OUT_OF_MEMORY, ERR_INVALID_SCANOUT_ID, ERR_INVALID_RESOURCE_ID, 0x1204, ERR_INVALID_PARAMETER])),
                4 => Forced::Type(rng.u32_biased()),
                5 => Forced::Type(OK_NODATA ^ (1 << rng.below(32))),
                6 => Forced::Type(*rng.pick(&[0, 0x100, 0x101, 0x0011, 0x00110000, 0xA5A5A5A5])),
                _ => Forced::Type(rng.next() as u32),
            });
        } else {
            v.push_back(Forced::Natural);
        }
    }
    v
}

pub fn one_case(ctx: &Ctx, i: usize, id: String, malformed: bool) -> Case {
    let mut c = Case::new(id);
    let mut rng = ctx.case_rng(if malformed { "gpu-malformed" } else { "gpu" }, i);
    hal::reset();
    super::clear_spin();
    let mut offered = F_VERSION_1;
    for f in [F_INDIRECT, F_EVENT_IDX, F_ACCESS_PLATFORM, F_EDID] {
        if rng.chance(1, 2) {
            offered |= f;
        }
    }
    if rng.chance(1, 8) {
        offered |= rng.next() & !(0xffu64 << 24) & !(1 << 34); // stray device bits the driver must ignore
    }
    let mut ts = TState::new(DeviceType::GPU, offered, 2, 256);
    let num_scanouts = rng.range(1, 16) as u32;
    let mut cfg = vec![];
    for v in [0u32, 0, num_scanouts, 0] {
        cfg.extend(v.to_le_bytes());
    }
    ts.config = cfg;
    let (t, st) = ModelTransport::new(ts);
    let display = {
        let (w, h) = gen_dims(&mut rng, malformed);
        (0u32, 0u32, w, h)
    };
    let dev = Rc::new(RefCell::new(GpuDev {
        st: st.clone(),
        q: [None, None],
        event_idx: false,
        num_scanouts,
        resources: BTreeMap::new(),
        scanout0: 0,
        display,
        edid: edid_spec::gen_blob(&mut rng),
        forced: VecDeque::new(),
        rng: rng.fork(),
        reqs: vec![],
        devevs: vec![],
        fails: vec![],
        order_fails: vec![],
        last_ok_ctrl: None,
        cursor: None,
    }));
    {
        let d = dev.clone();
        st.borrow_mut().on_notify = Some(Box::new(move |_q| {
            let serve = d.borrow_mut().rng.chance(2, 3);
            if serve {
                d.borrow_mut().service();
            }
        }));
        let d = dev.clone();
        super::install_spin(Box::new(move || d.borrow_mut().service()));
    }
    let gpu = match guarded(|| VirtIOGpu::<LedgerHal, ModelTransport>::new(t)) {
        Ok(Ok(g)) => g,
        Ok(Err(e)) => {
            c.fail(format!("VirtIOGpu::new failed: {:?}", e));
            return c;
        }
        Err(p) => {
            c.fail(format!("VirtIOGpu::new panicked: {}", p));
            return c;
        }
    };
    let neg = st.borrow().driver_features;
    dev.borrow_mut().event_idx = neg & F_EVENT_IDX != 0;
    let next0 = hal::with(|h| h.dma.len());
    hal::take_events();
    c.step(
        format!("gpu new edid={} ap={} next={} base={:#x} stride={:#x}", (neg & F_EDID != 0) as u8, (neg & F_ACCESS_PLATFORM != 0) as u8, next0, DMA_BASE, DMA_STRIDE),
        "ok",
    );
    c.tag(format!("gpu:features={}{}{}{}", if neg & F_INDIRECT != 0 { "I" } else { "-" }, if neg & F_EVENT_IDX != 0 { "E" } else { "-" }, if neg & F_ACCESS_PLATFORM != 0 { "P" } else { "-" }, if neg & F_EDID != 0 { "D" } else { "-" }));

    let mut gpu = Some(gpu);
    let density = if malformed { 25 } else { *rng.pick(&[0u64, 0, 0, 8, 20]) };
    let nops = rng.range(3, 14);
    // backing oracle state: resource -> regions it is attached to; tainted = a device error excused a release
    let mut attached: BTreeMap<u32, Vec<usize>> = BTreeMap::new();
    // sequencing oracle state: resources the device has acknowledged creating (and not since unreferencing)
    let mut created: std::collections::BTreeSet<u32> = std::collections::BTreeSet::new();
    let mut fb_fill: Option<(u8, usize)> = None;
    let mut cursor_img: Option<Vec<u8>> = None;
    let mut log_mark = st.borrow().log.len();
    let mut case_err = false;
    for k in 0..=nops {
        let is_drop = k == nops;
        let op = gen_op(&mut rng, malformed);
        let fail_alloc = !is_drop && rng.chance(1, if malformed { 6 } else { 40 });
        dev.borrow_mut().forced = if is_drop { VecDeque::new() } else { gen_forced(&mut rng, density) };
        dev.borrow_mut().edid = edid_spec::gen_blob(&mut rng);
        hal::with(|h| h.fail_alloc_at = if fail_alloc { h.alloc_attempts + 1 } else { 0 });
        super::reset_spin_count();
        let fill = (rng.next() as u8) | 1;
        // ---- run the real operation ----
        let (name, args, res): (&str, String, Result<String, String>) = if is_drop {
            let gg = gpu.take().unwrap();
            ("drop", String::new(), guarded(move || drop(gg)).map(|_| "ok".to_string()))
        } else {
            let g = gpu.as_mut().unwrap();
            match &op {
                Op::Resolution => ("resolution", String::new(), guarded(|| match g.resolution() {
                    Ok((w, h)) => format!("ok res={}x{}", w, h),
                    Err(e) => format!("err {:?}", e),
                })),
                Op::GetEdid(sc) => ("get_edid", format!(" scanout={}", sc), guarded(|| match g.get_edid(*sc) {
                    Ok(e) => {
                        let p = match e.preferred_resolution() {
                            Ok((w, h)) => format!("{}x{}", w, h),
                            Err(e) => format!("err:{:?}", e),
                        };
                        let s = e.standard_timings();
                        let s = if s.is_empty() { "-".to_string() } else { s.iter().map(|(w, h)| format!("{}x{}", w, h)).collect::<Vec<_>>().join(",") };
                        format!("ok pref={} std={}", p, s)
                    }
                    Err(e) => format!("err {:?}", e),
                })),
                Op::SetupFb => ("setup_fb", format!(" fail={}", fail_alloc as u8), guarded(|| match g.setup_framebuffer() {
                    Ok(fb) => {
                        fb.fill(fill);
                        format!("ok len={}", fb.len())
                    }
                    Err(e) => format!("err {:?}", e),
                })),
                Op::ChangeRes(w, h) => ("change_res", format!(" w={} h={} fail={}", w, h, fail_alloc as u8), guarded(|| match g.change_resolution(*w, *h) {
                    Ok(fb) => {
                        fb.fill(fill);
                        format!("ok len={}", fb.len())
                    }
                    Err(e) => format!("err {:?}", e),
                })),
                Op::Flush => ("flush", String::new(), guarded(|| match g.flush() {
                    Ok(()) => "ok".to_string(),
                    Err(e) => format!("err {:?}", e),
                })),
                Op::SetupCursor(len, px, py, hx, hy) => {
                    let img: Vec<u8> = (0..*len).map(|j| (j as u8).wrapping_mul(31).wrapping_add(*px as u8)).collect();
                    cursor_img = Some(img.clone());
                    ("setup_cursor", format!(" len={} px={} py={} hx={} hy={} fail={}", len, px, py, hx, hy, fail_alloc as u8), guarded(|| match g.setup_cursor(&img, *px, *py, *hx, *hy) {
                        Ok(()) => "ok".to_string(),
                        Err(e) => format!("err {:?}", e),
                    }))
                }
                Op::MoveCursor(x, y) => ("move_cursor", format!(" x={} y={}", x, y), guarded(|| match g.move_cursor(*x, *y) {
                    Ok(()) => "ok".to_string(),
                    Err(e) => format!("err {:?}", e),
                })),
            }
        };
        hal::with(|h| h.fail_alloc_at = 0);
        let panicked = res.is_err();
        let mut res_s = match &res {
            Ok(s) => s.clone(),
            Err(p) => { if std::env::var("C20_DEBUG").is_ok() { eprintln!("panic in {}: {}", name, p); } "panic".to_string() }
        };
        // ---- collect what happened, in order ----
        let reqs: Vec<ReqRec> = std::mem::take(&mut dev.borrow_mut().reqs);
        let devevs: Vec<(u64, DevEv)> = std::mem::take(&mut dev.borrow_mut().devevs);
        let halevs = hal::take_events();
        let mut line: Vec<(u64, String)> = vec![];
        for r in &reqs {
            line.push((r.tick, format!("req({},{})", r.q, hex(&r.bytes))));
        }
        // timeline for the backing oracle: 0 = device event, 1 = dealloc
        let mut tl: Vec<(u64, Option<DevEv>, Option<usize>)> = devevs.iter().map(|(t, e)| (*t, Some(e.clone()), None)).collect();
        for (t, e) in &halevs {
            match e {
                HalEv::Alloc { pages, ok, dir, .. } => {
                    line.push((*t, format!("alloc({},{})", pages, if *ok { "ok" } else { "fail" })));
                    if *dir == virtio_drivers::BufferDirection::DeviceToDriver {
                        c.fail("GPU backing memory allocated in a direction the device may not read");
                    }
                }
                HalEv::Dealloc { k: Some(k), pages, .. } if *k >= next0 => {
                    line.push((*t, format!("dealloc(D{},{})", k, pages)));
                    tl.push((*t, None, Some(*k)));
                }
                _ => {}
            }
        }
        line.sort_by_key(|(t, _)| *t);
        if name == "get_edid" && res_s.starts_with("ok") {
            let eff = &reqs.iter().rev().find(|r| r.cmd == GET_EDID).map(|r| r.rsp_eff.clone()).unwrap_or_default();
            if eff.len() >= 1056 {
                res_s = format!("ok size={} fnv={} {}", le32(eff, 24), fnv64(&eff[32..1056]), &res_s[3..]);
            }
        }
        let mut out = line.iter().map(|(_, s)| s.clone()).collect::<Vec<_>>().join(" ");
        if !out.is_empty() {
            out.push(' ');
        }
        out.push_str("=> ");
        out.push_str(&res_s);
        let rsps: Vec<String> = reqs.iter().filter(|r| r.q == 0).map(|r| hex(&r.rsp_eff)).collect();
        let opline = format!("gpu {}{} rsps={}", name, args, if rsps.is_empty() { "-".to_string() } else { rsps.join(",") });
        c.step(opline, out);
        c.tag(format!("gpu:op={}", name));
        c.tag(format!("gpu:result={}", res_s.split(' ').take(2).collect::<Vec<_>>().join(" ").split('=').next().unwrap_or("")));

        // ---- oracles ----
        // sequencing, whatever the device answered earlier: tear-down commands (detach backing, unreference)
        // are only sent for a resource whose creation the device acknowledged and which it has not
        // acknowledged unreferencing since; backing is only attached to such a resource
        for r in reqs.iter().filter(|r| r.q == 0 && r.bytes.len() >= 28) {
            let rid = le32(&r.bytes, 24);
            let okd = r.rsp_type == ok_for(r.cmd);
            match r.cmd {
                RESOURCE_CREATE_2D => {
                    if okd {
                        created.insert(rid);
                    }
                }
                RESOURCE_DETACH_BACKING | RESOURCE_UNREF | RESOURCE_ATTACH_BACKING => {
                    if !created.contains(&rid) {
                        c.fail(format!("{}: command {:#x} sent for resource {:#x}, whose creation the device never acknowledged (or which it has since unreferenced)", name, r.cmd, rid));
                    }
                    if r.cmd == RESOURCE_UNREF && okd {
                        created.remove(&rid);
                    }
                }
                _ => {}
            }
        }
        let bad: Vec<&ReqRec> = reqs.iter().filter(|r| r.q == 0 && r.rsp_type != ok_for(r.cmd)).collect();
        case_err |= !bad.is_empty() || fail_alloc;
        if let Some(b) = bad.first() {
            c.tag("gpu:device-error");
            if res_s.starts_with("ok") {
                c.fail(format!("{} returned Ok although the device answered {:#x} to command {:#x}", name, b.rsp_type, b.cmd));
            }
        }
        // reset by the transport's drop detaches everything
        let dropped_tick = st.borrow().log[log_mark..].iter().find(|(_, t)| *t == TCall::Dropped).map(|(s, _)| *s);
        log_mark = st.borrow().log.len();
        tl.sort_by_key(|(t, _, _)| *t);
        let mut err_seen = false;
        for (t, de, dk) in &tl {
            if let Some(dt) = dropped_tick {
                if *t > dt {
                    attached.clear();
                }
            }
            match (de, dk) {
                (Some(DevEv::Attach { res, regions }), _) => {
                    attached.insert(*res, regions.clone());
                }
                (Some(DevEv::Detach { res }), _) => {
                    attached.remove(res);
                }
                (Some(DevEv::Error), _) => err_seen = true,
                (None, Some(k)) => {
                    let users: Vec<u32> = attached.iter().filter(|(_, rs)| rs.contains(k)).map(|(r, _)| *r).collect();
                    if !users.is_empty() {
                        // since fix 1ac4978 this holds whatever the device answers (before it, a rejected
                        // SET_SCANOUT / TRANSFER_TO_HOST_2D released the buffer that had just been attached)
                        c.fail(format!("dma_dealloc of region D{} while it is attached as backing of resource {:#x}{}", k, users[0], if err_seen { " (after a device error)" } else { " (no device error)" }));
                        for u in users {
                            attached.remove(&u);
                        }
                    }
                }
                _ => {}
            }
        }
        if dropped_tick.is_some() {
            attached.clear();
        }
        // every backing still attached must be live memory of its length
        if !is_drop {
            let d = dev.borrow();
            for (rid, regions) in &attached {
                if let Some(r) = d.resources.get(rid) {
                    for (a, l) in &r.backing {
                        if let Err(e) = hal::translate(*a, *l as usize) {
                            c.fail(format!("backing of resource {:#x} (regions {:?}) no longer allocated after {}: {}", rid, regions, name, e));
                        }
                    }
                }
            }
        }
        if res_s.starts_with("ok") && bad.is_empty() {
            let ctrl: Vec<&ReqRec> = reqs.iter().filter(|r| r.q == 0).collect();
            let cur: Vec<&ReqRec> = reqs.iter().filter(|r| r.q == 1).collect();
            let types: Vec<u32> = ctrl.iter().map(|r| r.cmd).collect();
            let find = |t: u32| ctrl.iter().position(|r| r.cmd == t);
            match &op {
                _ if is_drop => {}
                Op::Resolution => {
                    // what the device reported = pmodes[0].r of the response the driver received
                    let eff = &ctrl[0].rsp_eff;
                    if types != [GET_DISPLAY_INFO] || res_s != format!("ok res={}x{}", le32(eff, 32), le32(eff, 36)) {
                        c.fail(format!("resolution returned {} but the device reported {}x{}", res_s, le32(eff, 32), le32(eff, 36)));
                    }
                }
                Op::GetEdid(sc) => {
                    if types != [GET_EDID] || le32(&ctrl[0].bytes, 24) != *sc || le32(&ctrl[0].bytes, 28) != 0 {
                        c.fail("get_edid did not send GET_EDID with the caller's scanout");
                        continue;
                    }
                    let (blob, size) = (ctrl[0].rsp_eff[32..1056].to_vec(), le32(&ctrl[0].rsp_eff, 24));
                    let p = match edid_spec::preferred(&blob, size) {
                        Some((w, h)) => format!("{}x{}", w, h),
                        None => "err:IoError".to_string(),
                    };
                    let s = edid_spec::standard_timings(&blob, size);
                    let s = if s.is_empty() { "-".to_string() } else { s.iter().map(|(w, h)| format!("{}x{}", w, h)).collect::<Vec<_>>().join(",") };
                    if !res_s.ends_with(&format!("pref={} std={}", p, s)) {
                        c.fail(format!("EDID results differ from the specification decode of the reported blob: got `{}`, want pref={} std={}", res_s, p, s));
                    }
                    if s.split(',').count() > 8 {
                        c.fail("more than 8 standard timings");
                    }
                }
                Op::SetupFb | Op::ChangeRes(..) => {
                    let (w, h) = match &op {
                        Op::ChangeRes(w, h) => (*w, *h),
                        _ => {
                            let d = dev.borrow().display;
                            (d.2, d.3)
                        }
                    };
                    let (ic, ia, is_) = (find(RESOURCE_CREATE_2D), find(RESOURCE_ATTACH_BACKING), ctrl.iter().rposition(|r| r.cmd == SET_SCANOUT));
                    match (ic, ia, is_) {
                        (Some(ic), Some(ia), Some(is_)) if ic < ia && ia < is_ => {
                            let (cr, at, sc) = (&ctrl[ic].bytes, &ctrl[ia].bytes, &ctrl[is_].bytes);
                            let rid = le32(cr, 24);
                            if le32(cr, 32) != w || le32(cr, 36) != h {
                                c.fail(format!("RESOURCE_CREATE_2D carries {}x{}, caller asked {}x{}", le32(cr, 32), le32(cr, 36), w, h));
                            }
                            if le32(at, 24) != rid || le32(sc, 44) != rid {
                                c.fail("attach/set_scanout name a different resource than the one created");
                            }
                            if le32(at, 40) as u128 != area4(w, h) {
                                c.fail(format!("backing length {} != width*height*4 = {}", le32(at, 40), area4(w, h)));
                            }
                            if rect_at(sc, 24) != (0, 0, w, h) || le32(sc, 40) != 0 {
                                c.fail(format!("SET_SCANOUT rect {:?} scanout {} instead of (0,0,{},{}) scanout 0", rect_at(sc, 24), le32(sc, 40), w, h));
                            }
                        }
                        _ => c.fail(format!("{}: commands {:x?} are not create -> attach backing -> set scanout", name, types)),
                    }
                    let len: usize = res_s.trim_start_matches("ok len=").parse().unwrap_or(0);
                    if (len as u128) < area4(w, h) {
                        c.fail("returned framebuffer shorter than width*height*4");
                    }
                    fb_fill = Some((fill, w as usize * h as usize * 4));
                    c.nontrivial = true;
                }
                Op::Flush => {
                    if types != [TRANSFER_TO_HOST_2D, RESOURCE_FLUSH] {
                        c.fail(format!("flush sent {:x?}, expected transfer_to_host_2d then resource_flush", types));
                    } else {
                        let (tr, fl) = (&ctrl[0].bytes, &ctrl[1].bytes);
                        let d = dev.borrow();
                        let rid = le32(tr, 48);
                        if le32(fl, 40) != rid || le64(tr, 40) != 0 || rect_at(tr, 24) != rect_at(fl, 24) {
                            c.fail("flush: transfer and flush do not name the same resource/rectangle from offset 0");
                        }
                        if !case_err && rid != d.scanout0 {
                            c.fail(format!("flush addresses resource {:#x}/{:#x}, scanout 0 shows {:#x}", rid, le32(fl, 40), d.scanout0));
                        }
                        if let Some(r) = d.resources.get(&rid).filter(|_| !case_err) {
                            if rect_at(tr, 24) != (0, 0, r.w, r.h) || rect_at(fl, 24) != (0, 0, r.w, r.h) || le64(tr, 40) != 0 {
                                c.fail(format!("flush rect {:?}/{:?} offset {} does not cover the {}x{} framebuffer from offset 0", rect_at(tr, 24), rect_at(fl, 24), le64(tr, 40), r.w, r.h));
                            }
                            if let Some((fill, n)) = fb_fill {
                                let m = n.min(r.host.len());
                                if r.host[..m].iter().any(|b| *b != fill) {
                                    c.fail("device did not find the caller's framebuffer contents in the attached backing");
                                }
                            }
                        }
                        c.nontrivial = true;
                    }
                }
                Op::SetupCursor(_, px, py, hx, hy) => {
                    if types != [RESOURCE_CREATE_2D, RESOURCE_ATTACH_BACKING, TRANSFER_TO_HOST_2D] || cur.len() != 1 || cur[0].cmd != UPDATE_CURSOR {
                        c.fail(format!("setup_cursor sent {:x?} + {} cursor commands", types, cur.len()));
                    } else {
                        let (cr, at, tr, uc) = (&ctrl[0].bytes, &ctrl[1].bytes, &ctrl[2].bytes, &cur[0].bytes);
                        let rid = le32(cr, 24);
                        if (le32(cr, 32), le32(cr, 36)) != (64, 64) || le32(at, 24) != rid || le32(at, 40) != 16384 || le32(tr, 48) != rid || rect_at(tr, 24) != (0, 0, 64, 64) {
                            c.fail("setup_cursor: create/attach/transfer do not describe one 64x64 resource with 16384 bytes of backing");
                        }
                        if (le32(uc, 24), le32(uc, 28), le32(uc, 32), le32(uc, 40), le32(uc, 44), le32(uc, 48)) != (0, *px, *py, rid, *hx, *hy) {
                            c.fail(format!("UPDATE_CURSOR fields scanout={} x={} y={} res={:#x} hot=({},{}) differ from the call ({},{},{},{})", le32(uc, 24), le32(uc, 28), le32(uc, 32), le32(uc, 40), le32(uc, 44), le32(uc, 48), px, py, hx, hy));
                        }
                        if cur[0].tick < ctrl[2].tick {
                            c.fail("UPDATE_CURSOR sent before the image was transferred");
                        }
                        let d = dev.borrow();
                        if let (Some(r), Some(img)) = (d.resources.get(&rid), cursor_img.as_ref()) {
                            if &r.host != img {
                                c.fail("cursor image seen by the device differs from the caller's image");
                            }
                        }
                        c.nontrivial = true;
                    }
                }
                Op::MoveCursor(x, y) => {
                    if !types.is_empty() || cur.len() != 1 || cur[0].cmd != MOVE_CURSOR {
                        c.fail("move_cursor did not send exactly one MOVE_CURSOR on the cursor queue");
                    } else {
                        let uc = &cur[0].bytes;
                        if (le32(uc, 24), le32(uc, 28), le32(uc, 32)) != (0, *x, *y) {
                            c.fail(format!("MOVE_CURSOR position ({},{}) scanout {} differs from the call ({},{})", le32(uc, 28), le32(uc, 32), le32(uc, 24), x, y));
                        }
                    }
                }
            }
        }
        for f in std::mem::take(&mut dev.borrow_mut().fails) {
            c.fail(f);
        }
        // order/backing complaints of the device are only meaningful in error-free histories:
        // after an error (or a failed DMA allocation) the driver's and the device's view of the
        // resources may legitimately differ
        for f in std::mem::take(&mut dev.borrow_mut().order_fails) {
            if !case_err {
                c.fail(f);
            }
        }
        for v in hal::with(|h| std::mem::take(&mut h.violations)) {
            c.fail(format!("ledger: {}", v));
        }
        if panicked || is_drop {
            break;
        }
    }
    super::clear_spin();
    st.borrow_mut().on_notify = None;
    drop(gpu);
    c
}
