//! Independent EDID decode written from the VESA E-EDID standard (Release A rev. 2): §3.9 standard
//! timing identification (bytes 26h–35h), §3.10.2 detailed timing descriptor (first one at 36h).
//! Used as the oracle for what `Edid::preferred_resolution` / `Edid::standard_timings` must return.

use crate::rng::Rng;

/// §3.9: byte 1 = horizontal addressable pixels / 8 − 31; byte 2 bits 7..6 = aspect ratio
/// (00 16:10, 01 4:3, 10 5:4, 11 16:9); 01h 01h = unused.
pub fn std_timing(b0: u8, b1: u8) -> Option<(u32, u32)> {
    if b0 == 1 && b1 == 1 {
        return None;
    }
    let h = 8 * (b0 as u64 + 31);
    let (n, d) = match b1 / 64 {
        0 => (10, 16),
        1 => (3, 4),
        2 => (4, 5),
        _ => (9, 16),
    };
    Some((h as u32, (h * n / d) as u32))
}

/// documented result of `standard_timings`: the used entries, largest pixel count first (ties keep
/// their order in the block), at most 8; nothing when the base block (128 bytes) is absent
pub fn standard_timings(blob: &[u8], size: u32) -> Vec<(u32, u32)> {
    if size < 128 {
        return vec![];
    }
    let mut v: Vec<(u32, u32)> = (0..8).filter_map(|i| std_timing(blob[0x26 + 2 * i], blob[0x27 + 2 * i])).collect();
    // stable selection by repeated extraction of the first maximum
    let mut out = vec![];
    while !v.is_empty() {
        let mut best = 0;
        for i in 1..v.len() {
            if (v[i].0 as u64 * v[i].1 as u64) > (v[best].0 as u64 * v[best].1 as u64) {
                best = i;
            }
        }
        out.push(v.remove(best));
    }
    out
}

/// §3.10.2: horizontal addressable = byte 2 + 256·(upper nibble of byte 4); vertical = byte 5 +
/// 256·(upper nibble of byte 7); `None` when either is zero or the base block is absent.
pub fn preferred(blob: &[u8], size: u32) -> Option<(u32, u32)> {
    if size < 128 {
        return None;
    }
    let d = &blob[0x36..0x36 + 18];
    let h = d[2] as u32 + 256 * (d[4] as u32 >> 4);
    let v = d[5] as u32 + 256 * (d[7] as u32 >> 4);
    if h == 0 || v == 0 { None } else { Some((h, v)) }
}

/// EDID captured from QEMU's virtio-gpu (1920x1080 preferred, eight standard timings)
pub const QEMU_EDID: [u8; 256] = [
    0x00, 0xff, 0xff, 0xff, 0xff, 0xff, 0xff, 0x00, 0x49, 0x14, 0x34, 0x12, 0x00, 0x00, 0x00, 0x00, 0x2a, 0x18, 0x01, 0x04,
    0xa5, 0x30, 0x1b, 0x78, 0x06, 0xee, 0x91, 0xa3, 0x54, 0x4c, 0x99, 0x26, 0x0f, 0x50, 0x54, 0x21, 0x08, 0x00, 0xe1, 0xc0,
    0xd1, 0xc0, 0xd1, 0x00, 0xa9, 0x40, 0xb3, 0x00, 0x95, 0x00, 0x81, 0x80, 0x81, 0x40, 0xd2, 0x54, 0x80, 0xa0, 0x72, 0x38,
    0x25, 0x40, 0xe0, 0x39, 0x55, 0x40, 0xe7, 0x12, 0x11, 0x00, 0x00, 0x18, 0x00, 0x00, 0x00, 0xf7, 0x00, 0x0a, 0x00, 0x40,
    0x82, 0x00, 0x28, 0x20, 0x00, 0x00, 0x00, 0x00, 0x00, 0x00, 0x00, 0x00, 0x00, 0xfd, 0x00, 0x32, 0x7d, 0x1e, 0xa0, 0xff,
    0x01, 0x0a, 0x20, 0x20, 0x20, 0x20, 0x20, 0x20, 0x00, 0x00, 0x00, 0xfc, 0x00, 0x51, 0x45, 0x4d, 0x55, 0x20, 0x4d, 0x6f,
    0x6e, 0x69, 0x74, 0x6f, 0x72, 0x0a, 0x01, 0xb0, 0x02, 0x03, 0x0b, 0x00, 0x46, 0x7d, 0x65, 0x60, 0x59, 0x1f, 0x61, 0x00,
    0x00, 0x00, 0x10, 0x00, 0x00, 0x00, 0x00, 0x00, 0x00, 0x00, 0x00, 0x00, 0x00, 0x00, 0x00, 0x00, 0x00, 0x00, 0x00, 0x00,
    0x10, 0x00, 0x00, 0x00, 0x00, 0x00, 0x00, 0x00, 0x00, 0x00, 0x00, 0x00, 0x00, 0x00, 0x00, 0x00, 0x00, 0x00, 0x10, 0x00,
    0x00, 0x00, 0x00, 0x00, 0x00, 0x00, 0x00, 0x00, 0x00, 0x00, 0x00, 0x00, 0x00, 0x00, 0x00, 0x00, 0x10, 0x00, 0x00, 0x00,
    0x00, 0x00, 0x00, 0x00, 0x00, 0x00, 0x00, 0x00, 0x00, 0x00, 0x00, 0x00, 0x00, 0x00, 0x10, 0x00, 0x00, 0x00, 0x00, 0x00,
    0x00, 0x00, 0x00, 0x00, 0x00, 0x00, 0x00, 0x00, 0x00, 0x00, 0x00, 0x00, 0x10, 0x00, 0x00, 0x00, 0x00, 0x00, 0x00, 0x00,
    0x00, 0x00, 0x00, 0x00, 0x00, 0x00, 0x00, 0x00, 0x00, 0x00, 0x00, 0x00, 0x00, 0x00, 0x00, 0x2f,
];

/// blob generator: the QEMU blob, mutated around the timing fields, or fully random; size values
/// around the 128-byte threshold and arbitrary `u32`s
pub fn gen_blob(rng: &mut Rng) -> (Vec<u8>, u32) {
    let mut b = vec![0u8; 1024];
    match rng.below(4) {
        0 => b[..256].copy_from_slice(&QEMU_EDID),
        1 | 2 => {
            b[..256].copy_from_slice(&QEMU_EDID);
            for _ in 0..rng.range(1, 12) {
                let pos = if rng.chance(3, 4) { rng.range(0x26, 0x47) as usize } else { rng.below(1024) as usize };
                b[pos] = match rng.below(5) {
                    0 => 0,
                    1 => 1,
                    2 => 0xff,
                    3 => b[pos] ^ (1 << rng.below(8)),
                    _ => rng.next() as u8,
                };
            }
        }
        _ => b = rng.bytes(1024),
    }
    if rng.chance(1, 6) {
        // equal areas / unused markers to exercise ties and filtering
        for i in 0..8 {
            let (x, y) = *rng.pick(&[(0x01u8, 0x01u8), (0xd1, 0xc0), (0xd1, 0x00), (0x81, 0x80), (0x00, 0x00)]);
            b[0x26 + 2 * i] = x;
            b[0x27 + 2 * i] = y;
        }
    }
    let size = match rng.below(8) {
        0 => 0,
        1 => 127,
        2 => 128,
        3 => 256,
        4 => 1024,
        5 => rng.below(300) as u32,
        _ => rng.u32_biased(),
    };
    (b, size)
}

#[cfg(test)]
mod tests {
    use super::*;
    #[test]
    fn qemu_blob_decodes_as_documented() {
        let mut b = vec![0u8; 1024];
        b[..256].copy_from_slice(&QEMU_EDID);
        assert_eq!(preferred(&b, 256), Some((1920, 1080)));
        assert_eq!(
            standard_timings(&b, 256),
            vec![(2048, 1152), (1920, 1200), (1920, 1080), (1600, 1200), (1680, 1050), (1280, 1024), (1440, 900), (1280, 960)]
        );
        assert_eq!(preferred(&b, 127), None);
        assert!(standard_timings(&b, 127).is_empty());
    }
}
