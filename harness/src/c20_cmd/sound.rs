//! Reference virtio-sound device (VirtIO 1.2 §5.14: control queue, tx queue) and the case driver
//! running the real `VirtIOSound` against it.

use super::{F_ACCESS_PLATFORM, F_EVENT_IDX, F_INDIRECT, F_VERSION_1, hex, le32, le64, refq};
use crate::hal::{self, LedgerHal};
use crate::mtrans::{ModelTransport, TState};
use crate::proto::Case;
use crate::refdev::{Chain, RefQueue};
use crate::rng::{Rng, fnv64};
use crate::runner::{Ctx, guarded};
use std::cell::RefCell;
use std::collections::{BTreeMap, VecDeque};
use std::rc::Rc;
use virtio_drivers::Error;
use virtio_drivers::device::sound::{PcmFeatures, PcmFormat, PcmRate, VirtIOSound};
use virtio_drivers::transport::DeviceType;

// ---- §5.14.6 `enum` of request and status codes ----
const R_JACK_INFO: u32 = 1;
const R_JACK_REMAP: u32 = 2;
const R_PCM_INFO: u32 = 0x0100;
const R_PCM_SET_PARAMS: u32 = 0x0101;
const R_PCM_PREPARE: u32 = 0x0102;
const R_PCM_RELEASE: u32 = 0x0103;
const R_PCM_START: u32 = 0x0104;
const R_PCM_STOP: u32 = 0x0105;
const R_CHMAP_INFO: u32 = 0x0200;
const S_OK: u32 = 0x8000;
const S_BAD_MSG: u32 = 0x8001;
const S_NOT_SUPP: u32 = 0x8002;
const S_IO_ERR: u32 = 0x8003;

const FORMATS: [PcmFormat; 25] = [
    PcmFormat::ImaAdpcm, PcmFormat::MuLaw, PcmFormat::ALaw, PcmFormat::S8, PcmFormat::U8, PcmFormat::S16, PcmFormat::U16,
    PcmFormat::S18_3, PcmFormat::U18_3, PcmFormat::S20_3, PcmFormat::U20_3, PcmFormat::S24_3, PcmFormat::U24_3, PcmFormat::S20,
    PcmFormat::U20, PcmFormat::S24, PcmFormat::U24, PcmFormat::S32, PcmFormat::U32, PcmFormat::FLOAT, PcmFormat::FLOAT64,
    PcmFormat::DsdU8, PcmFormat::DsdU16, PcmFormat::DsdU32, PcmFormat::Iec958Subframe,
];
const RATES: [PcmRate; 14] = [
    PcmRate::Rate5512, PcmRate::Rate8000, PcmRate::Rate11025, PcmRate::Rate16000, PcmRate::Rate22050, PcmRate::Rate32000,
    PcmRate::Rate44100, PcmRate::Rate48000, PcmRate::Rate64000, PcmRate::Rate88200, PcmRate::Rate96000, PcmRate::Rate176400,
    PcmRate::Rate192000, PcmRate::Rate384000,
];

#[derive(Clone, Debug)]
struct PcmInfo {
    nid: u32,
    features: u32,
    formats: u64,
    rates: u64,
    direction: u8,
    ch_min: u8,
    ch_max: u8,
}
impl PcmInfo {
    /// `struct virtio_snd_pcm_info`, 32 bytes
    fn bytes(&self) -> Vec<u8> {
        let mut v = vec![];
        v.extend(self.nid.to_le_bytes());
        v.extend(self.features.to_le_bytes());
        v.extend(self.formats.to_le_bytes());
        v.extend(self.rates.to_le_bytes());
        v.extend([self.direction, self.ch_min, self.ch_max, 0, 0, 0, 0, 0]);
        v
    }
}

#[derive(Clone, Copy, Debug, PartialEq, Eq)]
enum StreamState {
    Initial,
    SetParams,
    Prepared,
    Started,
    Stopped,
    Released,
}

#[derive(Clone, Debug)]
pub enum Act {
    Idle,
    Complete(usize, u32),
    All,
}

#[derive(Clone, Debug)]
struct CtlRec {
    code: u32,
    bytes: Vec<u8>,
    rsp_eff: Vec<u8>,
    status: u32,
}

pub struct SoundDev {
    st: Rc<RefCell<TState>>,
    ctl: Option<RefQueue>,
    tx: Option<RefQueue>,
    event_idx: bool,
    jacks: Vec<[u8; 24]>,
    pcms: Vec<PcmInfo>,
    chmaps: Vec<[u8; 24]>,
    /// counts advertised in config space (may exceed the tables: hostile configuration)
    cfg: (u32, u32, u32),
    states: Vec<StreamState>,
    /// period of the last accepted SET_PARAMS per stream
    periods: Vec<Option<u32>>,
    forced: VecDeque<Option<u32>>,
    short_info: bool,
    /// the PCM info table the driver holds came from a short (header-only) response
    pcm_poisoned: bool,
    rng: Rng,
    ctl_recs: Vec<CtlRec>,
    fails: Vec<String>,
    // tx
    tx_inflight: Vec<(Chain, u32, Vec<u8>)>,
    script: Option<VecDeque<Act>>,
    delivered: Vec<(u32, u32, Vec<u8>)>, // stream id, status, data (completion order)
    /// the PCM messages in the order the driver made them available (submission order)
    fetched: Vec<Vec<u8>>,
    tx_fetched: usize,
    ooo: bool,
    err_status: bool,
    max_inflight: usize,
}

impl SoundDev {
    fn natural(&mut self, rd: &[u8]) -> (u32, Vec<u8>) {
        let code = le32(rd, 0);
        let info = |rd: &[u8], total: usize, size: usize| -> Option<(usize, usize)> {
            if rd.len() != 16 {
                return None;
            }
            let (start, count, sz) = (le32(rd, 4) as usize, le32(rd, 8) as usize, le32(rd, 12) as usize);
            if sz != size || start.checked_add(count).map(|e| e > total).unwrap_or(true) {
                return None;
            }
            Some((start, count))
        };
        match code {
            R_JACK_INFO => match info(rd, self.jacks.len(), 24) {
                Some((s, c)) => (S_OK, self.jacks[s..s + c].concat()),
                None => (S_BAD_MSG, vec![]),
            },
            R_PCM_INFO => match info(rd, self.pcms.len(), 32) {
                Some((s, c)) => (S_OK, self.pcms[s..s + c].iter().flat_map(|p| p.bytes()).collect()),
                None => (S_BAD_MSG, vec![]),
            },
            R_CHMAP_INFO => match info(rd, self.chmaps.len(), 24) {
                Some((s, c)) => (S_OK, self.chmaps[s..s + c].concat()),
                None => (S_BAD_MSG, vec![]),
            },
            R_JACK_REMAP => {
                if rd.len() != 16 || le32(rd, 4) as usize >= self.jacks.len() {
                    (S_BAD_MSG, vec![])
                } else if le32(&self.jacks[le32(rd, 4) as usize], 4) & 1 == 0 {
                    (S_NOT_SUPP, vec![])
                } else {
                    (S_OK, vec![])
                }
            }
            R_PCM_SET_PARAMS => {
                if rd.len() != 24 || le32(rd, 4) as usize >= self.pcms.len() {
                    return (S_BAD_MSG, vec![]);
                }
                let s = le32(rd, 4) as usize;
                let (buffer, period, ch, fmt, rate) = (le32(rd, 8), le32(rd, 12), rd[20], rd[21], rd[22]);
                let p = &self.pcms[s];
                if period == 0 || buffer % period != 0 || rd[23] != 0 {
                    (S_BAD_MSG, vec![])
                } else if ch < p.ch_min || ch > p.ch_max || fmt >= 64 || rate >= 64 || p.formats >> fmt & 1 == 0 || p.rates >> rate & 1 == 0 {
                    (S_NOT_SUPP, vec![])
                } else if !matches!(self.states[s], StreamState::Initial | StreamState::SetParams | StreamState::Prepared | StreamState::Released) {
                    (S_BAD_MSG, vec![])
                } else {
                    (S_OK, vec![])
                }
            }
            R_PCM_PREPARE | R_PCM_RELEASE | R_PCM_START | R_PCM_STOP => {
                if rd.len() != 8 || le32(rd, 4) as usize >= self.pcms.len() {
                    return (S_BAD_MSG, vec![]);
                }
                use StreamState::*;
                let st = self.states[le32(rd, 4) as usize];
                let ok = match code {
                    R_PCM_PREPARE => matches!(st, SetParams | Prepared | Released),
                    R_PCM_START => matches!(st, Prepared | Stopped),
                    R_PCM_STOP => matches!(st, Started),
                    _ => matches!(st, Prepared | Stopped),
                };
                if ok { (S_OK, vec![]) } else { (S_BAD_MSG, vec![]) }
            }
            _ => (S_NOT_SUPP, vec![]),
        }
    }

    fn apply(&mut self, rd: &[u8]) {
        let code = le32(rd, 0);
        if matches!(code, R_PCM_SET_PARAMS | R_PCM_PREPARE | R_PCM_RELEASE | R_PCM_START | R_PCM_STOP) {
            let s = le32(rd, 4) as usize;
            self.states[s] = match code {
                R_PCM_SET_PARAMS => StreamState::SetParams,
                R_PCM_PREPARE => StreamState::Prepared,
                R_PCM_START => StreamState::Started,
                R_PCM_STOP => StreamState::Stopped,
                _ => StreamState::Released,
            };
            if code == R_PCM_SET_PARAMS {
                self.periods[s] = Some(le32(rd, 12));
            }
        }
    }

    fn process_ctl(&mut self, q: &mut RefQueue, c: Chain) {
        let rd = match q.read_in(&c) {
            Ok(v) => v,
            Err(e) => {
                self.fails.push(format!("sound: control request not readable: {}", e));
                let _ = q.complete(c.head, 0);
                return;
            }
        };
        if rd.len() < 4 {
            self.fails.push("sound: control request shorter than virtio_snd_hdr".into());
            let _ = q.complete(c.head, 0);
            return;
        }
        let code = le32(&rd, 0);
        // request sizes by the specification's structures
        let want = match code {
            R_JACK_INFO | R_PCM_INFO | R_CHMAP_INFO | R_JACK_REMAP => 16,
            R_PCM_SET_PARAMS => 24,
            R_PCM_PREPARE | R_PCM_RELEASE | R_PCM_START | R_PCM_STOP => 8,
            _ => {
                self.fails.push(format!("sound: unknown control request code {:#x}", code));
                rd.len()
            }
        };
        if rd.len() != want {
            self.fails.push(format!("sound: request {:#x} has {} readable bytes, structure has {}", code, rd.len(), want));
        }
        if code == R_PCM_SET_PARAMS && rd.len() == 24 && rd[23] != 0 {
            self.fails.push("sound: PCM_SET_PARAMS padding not zero".into());
        }
        let item = match code {
            R_JACK_INFO | R_CHMAP_INFO => 24,
            R_PCM_INFO => 32,
            _ => 0,
        };
        if item != 0 && rd.len() == 16 && le32(&rd, 12) != item {
            self.fails.push(format!("sound: info query {:#x} announces item size {} instead of {}", code, le32(&rd, 12), item));
        }
        let (mut nat, mut payload) = self.natural(&rd);
        if 4 + payload.len() > q.writable_len(&c) {
            // the driver asks for more items than its response buffer can hold (hostile configuration)
            nat = S_BAD_MSG;
            payload.clear();
        }
        let status = match self.forced.pop_front().flatten() {
            Some(f) if f != S_OK => f,
            _ => nat,
        };
        let mut rsp = status.to_le_bytes().to_vec();
        if status == S_OK {
            self.apply(&rd);
            if !self.short_info {
                rsp.extend(payload);
            } else if code == R_PCM_INFO {
                self.pcm_poisoned = true;
            }
        }
        let room = q.writable_len(&c);
        if room < rsp.len() {
            self.fails.push(format!("sound: response of {} bytes does not fit {} writable bytes", rsp.len(), room));
            rsp.truncate(room);
        }
        if let Err(e) = q.write_out(&c, &rsp) {
            self.fails.push(format!("sound: response buffer not writable: {}", e));
        }
        let need = if item != 0 && rd.len() == 16 { (4 + le32(&rd, 8) as usize * item as usize).min(4 + 8 * 32) } else { 4 };
        let mut eff = rsp.clone();
        eff.truncate(need);
        while eff.len() < need {
            eff.push(0xA5);
        }
        self.ctl_recs.push(CtlRec { code, bytes: rd.clone(), rsp_eff: eff, status });
        let _ = q.complete(c.head, rsp.len() as u32);
    }

    /// returns true if a control request was pending (and has been served)
    fn service_ctl(&mut self) -> bool {
        if self.ctl.is_none() {
            self.ctl = refq(&self.st.borrow(), 0);
        }
        let Some(mut q) = self.ctl.take() else { return false };
        let mut any = false;
        loop {
            match q.fetch_one() {
                Ok(Some(c)) => {
                    any = true;
                    self.process_ctl(&mut q, c)
                }
                Ok(None) => break,
                Err(e) => {
                    self.fails.push(format!("sound control queue: malformed chain: {}", e));
                    break;
                }
            }
        }
        if self.event_idx {
            let _ = q.set_avail_event(q.fetch_idx);
        }
        self.ctl = Some(q);
        any
    }

    fn fetch_tx(&mut self) {
        if self.tx.is_none() {
            self.tx = refq(&self.st.borrow(), 2);
        }
        let Some(mut q) = self.tx.take() else { return };
        loop {
            match q.fetch_one() {
                Ok(Some(c)) => {
                    let rd = q.read_in(&c).unwrap_or_default();
                    if rd.len() < 4 {
                        self.fails.push("sound tx: message shorter than virtio_snd_pcm_xfer".into());
                        self.tx_inflight.push((c, u32::MAX, vec![]));
                        continue;
                    }
                    let sid = le32(&rd, 0);
                    let data = rd[4..].to_vec();
                    if q.writable_len(&c) < 8 {
                        self.fails.push("sound tx: no room for virtio_snd_pcm_status".into());
                    }
                    if data.is_empty() {
                        self.fails.push("sound tx: PCM message without frames".into());
                    }
                    match self.periods.get(sid as usize).copied().flatten() {
                        None => self.fails.push(format!("sound tx: PCM transfer for stream {} before any accepted PCM_SET_PARAMS", sid)),
                        Some(p) => {
                            if data.len() > p as usize {
                                self.fails.push(format!("sound tx: chunk of {} bytes exceeds the configured period {}", data.len(), p));
                            }
                        }
                    }
                    self.tx_fetched += 1;
                    self.fetched.push(data.clone());
                    self.tx_inflight.push((c, sid, data));
                    self.max_inflight = self.max_inflight.max(self.tx_inflight.len());
                    if self.tx_inflight.len() > 32 {
                        self.fails.push("sound tx: more chains in flight than the queue holds".into());
                    }
                }
                Ok(None) => break,
                Err(e) => {
                    self.fails.push(format!("sound tx queue: malformed chain: {}", e));
                    break;
                }
            }
        }
        if self.event_idx {
            let _ = q.set_avail_event(q.fetch_idx);
        }
        self.tx = Some(q);
    }

    fn complete_tx(&mut self, i: usize, status: u32) {
        if i >= self.tx_inflight.len() {
            return;
        }
        if i != 0 {
            self.ooo = true;
        }
        if status != S_OK {
            self.err_status = true;
        }
        let (c, sid, data) = self.tx_inflight.remove(i);
        let mut q = self.tx.take().unwrap();
        let mut b = status.to_le_bytes().to_vec();
        b.extend(0u32.to_le_bytes());
        if let Err(e) = q.write_out(&c, &b) {
            self.fails.push(format!("sound tx: status buffer not writable: {}", e));
        }
        let _ = q.complete(c.head, 8);
        self.tx = Some(q);
        self.delivered.push((sid, status, data));
    }

    fn script_step(&mut self) {
        self.fetch_tx();
        let act = match self.script.as_mut() {
            None => return,
            Some(s) => s.pop_front().unwrap_or(Act::All),
        };
        match act {
            Act::Idle => {}
            Act::All => {
                while !self.tx_inflight.is_empty() {
                    self.complete_tx(0, S_OK);
                }
            }
            Act::Complete(i, st) => {
                if !self.tx_inflight.is_empty() {
                    let i = i.min(self.tx_inflight.len() - 1);
                    self.complete_tx(i, st);
                }
            }
        }
    }

    fn on_spin(&mut self) {
        if self.service_ctl() {
            return;
        }
        self.script_step();
    }
}

fn pattern(len: usize, a: u64, b: u64) -> Vec<u8> {
    (0..len as u64).map(|i| ((a * i + b) % 256) as u8).collect()
}

fn res_unit(r: Result<Result<(), Error>, String>) -> String {
    match r {
        Ok(Ok(())) => "ok".into(),
        Ok(Err(e)) => format!("err {:?}", e),
        Err(_) => "panic".into(),
    }
}

pub const F10_WRONG_TOKEN: &str = "after out-of-order completion";
pub const F10_ERR_STATUS: &str = "after an error status with chunks outstanding";

struct Fixed {
    period: u32,
    len: usize,
    script: Vec<Act>,
    indirect: bool,
}

/// `fixed`: the deterministic F10 histories (index selects one); otherwise random
pub fn one_case(ctx: &Ctx, i: usize, id: String, stream_name: &str) -> Case {
    let mut c = Case::new(id);
    let mut rng = ctx.case_rng(stream_name, i);
    let malformed = stream_name == "snd-malformed";
    let fixed = if stream_name == "snd-f10" {
        Some(match i {
            0 => Fixed { period: 16, len: 64, script: vec![Act::Idle, Act::Complete(1, S_OK)], indirect: false },
            1 => Fixed { period: 16, len: 64, script: vec![Act::Idle, Act::Complete(1, S_OK)], indirect: true },
            2 => Fixed { period: 16, len: 64, script: vec![Act::Idle, Act::Complete(0, S_IO_ERR)], indirect: false },
            _ => Fixed { period: 16, len: 64, script: vec![Act::Idle, Act::Complete(0, S_IO_ERR)], indirect: true },
        })
    } else {
        None
    };
    hal::reset();
    super::clear_spin();
    let mut offered = F_VERSION_1;
    for f in [F_INDIRECT, F_EVENT_IDX, F_ACCESS_PLATFORM] {
        if rng.chance(1, 2) {
            offered |= f;
        }
    }
    if let Some(f) = &fixed {
        offered = F_VERSION_1 | if f.indirect { F_INDIRECT } else { 0 };
    }
    let mut ts = TState::new(DeviceType::Sound, offered, 4, 256);
    let (nj, ns, nc) = if fixed.is_some() { (1usize, 2usize, 1usize) } else { (rng.below(4) as usize, if malformed && rng.chance(1, 6) { 0 } else { rng.range(1, 4) as usize }, rng.below(4) as usize) };
    let mut cfg_counts = (nj as u32, ns as u32, nc as u32);
    if malformed && rng.chance(1, 8) {
        // hostile configuration: more items than fit into the one-page response buffer
        match rng.below(3) {
            0 => cfg_counts.0 = rng.range(171, 400) as u32,
            1 => cfg_counts.1 = rng.range(128, 300) as u32,
            _ => cfg_counts.2 = rng.range(171, 400) as u32,
        }
    }
    let mut cfg = vec![];
    for v in [cfg_counts.0, cfg_counts.1, cfg_counts.2] {
        cfg.extend(v.to_le_bytes());
    }
    ts.config = cfg;
    let (t, st) = ModelTransport::new(ts);
    let mk24 = |rng: &mut Rng, remap: bool| {
        let mut b = [0u8; 24];
        for x in b.iter_mut().take(17) {
            *x = rng.next() as u8;
        }
        b[4..8].copy_from_slice(&(if remap { 1u32 } else { 0 }).to_le_bytes());
        b
    };
    let jacks: Vec<[u8; 24]> = (0..cfg_counts.0.min(400) as usize).map(|_| { let r = rng.chance(2, 3); mk24(&mut rng, r) }).collect();
    let chmaps: Vec<[u8; 24]> = (0..cfg_counts.2.min(400) as usize).map(|_| { let mut b = [0u8; 24]; for x in b.iter_mut() { *x = rng.below(19) as u8; } b }).collect();
    let pcms: Vec<PcmInfo> = (0..cfg_counts.1.min(300) as usize)
        .map(|k| PcmInfo {
            nid: rng.next() as u32,
            features: rng.below(32) as u32,
            formats: if fixed.is_some() || rng.chance(3, 4) { (1 << 25) - 1 } else { rng.next() & ((1 << 25) - 1) },
            rates: if fixed.is_some() || rng.chance(3, 4) { (1 << 14) - 1 } else { rng.next() & ((1 << 14) - 1) },
            direction: if k == 0 || rng.chance(2, 3) { 0 } else { 1 },
            ch_min: 1,
            ch_max: if fixed.is_some() { 8 } else { rng.range(1, 8) as u8 },
        })
        .collect();
    let nstreams = pcms.len();
    let dev = Rc::new(RefCell::new(SoundDev {
        st: st.clone(),
        ctl: None,
        tx: None,
        event_idx: false,
        jacks,
        pcms,
        chmaps,
        cfg: cfg_counts,
        states: vec![StreamState::Initial; nstreams],
        periods: vec![None; nstreams],
        forced: VecDeque::new(),
        short_info: false,
        pcm_poisoned: false,
        rng: rng.fork(),
        ctl_recs: vec![],
        fails: vec![],
        tx_inflight: vec![],
        script: None,
        delivered: vec![],
        fetched: vec![],
        tx_fetched: 0,
        ooo: false,
        err_status: false,
        max_inflight: 0,
    }));
    {
        let d = dev.clone();
        st.borrow_mut().on_notify = Some(Box::new(move |q| {
            let mut d = d.borrow_mut();
            if q == 0 {
                if d.rng.chance(2, 3) {
                    d.service_ctl();
                }
            } else if q == 2 {
                d.fetch_tx();
            }
        }));
        let d = dev.clone();
        super::install_spin(Box::new(move || d.borrow_mut().on_spin()));
    }
    let mut snd = match guarded(|| VirtIOSound::<LedgerHal, ModelTransport>::new(t)) {
        Ok(Ok(g)) => g,
        Ok(Err(e)) => {
            c.fail(format!("VirtIOSound::new failed: {:?}", e));
            return c;
        }
        Err(p) => {
            c.fail(format!("VirtIOSound::new panicked: {}", p));
            return c;
        }
    };
    let neg = st.borrow().driver_features;
    dev.borrow_mut().event_idx = neg & F_EVENT_IDX != 0;
    let indirect = neg & F_INDIRECT != 0;
    c.step(format!("snd new jacks={} streams={} chmaps={} indirect={}", cfg_counts.0, cfg_counts.1, cfg_counts.2, indirect as u8), "ok");
    c.tag(format!("snd:indirect={}", indirect as u8));

    // ordinal <-> real token of outstanding non-blocking transfers
    let mut nb: BTreeMap<usize, u16> = BTreeMap::new();
    let mut next_ord = 0usize;
    let density = if fixed.is_some() { 0 } else if malformed { 25 } else { *rng.pick(&[0u64, 0, 0, 10]) };
    let nops = if fixed.is_some() { 2 } else { rng.range(4, 18) as usize };
    let mut setup_done = false;
    let mut swallowed_jack_err = false;
    let mut tagged_hdr_share = false;
    for k in 0..nops {
        {
            let mut d = dev.borrow_mut();
            d.forced = (0..6).map(|_| if rng.below(100) < density { let x = rng.next() as u32; Some(*rng.pick(&[S_BAD_MSG, S_NOT_SUPP, S_IO_ERR, 0, 0x7fff, 0x8004, 0x0001_8000, 0xA5A5A5A5, x])) } else { None }).collect();
            d.short_info = malformed && rng.chance(1, 12);
            d.ctl_recs.clear();
            d.script = None;
            d.delivered.clear();
            d.fetched.clear();
            d.tx_fetched = 0;
            d.ooo = false;
            d.err_status = false;
        }
        super::reset_spin_count();
        let ns_cfg = cfg_counts.1.max(1);
        let pick_stream = |rng: &mut Rng| if malformed && rng.chance(1, 10) { rng.u32_biased() } else { rng.below(ns_cfg as u64) as u32 };
        // ---- choose the operation ----
        let choice = if let Some(_) = &fixed { if k == 0 { 0 } else { 8 } } else { rng.below(16) };
        let mut end_case = false;
        let (opline, out): (String, String) = match choice {
            0 | 1 | 2 => {
                let stream = if fixed.is_some() { 0 } else { pick_stream(&mut rng) };
                let period = if let Some(f) = &fixed { f.period } else if malformed && rng.chance(1, 5) { *rng.pick(&[0u32, 7, u32::MAX]) } else { *rng.pick(&[1u32, 2, 3, 8, 16, 64, 100, 256, 1000]) };
                let buffer = if malformed && rng.chance(1, 5) { rng.u32_biased() } else { period.saturating_mul(rng.range(1, 8) as u32) };
                let features = if rng.chance(1, 2) { 0 } else { rng.u32_biased() };
                let (ch, fi, ri) = (rng.range(1, 4) as u8, rng.below(25) as usize, rng.below(14) as usize);
                let r = guarded(|| snd.pcm_set_params(stream, buffer, period, PcmFeatures::from_bits_retain(features), ch, FORMATS[fi], RATES[ri]));
                let rs = res_unit(r);
                // oracle: the SET_PARAMS the device decoded carries exactly the caller's arguments
                if let Some(rec) = dev.borrow().ctl_recs.iter().find(|r| r.code == R_PCM_SET_PARAMS) {
                    let b = &rec.bytes;
                    if b.len() == 24 && (le32(b, 4), le32(b, 8), le32(b, 12), le32(b, 16), b[20], b[21] as usize, b[22] as usize) != (stream, buffer, period, features, ch, fi, ri) {
                        c.fail(format!("PCM_SET_PARAMS fields {:?} differ from the call {:?}", (le32(b, 4), le32(b, 8), le32(b, 12), le32(b, 16), b[20], b[21], b[22]), (stream, buffer, period, features, ch, fi, ri)));
                    }
                    if rs == "ok" && rec.status != S_OK {
                        c.fail(format!("pcm_set_params returned Ok although the device answered {:#x}", rec.status));
                    }
                } else if rs == "ok" {
                    c.fail("pcm_set_params returned Ok without sending PCM_SET_PARAMS");
                }
                if rs == "ok" {
                    c.nontrivial = true;
                }
                (format!("snd set_params stream={} buffer={} period={} features={} channels={} format={} rate={}", stream, buffer, period, features, ch, fi, ri), rs)
            }
            3 | 4 | 5 => {
                let stream = pick_stream(&mut rng);
                let (name, code) = *rng.pick(&[("prepare", R_PCM_PREPARE), ("start", R_PCM_START), ("stop", R_PCM_STOP), ("release", R_PCM_RELEASE)]);
                let r = guarded(|| match code {
                    R_PCM_PREPARE => snd.pcm_prepare(stream),
                    R_PCM_START => snd.pcm_start(stream),
                    R_PCM_STOP => snd.pcm_stop(stream),
                    _ => snd.pcm_release(stream),
                });
                let rs = res_unit(r);
                match dev.borrow().ctl_recs.iter().find(|r| r.code == code) {
                    Some(rec) => {
                        if rec.bytes.len() == 8 && le32(&rec.bytes, 4) != stream {
                            c.fail(format!("{}: request names stream {} instead of {}", name, le32(&rec.bytes, 4), stream));
                        }
                        if rs == "ok" && rec.status != S_OK {
                            c.fail(format!("pcm_{} returned Ok although the device answered {:#x}", name, rec.status));
                        }
                    }
                    None if rs == "ok" => c.fail(format!("pcm_{} returned Ok without sending its request", name)),
                    None => {}
                }
                (format!("snd {} stream={}", name, stream), rs)
            }
            6 => {
                let (jack, assoc, seq) = (if malformed { rng.u32_biased() } else { rng.below(cfg_counts.0.max(1) as u64) as u32 }, rng.u32_biased(), rng.u32_biased());
                let r = guarded(|| snd.jack_remap(jack, assoc, seq));
                let rs = res_unit(r);
                if let Some(rec) = dev.borrow().ctl_recs.iter().find(|r| r.code == R_JACK_REMAP) {
                    let b = &rec.bytes;
                    if b.len() == 16 && (le32(b, 4), le32(b, 8), le32(b, 12)) != (jack, assoc, seq) {
                        c.fail("JACK_REMAP fields differ from the call");
                    }
                    if rs == "ok" && rec.status != S_OK {
                        c.fail(format!("jack_remap returned Ok although the device answered {:#x}", rec.status));
                    }
                }
                if rs == "panic" && swallowed_jack_err {
                    c.tag("snd:observed:jack_remap-panics-after-swallowed-jack-info-error");
                }
                (format!("snd jack_remap jack={} assoc={} seq={}", jack, assoc, seq), rs)
            }
            7 => {
                let stream = pick_stream(&mut rng);
                let which = rng.below(6);
                let r: Result<Result<String, Error>, String> = guarded(|| match which {
                    0 => snd.output_streams().map(|v| if v.is_empty() { "-".into() } else { v.iter().map(|x| x.to_string()).collect::<Vec<_>>().join(",") }),
                    1 => snd.input_streams().map(|v| if v.is_empty() { "-".into() } else { v.iter().map(|x| x.to_string()).collect::<Vec<_>>().join(",") }),
                    2 => snd.rates_supported(stream).map(|v| v.bits().to_string()),
                    3 => snd.formats_supported(stream).map(|v| v.bits().to_string()),
                    4 => snd.features_supported(stream).map(|v| v.bits().to_string()),
                    _ => snd.channel_range_supported(stream).map(|v| format!("{}..={}", v.start(), v.end())),
                });
                let rs = match &r {
                    Ok(Ok(s)) => format!("ok {}", s),
                    Ok(Err(e)) => format!("err {:?}", e),
                    Err(_) => "panic".into(),
                };
                // oracle: capabilities equal what the device reported in its PCM_INFO response
                if let Ok(Ok(s)) = &r {
                    let d = dev.borrow();
                    if !setup_poisoned(&d) {
                        let want = match which {
                            0 => Some({ let v: Vec<String> = d.pcms.iter().enumerate().filter(|(_, p)| p.direction == 0).map(|(i, _)| i.to_string()).collect(); if v.is_empty() { "-".to_string() } else { v.join(",") } }),
                            1 => Some({ let v: Vec<String> = d.pcms.iter().enumerate().filter(|(_, p)| p.direction == 1).map(|(i, _)| i.to_string()).collect(); if v.is_empty() { "-".to_string() } else { v.join(",") } }),
                            _ => d.pcms.get(stream as usize).map(|p| match which {
                                2 => p.rates.to_string(),
                                3 => p.formats.to_string(),
                                4 => p.features.to_string(),
                                _ => format!("{}..={}", p.ch_min, p.ch_max),
                            }),
                        };
                        if d.pcms.len() == cfg_counts.1 as usize && !setup_poisoned(&d) && want.as_deref() != Some(s.as_str()) {
                            c.fail(format!("stream capability getter {} returned {} but the device reported {:?}", which, s, want));
                        }
                    }
                }
                let name = ["output_streams", "input_streams", "rates", "formats", "features", "channels"][which as usize];
                (if which < 2 { format!("snd {}", name) } else { format!("snd {} stream={}", name, stream) }, rs)
            }
            8 | 9 | 10 | 11 if nb.is_empty() => {
                // blocking transfer against a scripted device
                let stream = if fixed.is_some() { 0 } else { pick_stream(&mut rng) };
                let (len, pa, pb) = if let Some(f) = &fixed { (f.len, 7, 3) } else { (*rng.pick(&[0usize, 1, 5, 16, 63, 64, 65, 200, 1000, 4000]) + rng.below(3) as usize, rng.below(256), rng.below(256)) };
                let frames = pattern(len, pa, pb);
                let script: Vec<Act> = if let Some(f) = &fixed {
                    f.script.clone()
                } else {
                    let hostile = rng.chance(1, 5);
                    (0..rng.below(40)).map(|_| match rng.below(if hostile { 12 } else { 9 }) {
                        0 | 1 | 2 => Act::Idle,
                        3 | 4 | 5 | 6 => Act::Complete(0, S_OK),
                        7 | 8 => Act::All,
                        9 | 10 => Act::Complete(rng.range(1, 4) as usize, S_OK),
                        _ => Act::Complete(0, *rng.pick(&[S_BAD_MSG, S_NOT_SUPP, S_IO_ERR, 0, 0x8004])),
                    }).collect()
                };
                let script_s: Vec<String> = script.iter().map(|a| match a {
                    Act::Idle => "n".to_string(),
                    Act::All => "a".to_string(),
                    Act::Complete(0, s) if *s == S_OK => "o".to_string(),
                    Act::Complete(i, s) if *s == S_OK => format!("r{}", i),
                    Act::Complete(_, s) => format!("e{}", s),
                }).collect();
                dev.borrow_mut().script = Some(script.into_iter().collect());
                let before = hal::with(|h| h.live_shares());
                let r = guarded(|| snd.pcm_xfer(stream, &frames));
                dev.borrow_mut().script = None;
                dev.borrow_mut().fetch_tx();
                let after = hal::with(|h| h.live_shares());
                let leak = after as i64 - before as i64;
                let d = dev.borrow();
                let mut dig = vec![];
                for (sid, st_, data) in &d.delivered {
                    dig.extend(sid.to_le_bytes());
                    dig.extend(st_.to_le_bytes());
                    dig.extend(data);
                }
                let info = format!("submitted={} delivered={} fnv={} shared={}", d.tx_fetched, d.delivered.len(), fnv64(&dig), leak);
                let rs = match &r {
                    Ok(Ok(())) => format!("ok result=Ok {}", info),
                    // an error out of the loop needs at least one submitted message; otherwise the
                    // call was refused in its prologue (set_up failure / parameters not set)
                    Ok(Err(e)) if d.tx_fetched > 0 => format!("ok result={:?} {}", e, info),
                    Ok(Err(e)) => format!("err {:?}", e),
                    Err(_) => "panic".into(),
                };
                // ---- oracles on the transfer ----
                match &r {
                    Ok(Ok(())) => {
                        // in order, exactly once: what the driver made available, in submission order,
                        // concatenates to the caller's frames; the device (which may complete in any
                        // order) answered exactly those messages
                        let all: Vec<u8> = d.fetched.iter().flat_map(|x| x.clone()).collect();
                        if all != frames {
                            c.fail(format!("pcm_xfer returned Ok but the device received {} bytes in {} messages that do not concatenate to the caller's {} frame bytes", all.len(), d.fetched.len(), frames.len()));
                        }
                        let mut a: Vec<&Vec<u8>> = d.fetched.iter().collect();
                        let mut b: Vec<&Vec<u8>> = d.delivered.iter().map(|(_, _, x)| x).collect();
                        a.sort();
                        b.sort();
                        if a != b {
                            c.fail(format!("pcm_xfer returned Ok but only {} of the {} submitted messages were completed", d.delivered.len(), d.fetched.len()));
                        }
                        if d.delivered.iter().any(|(sid, _, _)| *sid != stream) {
                            c.fail("a PCM message is tagged with a different stream id than the caller's");
                        }
                        if d.delivered.iter().any(|(_, s, _)| *s != S_OK) {
                            c.fail("pcm_xfer returned Ok although a message was answered with an error status");
                        }
                        if leak != 0 || !d.tx_inflight.is_empty() {
                            c.fail(format!("pcm_xfer returned Ok with {} buffers still shared", leak));
                        }
                        if !frames.is_empty() {
                            c.nontrivial = true;
                        }
                    }
                    Ok(Err(e)) => {
                        if leak > 0 {
                            end_case = true;
                            if *e == Error::WrongToken && d.ooo {
                                c.fail(format!("pcm_xfer returned WrongToken with {} buffers still shared {}", leak, F10_WRONG_TOKEN));
                            } else if *e == Error::IoError && d.err_status {
                                c.fail(format!("pcm_xfer returned IoError with {} buffers still shared {}", leak, F10_ERR_STATUS));
                            } else {
                                c.fail(format!("pcm_xfer returned {:?} with {} buffers still shared", e, leak));
                            }
                        }
                        // (since repair F15 completions are matched by token: the order does not matter)
                        if d.tx_fetched > 0 && !d.err_status {
                            c.fail(format!("pcm_xfer failed with {:?} although the device answered every message with OK", e));
                        }
                        if *e == Error::QueueFull {
                            c.fail("pcm_xfer exceeded the queue capacity (QueueFull)");
                        }
                    }
                    Err(p) => {
                        if d.tx_fetched > 0 {
                            c.fail(format!("pcm_xfer panicked during the transfer: {}", p));
                        }
                    }
                }
                c.tag(format!("snd:xfer:{}", if d.ooo { "ooo" } else if d.err_status { "errstatus" } else { "inorder" }));
                c.tag(format!("snd:xfer:maxinflight<={}", d.max_inflight.next_power_of_two()));
                (format!("snd xfer stream={} len={} pa={} pb={} script={}", stream, len, pa, pb, if script_s.is_empty() { "-".into() } else { script_s.join(",") }), rs)
            }
            8 | 9 | 10 | 11 | 12 | 13 => {
                // non-blocking: submit, let the device complete in any order, or collect
                let sub = rng.below(3);
                if sub == 0 || nb.is_empty() {
                    let stream = pick_stream(&mut rng);
                    let period = dev.borrow().periods.get(stream as usize).copied().flatten();
                    let len = match period {
                        Some(p) if p <= 4096 && !(malformed && rng.chance(1, 8)) => p as usize,
                        _ => rng.range(1, 64) as usize,
                    };
                    let (pa, pb) = (rng.below(256), rng.below(256));
                    let frames = pattern(len, pa, pb);
                    let r = guarded(|| snd.pcm_xfer_nb(stream, &frames));
                    dev.borrow_mut().fetch_tx();
                    let rs = match r {
                        Ok(Ok(tok)) => {
                            nb.insert(next_ord, tok);
                            next_ord += 1;
                            // oracle: one message = stream id + exactly the caller's frames
                            let d = dev.borrow();
                            match d.tx_inflight.last() {
                                Some((_, sid, data)) if *sid == stream && *data == frames => {}
                                _ => c.fail("pcm_xfer_nb: the device did not receive stream id + the caller's frames as one message"),
                            }
                            format!("ok tok={}", next_ord - 1)
                        }
                        Ok(Err(e)) => format!("err {:?}", e),
                        Err(_) => "panic".into(),
                    };
                    (format!("snd xfer_nb stream={} len={} pa={} pb={}", stream, len, pa, pb), rs)
                } else if sub == 1 && !dev.borrow().tx_inflight.is_empty() {
                    let n = dev.borrow().tx_inflight.len();
                    let idx = rng.below(n as u64) as usize;
                    let status = if rng.chance(1, 6) { S_IO_ERR } else { S_OK };
                    dev.borrow_mut().complete_tx(idx, status);
                    (format!("snd dev_complete idx={} status={}", idx, status), "ok".to_string())
                } else {
                    let ords: Vec<usize> = nb.keys().copied().collect();
                    let ord = *rng.pick(&ords);
                    let tok = nb[&ord];
                    // (C09) the frames and the status word of a non-blocking transfer are owned by the
                    // driver: they must not be released while the chain is still posted to the device
                    let _ = crate::c09_drop::take_frees();
                    crate::c09_drop::watch(true);
                    let r = guarded(|| snd.pcm_xfer_ok(tok));
                    crate::c09_drop::watch(false);
                    let freed = crate::c09_drop::take_frees();
                    if !freed.is_empty() {
                        c.fail(format!("[C09] pcm_xfer_ok({:?}) released {} driver-owned buffer(s) that are still shared with the live device", r.as_ref().map(|x| x.as_ref().map(|_| ()).map_err(|e| format!("{:?}", e))), freed.iter().map(|(_, n)| n).sum::<usize>()));
                    }
                    let rs = res_unit(r);
                    // the transfer is consumed when the completion was popped: on success and (since fix
                    // 097f5f5, which makes pcm_xfer_ok check the device's status) on `IoError`
                    if rs == "ok" || rs == "err IoError" {
                        nb.remove(&ord);
                    }
                    (format!("snd xfer_ok tok={}", ord), rs)
                }
            }
            _ => {
                let stream = pick_stream(&mut rng);
                let r = guarded(|| snd.pcm_prepare(stream));
                (format!("snd prepare stream={}", stream), res_unit(r))
            }
        };
        // ---- transcript ----
        let recs: Vec<CtlRec> = dev.borrow().ctl_recs.clone();
        let mut line = recs.iter().map(|r| format!("req({})", hex(&r.bytes))).collect::<Vec<_>>().join(" ");
        if !line.is_empty() {
            line.push(' ');
        }
        let is_dev_op = opline.starts_with("snd dev_complete");
        let out_s = if is_dev_op { out.clone() } else { format!("{}=> {}", line, out) };
        let rsps: Vec<String> = recs.iter().map(|r| hex(&r.rsp_eff)).collect();
        let full = if is_dev_op { opline.clone() } else { format!("{} rsps={}", opline, if rsps.is_empty() { "-".into() } else { rsps.join(",") }) };
        c.tag(format!("snd:op={}", opline.split(' ').nth(1).unwrap_or("")));
        let is_xfer = full.starts_with("snd xfer ");
        c.step(full, out_s);
        // set_up bookkeeping for the observation tags
        if !setup_done {
            if let Some(j) = recs.iter().find(|r| r.code == R_JACK_INFO) {
                if j.status != S_OK {
                    swallowed_jack_err = true;
                    c.tag("snd:observed:jack-info-error-swallowed-by-set_up");
                }
            }
            if recs.iter().any(|r| r.code == R_CHMAP_INFO) {
                setup_done = true;
            }
        }
        for f in std::mem::take(&mut dev.borrow_mut().fails) {
            c.fail(f);
        }
        for v in hal::with(|h| std::mem::take(&mut h.violations)) {
            // `pcm_xfer` shares its 4-byte stream-id header once per outstanding chunk (read-only for
            // the device); the ledger's "same memory shared twice" heuristic does not apply to it
            if is_xfer && v.contains("overlaps live share") {
                if !tagged_hdr_share {
                    tagged_hdr_share = true;
                    c.tag("snd:xfer:stream-id-header-shared-per-chunk");
                }
                continue;
            }
            c.fail(format!("ledger: {}", v));
        }
        if out.starts_with("panic") || end_case {
            break;
        }
    }
    super::clear_spin();
    st.borrow_mut().on_notify = None;
    let _ = guarded(move || drop(snd));
    c
}

/// the PCM info table the driver holds may be poisoned by a short response (then no comparison)
fn setup_poisoned(d: &SoundDev) -> bool {
    d.short_info || d.pcm_poisoned
}
