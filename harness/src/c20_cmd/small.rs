//! Reference entropy, clock (RTC) and 9P devices and their case drivers.

use super::{F_ACCESS_PLATFORM, F_EVENT_IDX, F_INDIRECT, F_VERSION_1, hex, le16, le32, le64, refq};
use crate::hal::{self, LedgerHal};
use crate::mtrans::{ModelTransport, TState};
use crate::proto::Case;
use crate::refdev::{Chain, RefQueue};
use crate::rng::{Rng, fnv64};
use crate::runner::{Ctx, guarded};
use std::cell::RefCell;
use std::rc::Rc;
use virtio_drivers::device::rng::VirtIORng;
use virtio_drivers::device::rtc::VirtIORtc;
use virtio_drivers::device::virtio_9p::VirtIO9p;
use virtio_drivers::transport::DeviceType;

/// what the device saw and did for one chain
#[derive(Clone, Debug, Default)]
pub struct Seen {
    rd: Vec<Vec<u8>>,
    wr: Vec<usize>,
    written: Vec<u8>,
    used: u32,
}

/// a one-queue device: `plan` decides, per chain, the bytes to write and the used length to report
pub struct OneQ {
    st: Rc<RefCell<TState>>,
    q: Option<RefQueue>,
    event_idx: bool,
    rng: Rng,
    seen: Vec<Seen>,
    fails: Vec<String>,
    plan: Box<dyn FnMut(&[Vec<u8>], &[usize], &mut Rng) -> (Vec<u8>, u32)>,
}

impl OneQ {
    fn service(&mut self) {
        if self.q.is_none() {
            self.q = refq(&self.st.borrow(), 0);
        }
        let Some(mut q) = self.q.take() else { return };
        loop {
            match q.fetch_one() {
                Ok(Some(c)) => self.process(&mut q, c),
                Ok(None) => break,
                Err(e) => {
                    self.fails.push(format!("malformed chain: {}", e));
                    break;
                }
            }
        }
        if self.event_idx {
            let _ = q.set_avail_event(q.fetch_idx);
        }
        self.q = Some(q);
    }
    fn process(&mut self, q: &mut RefQueue, c: Chain) {
        let mut rd = vec![];
        let mut wr = vec![];
        for s in &c.segs {
            if s.write {
                wr.push(s.len as usize);
            } else {
                rd.push(hal::dev_read(s.addr, s.len as usize).unwrap_or_default());
            }
        }
        let (mut written, used) = (self.plan)(&rd, &wr, &mut self.rng);
        let room: usize = wr.iter().sum();
        written.truncate(room);
        if let Err(e) = q.write_out(&c, &written) {
            self.fails.push(format!("response buffer not writable: {}", e));
        }
        self.seen.push(Seen { rd, wr, written, used });
        let _ = q.complete(c.head, used);
    }
}

fn setup(rng: &mut Rng, dt: DeviceType, config: Vec<u8>, plan: Box<dyn FnMut(&[Vec<u8>], &[usize], &mut Rng) -> (Vec<u8>, u32)>) -> (ModelTransport, Rc<RefCell<TState>>, Rc<RefCell<OneQ>>) {
    hal::reset();
    super::clear_spin();
    let mut offered = F_VERSION_1;
    for f in [F_INDIRECT, F_EVENT_IDX, F_ACCESS_PLATFORM] {
        if rng.chance(1, 2) {
            offered |= f;
        }
    }
    let mut ts = TState::new(dt, offered, 2, 256);
    ts.config = config;
    let (t, st) = ModelTransport::new(ts);
    let dev = Rc::new(RefCell::new(OneQ { st: st.clone(), q: None, event_idx: false, rng: rng.fork(), seen: vec![], fails: vec![], plan }));
    let d = dev.clone();
    st.borrow_mut().on_notify = Some(Box::new(move |_q| {
        let serve = d.borrow_mut().rng.chance(2, 3);
        if serve {
            d.borrow_mut().service();
        }
    }));
    let d = dev.clone();
    super::install_spin(Box::new(move || d.borrow_mut().service()));
    (t, st, dev)
}

fn chain_str(s: &Seen) -> String {
    format!(
        "chain(rd={},wr={}) ",
        s.rd.iter().map(|b| hex(b)).collect::<Vec<_>>().join("+"),
        if s.wr.is_empty() { "-".to_string() } else { s.wr.iter().map(|x| x.to_string()).collect::<Vec<_>>().join(",") }
    )
}

fn finish(c: &mut Case, dev: &Rc<RefCell<OneQ>>, st: &Rc<RefCell<TState>>) {
    for f in std::mem::take(&mut dev.borrow_mut().fails) {
        c.fail(f);
    }
    for v in hal::with(|h| std::mem::take(&mut h.violations)) {
        c.fail(format!("ledger: {}", v));
    }
    let _ = st;
}

pub fn rng_case(ctx: &Ctx, i: usize, id: String) -> Case {
    let mut c = Case::new(id);
    let mut rng = ctx.case_rng("rng", i);
    let lie = rng.chance(1, 6);
    let plan = Box::new(move |_rd: &[Vec<u8>], wr: &[usize], r: &mut Rng| {
        let room: usize = wr.iter().sum();
        let n = match r.below(4) {
            0 => room,
            1 => 0,
            2 => r.below(room as u64 + 1) as usize,
            _ => room.min(1),
        };
        let used = if lie { *r.pick(&[n as u32 + 1, u32::MAX, 0, room as u32 + 7]) } else { n as u32 };
        (r.bytes(n), used)
    });
    let (t, st, dev) = setup(&mut rng, DeviceType::EntropySource, vec![], plan);
    let mut drv = match guarded(|| VirtIORng::<LedgerHal, ModelTransport>::new(t)) {
        Ok(Ok(d)) => d,
        other => {
            c.fail(format!("VirtIORng::new failed: {:?}", other.map(|r| r.map(|_| ()))));
            return c;
        }
    };
    dev.borrow_mut().event_idx = st.borrow().driver_features & F_EVENT_IDX != 0;
    for _ in 0..rng.range(1, 8) {
        super::reset_spin_count();
        let len = *rng.pick(&[1usize, 2, 7, 16, 64, 255, 1000, 4096]) + if rng.chance(1, 3) { rng.below(9) as usize } else { 0 };
        let len = if rng.chance(1, 25) { 0 } else { len };
        let mut dst = vec![0x11u8; len];
        dev.borrow_mut().seen.clear();
        let r = guarded(|| drv.request_entropy(&mut dst));
        let seen = dev.borrow().seen.clone();
        let (w, used) = seen.first().map(|s| (s.written.clone(), s.used)).unwrap_or_default();
        let out = match &r {
            Ok(Ok(n)) => format!("{}=> ok {} dst={}", seen.first().map(chain_str).unwrap_or_default(), n, fnv64(&dst)),
            Ok(Err(e)) => format!("{}=> err {:?}", seen.first().map(chain_str).unwrap_or_default(), e),
            Err(_) => "=> panic".to_string(),
        };
        c.step(format!("rng entropy len={} used={} w={}", len, used, hex(&w)), out);
        // oracles (§5.4: the driver offers device-writable buffers only; the device reports how much it filled)
        if let Ok(Ok(n)) = &r {
            let s = &seen[0];
            if !s.rd.is_empty() || s.wr != vec![len] {
                c.fail(format!("entropy request is not one device-writable buffer of {} bytes: {:?} readable, writable {:?}", len, s.rd.len(), s.wr));
            }
            if *n != s.used as usize {
                c.fail(format!("request_entropy returned {} but the device reported {}", n, s.used));
            }
            if dst[..s.written.len()] != s.written[..] {
                c.fail("entropy bytes differ from what the device wrote");
            }
            c.nontrivial = true;
        }
        c.tag(format!("rng:{}", if lie { "lying-length" } else { "honest" }));
        finish(&mut c, &dev, &st);
        if r.is_err() {
            break;
        }
    }
    super::clear_spin();
    st.borrow_mut().on_notify = None;
    let _ = guarded(move || drop(drv));
    c
}

/// 66 000 entropy requests on one driver instance (oracles only): the ring indices wrap on the way and
/// every request must still come back with what the device wrote
pub fn rng_wrap_case(ctx: &Ctx, i: usize, id: String) -> Case {
    let mut c = Case::new(id);
    let mut rng = ctx.case_rng("rng-wrap", i);
    let plan = Box::new(move |_rd: &[Vec<u8>], wr: &[usize], r: &mut Rng| {
        let room: usize = wr.iter().sum();
        (r.bytes(room), room as u32)
    });
    let (t, st, dev) = setup(&mut rng, DeviceType::EntropySource, vec![], plan);
    let mut drv = match guarded(|| VirtIORng::<LedgerHal, ModelTransport>::new(t)) {
        Ok(Ok(d)) => d,
        other => {
            c.fail(format!("VirtIORng::new failed: {:?}", other.map(|r| r.map(|_| ()))));
            return c;
        }
    };
    dev.borrow_mut().event_idx = st.borrow().driver_features & F_EVENT_IDX != 0;
    for k in 0..66_000u32 {
        super::reset_spin_count();
        let mut dst = [0x11u8; 8];
        dev.borrow_mut().seen.clear();
        let r = guarded(|| drv.request_entropy(&mut dst));
        let seen = dev.borrow().seen.clone();
        match (&r, seen.first()) {
            (Ok(Ok(8)), Some(s)) if s.written[..] == dst[..] => {}
            other => {
                c.fail(format!("long run: entropy request {} returned {:?} (device wrote {:?})", k, other.0.as_ref().map(|x| x.as_ref().map_err(|e| format!("{:?}", e))), other.1.map(|s| s.written.len())));
                break;
            }
        }
        let _ = crate::hal::take_events();
    }
    c.tag("rng-wrap");
    c.nontrivial = true;
    super::clear_spin();
    st.borrow_mut().on_notify = None;
    let _ = guarded(move || drop(drv));
    let _ = crate::hal::take_events();
    c
}

pub fn rtc_case(ctx: &Ctx, i: usize, id: String) -> Case {
    let mut c = Case::new(id);
    let mut rng = ctx.case_rng("rtc", i);
    let nclocks = rng.range(0, 5) as u16;
    let clocks: Vec<(u8, u8, u8, u64)> = (0..nclocks).map(|_| (if rng.chance(4, 5) { rng.below(5) as u8 } else { rng.next() as u8 }, if rng.chance(4, 5) { rng.below(3) as u8 } else { rng.next() as u8 }, rng.next() as u8, rng.u64_biased())).collect();
    let density = *rng.pick(&[0u64, 0, 15, 40]);
    let clocks2 = clocks.clone();
    // reference clock device, from the RTC device section: request head {le16 msg_type; u8 reserved[6]},
    // response head {u8 status; u8 reserved[7]}
    let plan = Box::new(move |rd: &[Vec<u8>], _wr: &[usize], r: &mut Rng| {
        let req: Vec<u8> = rd.concat();
        let mut rsp = vec![0u8; 16];
        let mut status = 0u8;
        if req.len() < 8 {
            status = 4;
        } else {
            match le16(&req, 0) {
                0x1000 => rsp[8..10].copy_from_slice(&(clocks2.len() as u16).to_le_bytes()),
                0x1001 | 0x0001 if req.len() >= 16 => match clocks2.get(le16(&req, 8) as usize) {
                    None => status = 3,
                    Some((ty, sm, fl, reading)) => {
                        if le16(&req, 0) == 0x1001 {
                            rsp[8] = *ty;
                            rsp[9] = *sm;
                            rsp[10] = *fl;
                        } else {
                            rsp[8..16].copy_from_slice(&reading.to_le_bytes());
                        }
                    }
                },
                0x1001 | 0x0001 => status = 4,
                _ => status = 2,
            }
        }
        if r.below(100) < density {
            status = match r.below(3) {
                0 => *r.pick(&[1u8, 2, 3, 4, 5, 6]),
                1 => r.next() as u8,
                _ => *r.pick(&[0x80u8, 0xff, 0xA5]),
            };
        }
        rsp[0] = status;
        // a failing device need only write the head; sometimes it writes even less
        let n = if status != 0 { *r.pick(&[8usize, 16, 1]) } else if r.chance(1, 20) { *r.pick(&[0usize, 1, 8, 10]) } else { 16 };
        rsp.truncate(n);
        (rsp, n as u32)
    });
    let (t, st, dev) = setup(&mut rng, DeviceType::Timer, vec![], plan);
    let mut drv = match guarded(|| VirtIORtc::<LedgerHal, ModelTransport>::new(t)) {
        Ok(Ok(d)) => d,
        other => {
            c.fail(format!("VirtIORtc::new failed: {:?}", other.map(|r| r.map(|_| ()))));
            return c;
        }
    };
    dev.borrow_mut().event_idx = st.borrow().driver_features & F_EVENT_IDX != 0;
    for _ in 0..rng.range(2, 12) {
        super::reset_spin_count();
        dev.borrow_mut().seen.clear();
        let id = if rng.chance(1, 5) { rng.u16_biased() } else { rng.below(nclocks as u64 + 1) as u16 };
        let which = rng.below(3);
        let r: Result<Result<String, virtio_drivers::Error>, String> = guarded(|| match which {
            0 => drv.num_clocks().map(|n| n.to_string()),
            1 => drv.clock_cap(id).map(|k| format!("{:?},{},{}", k.kind, k.leap_second_smearing.map(|s| format!("{:?}", s)).unwrap_or("None".into()), k.alarm_capability as u8)),
            _ => drv.read(id).map(|v| v.to_string()),
        });
        let seen = dev.borrow().seen.clone();
        let s = seen.first().cloned().unwrap_or_default();
        let out = format!("{}=> {}", if seen.is_empty() { String::new() } else { chain_str(&s) }, match &r {
            Ok(Ok(v)) => format!("ok {}", v),
            Ok(Err(e)) => format!("err {:?}", e),
            Err(_) => "panic".into(),
        });
        let (name, args) = match which {
            0 => ("num_clocks", String::new()),
            1 => ("clock_cap", format!(" id={}", id)),
            _ => ("read", format!(" id={}", id)),
        };
        c.step(format!("rtc {}{} rsp={}", name, args, hex(&s.written)), out);
        // ---- oracles, from the specification's structures ----
        let req: Vec<u8> = s.rd.concat();
        let (want_type, want_len) = match which {
            0 => (0x1000u16, 8usize),
            1 => (0x1001, 16),
            _ => (0x0001, 16),
        };
        if seen.len() != 1 || req.len() != want_len || le16(&req, 0) != want_type || req[2..8].iter().any(|b| *b != 0) {
            c.fail(format!("rtc {}: request {} is not the specification's structure (msg_type {:#x}, {} bytes, reserved zero)", name, hex(&req), want_type, want_len));
        } else if which != 0 && (le16(&req, 8) != id || req[10..16].iter().any(|b| *b != 0)) {
            c.fail(format!("rtc {}: clock_id field {} differs from the caller's {}", name, le16(&req, 8), id));
        }
        if s.wr.iter().sum::<usize>() < 16 {
            c.fail("rtc: response buffer smaller than the response structure");
        }
        // what the driver found in its buffer: written bytes then the platform's poison
        let mut eff = s.written.clone();
        eff.resize(16, 0xA5);
        match &r {
            Ok(Ok(v)) => {
                if eff[0] != 0 {
                    c.fail(format!("rtc {} returned Ok although the device answered status {}", name, eff[0]));
                }
                let want = match which {
                    0 => Some(le16(&eff, 8).to_string()),
                    2 => Some(le64(&eff, 8).to_string()),
                    _ => None,
                };
                if let Some(w) = want {
                    if &w != v {
                        c.fail(format!("rtc {} returned {} but the device reported {}", name, v, w));
                    }
                }
                if which == 1 {
                    let kinds = ["Utc", "Tai", "Monotonic", "UtcSmeared", "UtcMaybeSmeared"];
                    let k = kinds.get(eff[8] as usize).copied().unwrap_or("?");
                    let sm = if eff[8] == 3 { match eff[9] { 0 => "None", 1 => "NoonLinear", 2 => "UtcSls", _ => "?" } } else { "None" };
                    let w = format!("{},{},{}", k, sm, eff[10] & 1);
                    if &w != v {
                        c.fail(format!("rtc clock_cap returned {} but the device reported {}", v, w));
                    }
                }
                c.nontrivial = true;
            }
            Ok(Err(_)) => {
                if eff[0] == 0 && which != 1 {
                    c.fail(format!("rtc {} failed although the device answered VIRTIO_RTC_S_OK", name));
                }
            }
            Err(p) => c.fail(format!("rtc {} panicked: {}", name, p)),
        }
        c.tag(format!("rtc:status={}", if eff[0] == 0 { "ok".to_string() } else if eff[0] <= 5 { eff[0].to_string() } else { "other".into() }));
        finish(&mut c, &dev, &st);
        if r.is_err() {
            break;
        }
    }
    super::clear_spin();
    st.borrow_mut().on_notify = None;
    let _ = guarded(move || drop(drv));
    c
}

pub fn p9_case(ctx: &Ctx, i: usize, id: String) -> Case {
    let mut c = Case::new(id);
    let mut rng = ctx.case_rng("p9", i);
    // configuration: struct virtio_9p_config { le16 tag_len; u8 tag[tag_len]; }
    let tag: Vec<u8> = match rng.below(8) {
        0 => vec![],
        1 => vec![0xff, 0xfe, b'x'],
        2 => "sharé/日本".as_bytes().to_vec(),
        3 => vec![0xc3],
        _ => (0..rng.range(1, 24)).map(|_| b'a' + rng.below(26) as u8).collect(),
    };
    let mut cfg = (tag.len() as u16).to_le_bytes().to_vec();
    cfg.extend(&tag);
    match rng.below(10) {
        0 => cfg.truncate(1),
        1 => cfg.truncate(cfg.len().saturating_sub(1).max(2)),
        2 => cfg.extend([0u8; 5]),
        3 => cfg.clear(),
        _ => {}
    }
    let plan = Box::new(move |_rd: &[Vec<u8>], wr: &[usize], r: &mut Rng| {
        let room: usize = wr.iter().sum();
        // an R-message of `l` bytes: size[4] type[1] tag[2] payload
        let l = match r.below(5) {
            0 => 7.min(room),
            1 => room,
            2 => r.below(room as u64 + 1) as usize,
            3 => r.below(7) as usize,
            _ => r.range(7, 64).min(room as u64) as usize,
        };
        let mut m = r.bytes(l);
        let size = match r.below(6) {
            0 => l as u32 + 1,
            1 => r.u32_biased(),
            _ => l as u32,
        };
        for (k, b) in size.to_le_bytes().iter().enumerate() {
            if k < m.len() {
                m[k] = *b;
            }
        }
        let used = if r.chance(1, 10) { l as u32 + 1 } else { l as u32 };
        (m, used)
    });
    let (t, st, dev) = setup(&mut rng, DeviceType::_9P, cfg.clone(), plan);
    let r = guarded(|| VirtIO9p::<LedgerHal, ModelTransport>::new(t));
    let out = match &r {
        Ok(Ok(d)) => format!("=> ok {}", hex(d.mount_tag().as_bytes())),
        Ok(Err(e)) => format!("=> err {:?}", e),
        Err(_) => "=> panic".into(),
    };
    c.step(format!("p9 new cfg={}", hex(&cfg)), out);
    // oracle: the mount tag is exactly the `tag_len` bytes after the length field
    if let Ok(Ok(d)) = &r {
        let n = le16(&cfg, 0) as usize;
        if d.mount_tag().as_bytes() != &cfg[2..2 + n] {
            c.fail(format!("mount tag {:?} differs from the device's {:?}", d.mount_tag(), &cfg[2..2 + n]));
        }
    }
    let Ok(Ok(mut drv)) = r else {
        finish(&mut c, &dev, &st);
        super::clear_spin();
        return c;
    };
    dev.borrow_mut().event_idx = st.borrow().driver_features & F_EVENT_IDX != 0;
    for _ in 0..rng.range(1, 8) {
        super::reset_spin_count();
        dev.borrow_mut().seen.clear();
        let req = if rng.chance(1, 12) { vec![] } else { let n = *rng.pick(&[1usize, 7, 11, 23, 64, 300]); rng.bytes(n) };
        let rlen = if rng.chance(1, 8) { rng.below(7) as usize } else { *rng.pick(&[7usize, 8, 16, 64, 128, 1000]) };
        let mut resp = vec![0x22u8; rlen];
        let r = guarded(|| drv.request(&req, &mut resp));
        let seen = dev.borrow().seen.clone();
        let s = seen.first().cloned().unwrap_or_default();
        let out = format!("{}=> {}", if seen.is_empty() { String::new() } else { chain_str(&s) }, match &r {
            Ok(Ok(n)) => format!("ok {} resp={}", n, fnv64(&resp)),
            Ok(Err(e)) => format!("err {:?}", e),
            Err(_) => "panic".into(),
        });
        c.step(format!("p9 request req={} rlen={} w={} used={}", hex(&req), rlen, hex(&s.written), s.used), out);
        match &r {
            Ok(Ok(n)) => {
                if s.rd.concat() != req {
                    c.fail("9p: the device did not receive the caller's message bytes verbatim");
                }
                if *n != s.used || s.written.len() < 4 || le32(&s.written, 0) != s.used {
                    c.fail(format!("9p request returned Ok({}) but the response's size field / used length are {} / {}", n, if s.written.len() >= 4 { le32(&s.written, 0) } else { 0 }, s.used));
                }
                if resp[..s.written.len()] != s.written[..] {
                    c.fail("9p: response bytes differ from what the device wrote");
                }
                c.nontrivial = true;
            }
            Ok(Err(e)) => {
                if !seen.is_empty() && s.written.len() >= 4 && le32(&s.written, 0) == s.used {
                    c.fail("9p request failed although size field and used length agree");
                }
                // a non-empty message with room for a whole response header (size[4] type[1] tag[2] = 7
                // bytes, the full size of Rclunk / Rflush / Rremove) must be sent
                if seen.is_empty() && !req.is_empty() && rlen >= 7 {
                    c.fail(format!("9p request of {} bytes with a {}-byte response buffer was refused ({:?}) without reaching the device", req.len(), rlen, e));
                }
            }
            Err(p) => c.fail(format!("9p request panicked: {}", p)),
        }
        finish(&mut c, &dev, &st);
    }
    super::clear_spin();
    st.borrow_mut().on_notify = None;
    let _ = guarded(move || drop(drv));
    c
}
