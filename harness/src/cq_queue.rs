//! Queue-core correspondence and oracles (properties C01–C05, C07, queue half of C19):
//! the real `VirtQueue<LedgerHal, N>` driven op by op, a reference device on the other side of the
//! device-visible memory, the store hook turning every device-visible store into an ordered event.

use crate::hal::{self, HalEv, LedgerHal};
use crate::mtrans::{ModelTransport, TState};
use crate::proto::Case;
use crate::refdev::{Chain, RefQueue, Seg};
use crate::rng::Rng;
use crate::runner::{Ctx, guarded};
use std::cell::RefCell;
use std::collections::{BTreeMap, HashMap};
use virtio_drivers::queue::VirtQueue;
use virtio_drivers::transport::{DeviceType, Transport};
use virtio_drivers::{BufferDirection, Error};

// ---------------------------------------------------------------------------------------------
// store hook: snapshot-diff of the driver-owned device-visible areas
// ---------------------------------------------------------------------------------------------

pub struct StoreCtx {
    pub n: usize,
    pub desc: u64,
    pub avail: u64,
    pub snap_desc: Vec<u8>,
    pub snap_avail: Vec<u8>,
    /// device-visible image at the start of the current operation (for the net effect of the operation)
    pub op_desc: Vec<u8>,
    pub op_avail: Vec<u8>,
    /// whether the last store that changed anything in the current operation changed the available index
    pub last_change_was_idx: bool,
    /// (logical clock, canonical store text)
    pub events: Vec<(u64, String)>,
    /// device model used by the per-store oracle (clone of the case's device: fetch pointer, in-flight)
    pub dev: RefQueue,
    /// entry index (free-running u16 count) -> expected segments, for entries whose `add` returned
    pub expected: HashMap<u16, (u16, Vec<Seg>)>,
    pub oracle: Vec<String>,
    pub last_idx: u16,
    pub stores_checked: u64,
    /// the per-store validation is off for the rest of the case (a deliberately malformed submission
    /// — an empty buffer on the indirect path — is accepted with a zero-length element, which the
    /// reference device, like QEMU, does not parse; the case ends with that step)
    pub suspended: bool,
    /// whether VIRTIO_F_EVENT_IDX was negotiated for this queue (`used_event` may only be written then)
    pub event_idx: bool,
}

thread_local! {
    pub static STORE: RefCell<Option<StoreCtx>> = const { RefCell::new(None) };
}

fn read_area(addr: u64, len: usize) -> Vec<u8> {
    hal::dev_read(addr, len).unwrap_or_default()
}

impl StoreCtx {
    pub fn new(n: usize, desc: u64, avail: u64, dev: RefQueue) -> Self {
        StoreCtx {
            n,
            desc,
            avail,
            snap_desc: read_area(desc, 16 * n),
            snap_avail: read_area(avail, 6 + 2 * n),
            op_desc: read_area(desc, 16 * n),
            op_avail: read_area(avail, 6 + 2 * n),
            last_change_was_idx: false,
            events: vec![],
            dev,
            expected: HashMap::new(),
            oracle: vec![],
            last_idx: 0,
            stores_checked: 0,
            suspended: false,
            event_idx: true,
        }
    }
    pub fn resync(&mut self) {
        self.snap_desc = read_area(self.desc, 16 * self.n);
        self.snap_avail = read_area(self.avail, 6 + 2 * self.n);
        self.op_desc = self.snap_desc.clone();
        self.op_avail = self.snap_avail.clone();
    }
    /// Net effect of the current operation on driver-written device-visible memory: the locations
    /// whose value now differs from the value at the start of the operation, as sorted texts with the
    /// available index last.  (Which intermediate values a location went through, and in which order
    /// different locations were written before the index, is not fixed by the properties; the order
    /// "index last" is checked separately on the raw store sequence.)  Starts the next operation.
    pub fn net_effect(&mut self) -> Vec<String> {
        let (sd, sa) = (std::mem::take(&mut self.snap_desc), std::mem::take(&mut self.snap_avail));
        self.snap_desc = std::mem::take(&mut self.op_desc);
        self.snap_avail = std::mem::take(&mut self.op_avail);
        let mut toks = self.diff();
        // `diff` has set snap_* to the current memory
        let _ = (sd, sa);
        self.op_desc = self.snap_desc.clone();
        self.op_avail = self.snap_avail.clone();
        let idx: Vec<String> = toks.iter().filter(|t| t.starts_with("idx=")).cloned().collect();
        toks.retain(|t| !t.starts_with("idx="));
        toks.sort();
        toks.extend(idx);
        toks
    }
    /// diff current memory against the snapshot; returns canonical texts of changed locations
    fn diff(&mut self) -> Vec<String> {
        let n = self.n;
        let d = read_area(self.desc, 16 * n);
        let a = read_area(self.avail, 6 + 2 * n);
        let mut out = vec![];
        if d != self.snap_desc {
            for i in 0..n {
                let (x, y) = (&d[16 * i..16 * i + 16], &self.snap_desc[16 * i..16 * i + 16]);
                if x != y {
                    let addr = u64::from_le_bytes(x[0..8].try_into().unwrap());
                    let len = u32::from_le_bytes(x[8..12].try_into().unwrap());
                    let flags = u16::from_le_bytes(x[12..14].try_into().unwrap());
                    let next = u16::from_le_bytes(x[14..16].try_into().unwrap());
                    out.push(format!("desc[{}]=({:#x},{},{},{})", i, addr, len, flags, next));
                }
            }
        }
        if a != self.snap_avail {
            let r16 = |b: &Vec<u8>, o: usize| u16::from_le_bytes([b[o], b[o + 1]]);
            // order of reporting inside one firing is fixed: ring slots, idx, flags, used_event
            for s in 0..n {
                if r16(&a, 4 + 2 * s) != r16(&self.snap_avail, 4 + 2 * s) {
                    out.push(format!("ring[{}]={}", s, r16(&a, 4 + 2 * s)));
                }
            }
            if r16(&a, 2) != r16(&self.snap_avail, 2) {
                out.push(format!("idx={}", r16(&a, 2)));
            }
            if r16(&a, 0) != r16(&self.snap_avail, 0) {
                out.push(format!("flags={}", r16(&a, 0)));
            }
            if r16(&a, 4 + 2 * n) != r16(&self.snap_avail, 4 + 2 * n) {
                out.push(format!("used_event={}", r16(&a, 4 + 2 * n)));
                if !self.event_idx {
                    self.oracle.push(format!("[C08] used_event written ({}) on a queue for which VIRTIO_F_EVENT_IDX was not negotiated", r16(&a, 4 + 2 * n)));
                }
            }
        }
        self.snap_desc = d;
        self.snap_avail = a;
        out
    }

    /// C02 oracle, evaluated on the real memory at this very instant: everything below the
    /// available index the device can read right now is complete, in-flight chains are intact,
    /// the index only ever advances by one.
    fn check_complete(&mut self) {
        if self.suspended {
            return;
        }
        self.stores_checked += 1;
        let idx = match self.dev.avail_idx() {
            Ok(v) => v,
            Err(e) => {
                self.oracle.push(format!("[C02] cannot read avail idx: {}", e));
                return;
            }
        };
        let step = idx.wrapping_sub(self.last_idx);
        if step > 1 {
            self.oracle.push(format!("[C02] available index moved from {} to {} in one store", self.last_idx, idx));
        }
        self.last_idx = idx;
        let pending = idx.wrapping_sub(self.dev.fetch_idx);
        if pending as usize > self.n {
            self.oracle.push(format!("[C02] {} unfetched entries exceed the queue size", pending));
            return;
        }
        for j in 0..pending {
            let entry = self.dev.fetch_idx.wrapping_add(j);
            let head = match self.dev.avail_ring(entry % self.n as u16) {
                Ok(h) => h,
                Err(e) => {
                    self.oracle.push(format!("[C02] {}", e));
                    return;
                }
            };
            match self.dev.parse_chain(head) {
                Err(e) => self.oracle.push(format!("[C02] entry {} (head {}) visible below idx {} but incomplete: {}", entry, head, idx, e)),
                Ok(c) => {
                    if let Some((tok, segs)) = self.expected.get(&entry) {
                        if *tok != head || *segs != c.segs {
                            self.oracle.push(format!("[C02] entry {} visible below idx {} does not describe the submitted buffers (head {} vs token {})", entry, idx, head, tok));
                        }
                    }
                    for s in &c.segs {
                        if let Err(e) = hal::translate(s.addr, s.len as usize) {
                            self.oracle.push(format!("[C02] entry {} visible with a segment that is not shared: {}", entry, e));
                        }
                    }
                }
            }
        }
        for c in self.dev.inflight.clone() {
            match self.dev.parse_chain(c.head) {
                Ok(now) if now == c => {}
                other => self.oracle.push(format!("[C02] in-flight chain {} was modified before the device returned it: {:?}", c.head, other.err())),
            }
        }
    }
}

pub fn on_store() {
    let seq = hal::tick();
    STORE.with(|s| {
        if let Some(ctx) = s.borrow_mut().as_mut() {
            let d = ctx.diff();
            if d.is_empty() {
                ctx.events.push((seq, "nochange".into()));
            } else {
                ctx.last_change_was_idx = d.len() == 1 && d[0].starts_with("idx=");
                ctx.events.push((seq, d.join("&")));
            }
            ctx.check_complete();
        }
    });
}

pub fn on_store_all() {
    on_store();
    crate::wake::on_store();
}

pub fn install_hooks() {
    virtio_drivers::verif_hooks::set_store_hook(Some(on_store_all));
}

// ---------------------------------------------------------------------------------------------
// one live queue with its device and bookkeeping
// ---------------------------------------------------------------------------------------------

pub struct Held {
    pub ins: Vec<usize>,
    pub outs: Vec<usize>,
    pub entry: u16,
}

pub struct Live<const N: usize> {
    pub q: VirtQueue<LedgerHal, N>,
    pub t: ModelTransport,
    pub dev: RefQueue,
    pub bufs: Vec<Vec<u8>>,
    pub held: BTreeMap<u16, Held>,
    pub indirect: bool,
    pub event_idx: bool,
    pub ap: bool,
    /// what the device wrote into each completed chain, to be compared after pop (C04 copy-back)
    pub dev_written: HashMap<u16, Vec<u8>>,
    /// available index at the previous `should_notify` evaluation (C05 oracle)
    pub old_idx: u16,
    pub added: u64,
    pub popped: u64,
    pub hostile: bool,
    /// the case ends after the current step (an accepted submission with an empty buffer: the
    /// reference device, like QEMU, refuses zero-length descriptors, so nothing is fetched after it)
    pub stop: bool,
}

fn err_str(e: Error) -> String {
    format!("err {:?}", e)
}

impl<const N: usize> Live<N> {
    pub fn new(indirect: bool, event_idx: bool, ap: bool) -> Result<Self, String> {
        hal::reset();
        crate::wake::disable();
        STORE.with(|s| *s.borrow_mut() = None);
        // the device's maximum queue size is the driver's SIZE or larger (a device may offer more than the
        // driver uses); the reference device indexes the rings with the size it was *told*
        static ALT: std::sync::atomic::AtomicUsize = std::sync::atomic::AtomicUsize::new(0);
        let k = ALT.fetch_add(1, std::sync::atomic::Ordering::Relaxed);
        let max = match k % 3 {
            0 => N as u32,
            1 => (2 * N as u32).min(32768).max(N as u32),
            _ => 32768,
        };
        let mut ts = TState::new(DeviceType::Block, 0, 1, max);
        // every other triple of queues sits on a transport that requires the legacy (contiguous) layout: the
        // ring features a queue was created with hold there just the same
        ts.legacy = (k / 3) % 2 == 1;
        let (mut t, st) = ModelTransport::new(ts);
        let q = guarded(|| VirtQueue::<LedgerHal, N>::new(&mut t, 0, indirect, event_idx, ap))?.map_err(|e| format!("{:?}", e))?;
        let reg = st.borrow().queues[0];
        if reg.size as usize != N {
            return Err(format!("[C01] VirtQueue::<_, {}>::new registered the queue with size {} (device maximum {}): the device will look for ring slot idx mod {} while the driver fills idx mod {}", N, reg.size, max, reg.size, N));
        }
        let dev = RefQueue::new(N as u16, reg.desc, reg.driver, reg.device, indirect);
        hal::take_events();
        STORE.with(|s| {
            let mut ctx = StoreCtx::new(N, reg.desc, reg.driver, dev.clone());
            ctx.event_idx = event_idx;
            *s.borrow_mut() = Some(ctx)
        });
        Ok(Live { q, t, dev, bufs: vec![], held: BTreeMap::new(), indirect, event_idx, ap, dev_written: HashMap::new(), old_idx: 0, added: 0, popped: 0, hostile: false, stop: false })
    }

    pub fn sync_dev_to_store(&self) {
        STORE.with(|s| {
            if let Some(ctx) = s.borrow_mut().as_mut() {
                ctx.dev.fetch_idx = self.dev.fetch_idx;
                ctx.dev.inflight = self.dev.inflight.clone();
                ctx.resync();
            }
        });
    }

    pub fn priv_str(&self) -> String {
        let (nu, fh, ai, lu) = self.q.verif_state();
        let pk = match self.q.peek_used() {
            Some(t) => t.to_string(),
            None => "-".into(),
        };
        format!("priv={},{},{},{} q={},{},{},{}", nu, fh, ai, lu, self.q.available_desc(), self.q.can_pop() as u8, pk, self.q.should_notify() as u8)
    }

    /// merges HAL events and store events of the op that just ran into one ordered list
    fn take_evs(&self) -> (String, Vec<(u64, HalEv)>) {
        let h = hal::take_events();
        let mut all: Vec<(u64, String)> = h.iter().map(|(s, e)| (*s, e.canon())).collect();
        let hostile = self.hostile;
        STORE.with(|s| {
            if let Some(ctx) = s.borrow_mut().as_mut() {
                let st = std::mem::take(&mut ctx.events);
                if !hostile {
                    all.extend(st);
                }
            }
        });
        all.sort_by_key(|(s, _)| *s);
        // canonical form: platform events in order, then the net effect on device-visible memory
        let mut toks: Vec<String> = h.iter().map(|(_, e)| e.canon()).collect();
        if !hostile {
            STORE.with(|s| {
                if let Some(ctx) = s.borrow_mut().as_mut() {
                    toks.extend(ctx.net_effect());
                }
            });
        }
        let _ = all;
        let txt = if toks.is_empty() { "-".to_string() } else { toks.join(" ") };
        (txt, h)
    }

    pub fn drain_store_oracle(&self, c: &mut Case) {
        STORE.with(|s| {
            if let Some(ctx) = s.borrow_mut().as_mut() {
                for o in ctx.oracle.drain(..) {
                    c.fail(o);
                }
            }
        });
        for v in hal::with(|h| std::mem::take(&mut h.violations)) {
            c.fail(format!("[C04] ledger: {}", v));
        }
    }

    pub fn new_buf(&mut self, len: usize, fill: u8) -> usize {
        let id = self.bufs.len();
        let v = vec![fill; len];
        self.bufs.push(v);
        hal::name_buffer(self.bufs[id].as_ptr(), len, &format!("b{}", id));
        id
    }

    /// `add` with fresh buffers of the given lengths. Returns the op line and the canonical output.
    pub fn add(&mut self, c: &mut Case, in_lens: &[usize], out_lens: &[usize], rng: &mut Rng) -> Option<u16> {
        let ins: Vec<usize> = in_lens.iter().map(|l| self.new_buf(*l, 0)).collect();
        for i in &ins {
            let data = rng.bytes(self.bufs[*i].len());
            self.bufs[*i].copy_from_slice(&data);
        }
        let outs: Vec<usize> = out_lens.iter().map(|l| self.new_buf(*l, 0xEE)).collect();
        let fmt = |v: &Vec<usize>, b: &Vec<Vec<u8>>| if v.is_empty() { "-".to_string() } else { v.iter().map(|i| format!("{}:{}", i, b[*i].len())).collect::<Vec<_>>().join(",") };
        let op = format!("queue add in={} out={}{}", fmt(&ins, &self.bufs), fmt(&outs, &self.bufs), if self.hostile { " nost=1" } else { "" });
        let has_empty_buf = in_lens.iter().chain(out_lens.iter()).any(|l| *l == 0);
        hal::with(|h| h.allow_empty = has_empty_buf);
        if has_empty_buf {
            STORE.with(|s| {
                if let Some(ctx) = s.borrow_mut().as_mut() {
                    ctx.suspended = true;
                }
            });
        }
        let st_before = self.q.verif_state();
        let (_, _, avail_before, _) = st_before;
        let free_before = self.q.available_desc();
        let r = {
            // SAFETY (of the call under test): buffers live in `self.bufs` until popped.
            let bufs_ptr: *mut Vec<Vec<u8>> = &mut self.bufs;
            let q = &mut self.q;
            guarded(move || {
                // SAFETY: distinct indices; the vectors are not moved while shared.
                let b = unsafe { &mut *bufs_ptr };
                let in_refs: Vec<&[u8]> = ins.iter().map(|i| unsafe { &*(b[*i].as_slice() as *const [u8]) }).collect();
                let mut out_refs: Vec<&mut [u8]> = outs.iter().map(|i| unsafe { &mut *(b[*i].as_mut_slice() as *mut [u8]) }).collect();
                let r = unsafe { q.add(&in_refs, &mut out_refs) };
                (r, ins, outs)
            })
        };
        hal::with(|h| h.allow_empty = false);
        let (evs, halev) = self.take_evs();
        let mut tok = None;
        let res = match r {
            Err(p) => {
                c.tag("add:panic");
                let _ = p;
                if has_empty_buf {
                    // the refusal of an empty buffer (by a panic: the call was abandoned part-way, the case ends)
                    self.stop = true;
                    "refused-empty".to_string()
                } else {
                    if !self.hostile {
                        c.fail(format!("[C03] add of {} non-empty buffers panicked under the caller contract (free descriptors {}, driver state {:?})", in_lens.len() + out_lens.len(), free_before, st_before));
                    }
                    "panic".to_string()
                }
            }
            Ok((Err(e), _, _)) => {
                c.tag(format!("add:{:?}", e));
                // C03: refused exactly when no buffers or capacity insufficient, without side effects
                let k = in_lens.len() + out_lens.len();
                // (an empty buffer is refused by a panic on the direct path today; an error is as good,
                // provided it has no side effects)
                let has_empty = in_lens.iter().chain(out_lens.iter()).any(|l| *l == 0);
                let need_refuse = has_empty || k == 0 || if self.indirect { free_before == 0 || k > N } else { k > free_before };
                if !need_refuse {
                    c.fail(format!("[C03] add of {} buffers refused ({:?}) although {} descriptors were free", k, e, free_before));
                }
                if !halev.is_empty() || evs != "-" {
                    c.fail(format!("[C04] refused add had side effects: {}", evs));
                }
                if self.q.verif_state() != st_before {
                    c.fail(format!("[C03] refused add changed the queue's bookkeeping (num_used, free_head, avail_idx, last_used_idx): {:?} -> {:?}", st_before, self.q.verif_state()));
                }
                if has_empty {
                    // nothing was published: the per-store validation goes on for the rest of the history
                    // (a refusal that leaked descriptors shows up there, when they are handed out again)
                    STORE.with(|s| {
                        if let Some(ctx) = s.borrow_mut().as_mut() {
                            ctx.suspended = false;
                        }
                    });
                }
                let capacity_refusal = k == 0 || if self.indirect { free_before == 0 || k > N } else { k > free_before };
                if has_empty && !capacity_refusal && halev.is_empty() && evs == "-" && self.q.verif_state() == st_before {
                    // an empty buffer on the direct path is refused by a panic today; a clean error is
                    // the same refusal (both are printed alike, the history goes on from the unchanged state)
                    "refused-empty".to_string()
                } else {
                    err_str(e)
                }
            }
            Ok((Ok(t), ins, outs)) => {
                c.tag("add:ok");
                c.tag(format!("chain_len={}", (ins.len() + outs.len()).min(9)));
                let k = ins.len() + outs.len();
                if k == 0 {
                    c.fail("[C03] add accepted an empty submission");
                }
                if !self.indirect && k > free_before {
                    c.fail(format!("[C03] add of {} buffers accepted with only {} free descriptors", k, free_before));
                }
                if k > N {
                    c.fail(format!("[C03] add of {} buffers accepted on a queue of {} entries (a chain, indirect or not, may not be longer than the queue)", k, N));
                }
                self.added += 1;
                tok = Some(t);
                // C04: exactly one share per buffer, in order, right name/len/direction, never Both
                let shares: Vec<&HalEv> = halev.iter().map(|(_, e)| e).collect();
                let want_table = self.indirect && k > 1;
                if shares.len() != k + want_table as usize {
                    c.fail(format!("[C04] add of {} buffers produced {} HAL events: {}", k, shares.len(), evs));
                }
                let mut segs = vec![];
                for (j, bi) in ins.iter().chain(outs.iter()).enumerate() {
                    let w = j >= ins.len();
                    match shares.get(j) {
                        Some(HalEv::Share { k: sk, name, len, dir, ap }) => {
                            let want_dir = if w { BufferDirection::DeviceToDriver } else { BufferDirection::DriverToDevice };
                            if name != &format!("b{}", bi) || *len != self.bufs[*bi].len() || *dir != want_dir || *ap != self.ap {
                                c.fail(format!("[C04] buffer b{} shared as {} len {} dir {:?}", bi, name, len, dir));
                            }
                            segs.push(Seg { addr: hal::SHARE_BASE + hal::SHARE_STRIDE * *sk as u64, len: *len as u32, write: w });
                        }
                        other => c.fail(format!("[C04] expected share of b{}, got {:?}", bi, other)),
                    }
                }
                // C01: the device parses the new entry and finds exactly these segments
                let slot = avail_before % N as u16;
                if has_empty_buf {
                    // accepted with a zero-length element (only `add_indirect` does that): not fetched
                    self.stop = true;
                }
                match (self.dev.avail_ring(slot), self.dev.avail_idx()) {
                    _ if self.hostile || has_empty_buf => {}
                    (Ok(h), Ok(idx)) => {
                        if h != t {
                            c.fail(format!("[C01] ring slot {} holds {} but add returned token {}", slot, h, t));
                        }
                        if idx != avail_before.wrapping_add(1) {
                            c.fail(format!("[C01] available index {} after add, was {}", idx, avail_before));
                        }
                        match self.dev.parse_chain(h) {
                            Err(e) => c.fail(format!("[C01] published chain {} is malformed: {}", h, e)),
                            Ok(ch) => {
                                if ch.segs != segs {
                                    c.fail(format!("[C01] published chain {} = {:?} does not describe the caller's buffers {:?}", h, ch.segs, segs));
                                }
                                if ch.indirect && !self.indirect {
                                    c.fail(format!("[C08] chain {} uses an indirect table although the queue was created without RING_INDIRECT_DESC", h));
                                }
                                if ch.indirect != want_table {
                                    c.fail(format!("[C01] chain {} indirect={} but queue indirect={} k={}", h, ch.indirect, self.indirect, k));
                                }
                                for o in self.dev.inflight.iter() {
                                    if o.descs.iter().any(|d| ch.descs.contains(d)) {
                                        c.fail(format!("[C01] descriptor shared between outstanding chains {} and {}", o.head, h));
                                    }
                                }
                            }
                        }
                    }
                    (a, b) => c.fail(format!("[C01] cannot read available ring: {:?} {:?}", a.err(), b.err())),
                }
                // C02: the index store is the last device-visible change of the submission
                let idx_last = STORE.with(|s| s.borrow().as_ref().map(|c| c.last_change_was_idx).unwrap_or(true));
                if !self.hostile && !(idx_last && evs.ends_with(&format!("idx={}", avail_before.wrapping_add(1)))) {
                    c.fail(format!("[C02] available index is not the last device-visible location to change: {}", evs));
                }
                STORE.with(|s| {
                    if let Some(ctx) = s.borrow_mut().as_mut() {
                        ctx.expected.insert(avail_before, (t, segs));
                    }
                });
                if self.held.contains_key(&t) {
                    c.fail(format!("[C01] token {} returned while still outstanding", t));
                }
                self.held.insert(t, Held { ins, outs, entry: avail_before });
                format!("ok token={}", t)
            }
        };
        if res == "panic" || res == "refused-empty" {
            // (a panic: the call was abandoned part-way, the case ends here and nothing after it is compared)
            c.step(op, res.clone());
        } else {
            c.step(op, format!("{} | {} | {}", res, evs, self.priv_str()));
        }
        self.drain_store_oracle(c);
        tok
    }

    /// A buffer of 4 GiB + 16 bytes: its length does not fit the 32-bit `len` of a descriptor.  The
    /// submission must be refused (the code panics in `set_buf`), never published with a truncated length.
    /// The case ends here.
    pub fn add_huge(&mut self, c: &mut Case) {
        // one 4 GiB mapping at a time, whatever the number of worker threads (the harness runs under an
        // address-space cap)
        static ONE_AT_A_TIME: std::sync::Mutex<()> = std::sync::Mutex::new(());
        let _guard = ONE_AT_A_TIME.lock().unwrap_or_else(|e| e.into_inner());
        let small = vec![1u8; 8];
        // zero pages are mapped lazily: the memory is never touched
        let mut huge = vec![0u8; (1usize << 32) + 16];
        let huge_len = huge.len();
        let huge_ptr = huge.as_mut_ptr();
        hal::with(|h| h.allow_huge = true);
        let r = {
            let q = &mut self.q;
            guarded(|| {
                // SAFETY: `huge` lives until the end of this function and is not otherwise used.
                let mut big: &mut [u8] = unsafe { std::slice::from_raw_parts_mut(huge_ptr, huge_len) };
                let r = unsafe { q.add(&[&small], &mut [&mut big]) };
                r.is_ok()
            })
        };
        hal::with(|h| h.allow_huge = false);
        let _ = self.take_evs();
        match r {
            Ok(true) => {
                c.fail(format!("[C01] a device-writable buffer of {} bytes was accepted and published: a descriptor's 32-bit length cannot describe it", huge_len));
                c.step("queue add_huge", "accepted");
            }
            Ok(false) => c.step("queue add_huge", "refused"),
            Err(_) => c.step("queue add_huge", "panic"),
        }
        let _ = hal::with(|h| std::mem::take(&mut h.violations));
        drop(huge);
    }

    /// A multi-buffer submission on an indirect queue at the moment the heap cannot supply the indirect
    /// table: refused (today by a panic, which ends the case) — never published in some other shape that
    /// the capacity check did not cover.
    pub fn add_oom(&mut self, c: &mut Case, k: usize) {
        let bufs: Vec<Vec<u8>> = (0..k).map(|i| vec![i as u8 + 1; 8]).collect();
        for (i, b) in bufs.iter().enumerate() {
            hal::name_buffer(b.as_ptr(), 8, &format!("boom{}", i));
        }
        let before = self.q.verif_state();
        let op = format!("queue add_oom k={}", k);
        crate::c09_drop::fail_next_table(true);
        let r = {
            let q = &mut self.q;
            let refs: Vec<&[u8]> = bufs.iter().map(|b| b.as_slice()).collect();
            guarded(move || unsafe { q.add(&refs, &mut []) })
        };
        let unused = crate::c09_drop::fail_next_table(false);
        let (evs, _halev) = self.take_evs();
        match r {
            Ok(Ok(t)) if !unused => {
                c.fail(format!("[C01] add of {} buffers on an indirect queue succeeded (token {}) although its indirect table could not be allocated: published as {} with {:?} -> {:?}", k, t, evs, before, self.q.verif_state()));
                c.step(op, "accepted".to_string());
                self.stop = true;
            }
            Ok(Ok(_)) => {
                // no table was allocated at all (not reached for k > 1 on an indirect queue)
                c.step(op, "accepted".to_string());
                self.stop = true;
            }
            Ok(Err(e)) => {
                if self.q.verif_state() != before || evs != "-" {
                    c.fail(format!("[C03] refused add had side effects: {} {:?} -> {:?}", evs, before, self.q.verif_state()));
                }
                let _ = e;
                c.step(op, "refused-oom".to_string());
            }
            Err(_) => {
                c.step(op, "refused-oom".to_string());
                self.stop = true;
            }
        }
        hal::with(|h| h.bufnames.retain(|b| !b.2.starts_with("boom")));
        let _ = hal::with(|h| std::mem::take(&mut h.violations));
    }

    /// A submission of 65 536 or more (one-byte, device-readable) buffers: far longer than any queue, it
    /// must be refused like any other over-long chain — the count must not be judged modulo 2^16.
    pub fn add_many(&mut self, c: &mut Case, k: usize) {
        let one = vec![7u8; 1];
        hal::name_buffer(one.as_ptr(), 1, "bmany");
        let before = self.q.verif_state();
        let op = format!("queue add_many k={}", k);
        let r = {
            let q = &mut self.q;
            let one_ref: &[u8] = one.as_slice();
            guarded(move || {
                let refs: Vec<&[u8]> = (0..k).map(|_| one_ref).collect();
                // SAFETY: the buffer outlives the call; a refused submission shares nothing.
                unsafe { q.add(&refs, &mut []) }
            })
        };
        let (evs, _halev) = self.take_evs();
        match r {
            Ok(Ok(t)) => {
                c.fail(format!("[C03] add of {} buffers accepted (token {}) on a queue of {} entries: a chain, indirect or not, may not be longer than the queue", k, t, N));
                c.step(op, "accepted".to_string());
                self.stop = true;
            }
            Ok(Err(e)) => {
                if self.q.verif_state() != before || evs != "-" {
                    c.fail(format!("[C03] refused add of {} buffers had side effects: {} {:?} -> {:?}", k, evs, before, self.q.verif_state()));
                }
                c.step(op, format!("{} | {} | {}", err_str(e), evs, self.priv_str()));
            }
            Err(_) => {
                c.step(op, "panic".to_string());
                self.stop = true;
            }
        }
        hal::with(|h| h.bufnames.retain(|b| b.2 != "bmany"));
        let _ = hal::with(|h| std::mem::take(&mut h.violations));
    }

    /// device: fetch everything available (validating), remember in-flight chains
    pub fn dev_fetch(&mut self, c: &mut Case) {
        match self.dev.fetch_all() {
            Ok(chains) => {
                for ch in chains {
                    // C01/C04: readable bytes the device sees are the caller's bytes
                    if let Some(h) = self.held.get(&ch.head) {
                        let mut want = vec![];
                        for i in &h.ins {
                            want.extend_from_slice(&self.bufs[*i]);
                        }
                        match self.dev.read_in(&ch) {
                            Ok(got) if got == want => {}
                            Ok(_) => c.fail(format!("[C04] device-readable bytes of chain {} differ from the caller's buffers", ch.head)),
                            Err(e) => c.fail(format!("[C04] {}", e)),
                        }
                    } else if !self.hostile {
                        c.fail(format!("[C01] device fetched chain {} which the caller does not hold", ch.head));
                    }
                }
            }
            Err(e) => {
                if !self.hostile {
                    c.fail(format!("[C01] device fetch failed: {}", e));
                }
            }
        }
        self.sync_dev_to_store();
    }

    /// device completes in-flight chain number `pick` writing `len` pattern bytes
    pub fn dev_complete(&mut self, c: &mut Case, pick: usize, len_choice: u32, rng: &mut Rng) -> Option<u16> {
        if self.dev.inflight.is_empty() {
            return None;
        }
        let ch = self.dev.inflight[pick % self.dev.inflight.len()].clone();
        let wl = self.dev.writable_len(&ch);
        let len = if wl == 0 { 0 } else { len_choice % (wl as u32 + 1) };
        let data = rng.bytes(len as usize);
        if let Err(e) = self.dev.write_out(&ch, &data) {
            c.fail(format!("[C04] device cannot write chain {}: {}", ch.head, e));
        }
        self.dev_written.insert(ch.head, data);
        // the length a device records is its own business: some count the readable part as well, some
        // report nonsense; the driver must hand on exactly what was recorded
        let len = match rng.below(16) {
            0 => len + self.dev.read_in(&ch).map(|b| b.len() as u32).unwrap_or(0),
            1 => rng.u32_biased(),
            _ => len,
        };
        let op = format!("queue used id={} len={}", ch.head, len);
        if let Err(e) = self.dev.complete(ch.head, len) {
            c.fail(format!("device: {}", e));
        }
        // C04: device-written bytes must not be visible in the caller's buffers before the pop
        if let Some(h) = self.held.get(&ch.head) {
            for i in &h.outs {
                if self.bufs[*i].iter().any(|b| *b != 0xEE) {
                    c.fail(format!("[C04] caller buffer b{} changed before its completion was consumed", i));
                }
            }
        }
        self.sync_dev_to_store();
        c.step(op, format!("ok | - | {}", self.priv_str()));
        Some(ch.head)
    }

    /// `pop_used(token)` with the buffers the harness holds for that token
    pub fn pop(&mut self, c: &mut Case, token: u16) {
        let (ins, outs) = match self.held.get(&token) {
            Some(h) => (h.ins.clone(), h.outs.clone()),
            None => return,
        };
        let fmt = |v: &Vec<usize>, b: &Vec<Vec<u8>>| if v.is_empty() { "-".to_string() } else { v.iter().map(|i| format!("{}:{}", i, b[*i].len())).collect::<Vec<_>>().join(",") };
        let op = format!("queue pop tok={} in={} out={}{}", token, fmt(&ins, &self.bufs), fmt(&outs, &self.bufs), if self.hostile { " nost=1" } else { "" });
        let before = self.q.verif_state();
        let peek = self.q.peek_used();
        let can = self.q.can_pop();
        let free_before = self.q.available_desc();
        let used_len_expected = self.dev_last_len_for_next();
        let r = {
            let bufs_ptr: *mut Vec<Vec<u8>> = &mut self.bufs;
            let q = &mut self.q;
            let (ins2, outs2) = (ins.clone(), outs.clone());
            guarded(move || {
                // SAFETY: as in `add`.
                let b = unsafe { &mut *bufs_ptr };
                let in_refs: Vec<&[u8]> = ins2.iter().map(|i| unsafe { &*(b[*i].as_slice() as *const [u8]) }).collect();
                let mut out_refs: Vec<&mut [u8]> = outs2.iter().map(|i| unsafe { &mut *(b[*i].as_mut_slice() as *mut [u8]) }).collect();
                unsafe { q.pop_used(token, &in_refs, &mut out_refs) }
            })
        };
        let (evs, halev) = self.take_evs();
        let res = match r {
            Err(_) => {
                c.tag("pop:panic");
                if !self.hostile {
                    c.fail(format!("[C03] pop_used({}) panicked under the caller contract", token));
                } else {
                    c.fail(format!("[C07] pop_used({}) panicked although the caller followed the contract", token));
                }
                "panic".to_string()
            }
            Ok(Err(e)) => {
                c.tag(format!("pop:{:?}", e));
                // C03: nothing ready / wrong token changes nothing
                if self.q.verif_state() != before || !halev.is_empty() || evs != "-" {
                    c.fail(format!("[C03] failed pop_used({}) = {:?} changed state: {}", token, e, evs));
                }
                match e {
                    Error::NotReady if can => c.fail("[C03] NotReady although a completion was pending"),
                    Error::WrongToken if !can && !self.hostile => c.fail(format!("[C03] pop_used({}) = WrongToken although nothing was pending (NotReady: the caller would give up instead of polling again)", token)),
                    Error::WrongToken if peek == Some(token) => c.fail("[C03] WrongToken for the token at the head of the used ring"),
                    _ => {}
                }
                err_str(e)
            }
            Ok(Ok(len)) => {
                c.tag("pop:ok");
                self.popped += 1;
                if peek != Some(token) {
                    c.fail(format!("[C03] pop_used({}) succeeded but the used ring head was {:?}", token, peek));
                }
                if let Some(l) = used_len_expected {
                    if l != len && !self.hostile {
                        c.fail(format!("[C03] pop_used returned len {} but the device recorded {}", len, l));
                    }
                }
                let k = ins.len() + outs.len();
                // C04: exactly the matching unshares
                let want_table = self.indirect && k > 1;
                let uns: Vec<&HalEv> = halev.iter().map(|(_, e)| e).collect();
                if uns.len() != k + want_table as usize || uns.iter().any(|e| !matches!(e, HalEv::Unshare { k: Some(_), .. })) {
                    c.fail(format!("[C04] pop of {} buffers produced HAL events: {}", k, evs));
                }
                // C04: device-written bytes now (and only now) visible in the caller's writable buffers
                if let Some(data) = self.dev_written.remove(&token).filter(|_| !self.hostile) {
                    let mut off = 0;
                    for i in &outs {
                        let b = &self.bufs[*i];
                        let nn = b.len().min(data.len().saturating_sub(off));
                        if b[..nn] != data[off..off + nn] {
                            c.fail(format!("[C04] bytes written by the device are not in caller buffer b{} after pop", i));
                        }
                        off += nn;
                    }
                }
                // C03: descriptors reusable: free count went up by the chain's descriptor use
                let used_descs = if want_table { 1 } else { k };
                let free_after = self.q.available_desc();
                if !self.indirect && free_after != free_before + used_descs {
                    c.fail(format!("[C03] free descriptors {} -> {} after popping a chain of {}", free_before, free_after, used_descs));
                }
                if self.event_idx {
                    // C05: used_event re-armed to the new last_used_idx
                    let (_, _, _, lu) = self.q.verif_state();
                    match self.dev.used_event() {
                        Ok(v) if v == lu => {}
                        other => c.fail(format!("[C05] used_event {:?} not re-armed to {} after a consumed completion", other, lu)),
                    }
                }
                self.held.remove(&token);
                format!("ok len={}", len)
            }
        };
        self.sync_dev_to_store();
        c.step(op, format!("{} | {} | {}", res, evs, self.priv_str()));
        self.drain_store_oracle(c);
    }

    fn dev_last_len_for_next(&self) -> Option<u32> {
        // length the device recorded in the used element the driver will read next
        let (_, _, _, lu) = self.q.verif_state();
        let slot = (lu % N as u16) as u64;
        hal::dev_read(self.dev.used + 4 + 8 * slot + 4, 4).ok().map(|b| u32::from_le_bytes(b.try_into().unwrap()))
    }

    /// C03 accounting oracle: free descriptors = size − descriptors held by outstanding chains
    pub fn check_counts(&self, c: &mut Case) {
        let held_descs: usize = self.held.values().map(|h| if self.indirect && h.ins.len() + h.outs.len() > 1 { 1 } else { h.ins.len() + h.outs.len() }).sum();
        let (nu, _, ai, lu) = self.q.verif_state();
        if nu as usize != held_descs {
            c.fail(format!("[C03] driver counts {} descriptors in use, outstanding chains hold {}", nu, held_descs));
        }
        let want_free = if self.indirect { if held_descs == N { 0 } else { N } } else { N - held_descs };
        if self.q.available_desc() != want_free {
            c.fail(format!("[C03] available_desc {} but queue size {} minus held {} ", self.q.available_desc(), N, held_descs));
        }
        if ai != (self.added % 65536) as u16 || lu != (self.popped % 65536) as u16 {
            c.fail(format!("[C03] indices ({},{}) do not equal the number of submissions/consumptions ({},{}) mod 2^16", ai, lu, self.added, self.popped));
        }
        let live = hal::with(|h| h.live_shares());
        let want_live: usize = self.held.values().map(|h| h.ins.len() + h.outs.len() + (self.indirect && h.ins.len() + h.outs.len() > 1) as usize).sum();
        if live != want_live {
            c.fail(format!("[C04] {} ranges shared with the device, outstanding chains account for {}", live, want_live));
        }
    }

    /// C05 oracle: evaluate the specification's predicate against `should_notify`
    pub fn check_notify(&mut self, c: &mut Case) {
        let (_, _, ai, _) = self.q.verif_state();
        let got = self.q.should_notify();
        if self.event_idx {
            let ev = hal::dev_read(self.dev.used + 4 + 8 * N as u64, 2).map(|b| u16::from_le_bytes([b[0], b[1]])).unwrap_or(0);
            let new = ai;
            let old = self.old_idx;
            let batch = new.wrapping_sub(old);
            if batch >= 1 && batch as usize <= N.max(1) {
                let need = new.wrapping_sub(ev).wrapping_sub(1) < batch;
                if need && !got {
                    c.fail(format!("[C05] lost wake-up: device asked for event index {}, entries {}..{} were made available, should_notify() = false", ev, old, new));
                }
            }
        } else {
            let fl = hal::dev_read(self.dev.used, 2).map(|b| u16::from_le_bytes([b[0], b[1]])).unwrap_or(0);
            if (fl & 1 == 0) != got {
                c.fail(format!("[C05] used.flags = {} but should_notify() = {}", fl, got));
            }
        }
        self.old_idx = ai;
    }
}

// ---------------------------------------------------------------------------------------------
// cases
// ---------------------------------------------------------------------------------------------

#[derive(Clone, Copy, Debug)]
pub struct QCfg {
    pub n: usize,
    pub indirect: bool,
    pub event_idx: bool,
    pub ap: bool,
    pub steps: usize,
    pub hostile: bool,
    pub soak: bool,
}

/// like `gen_lens`, but (1 in 25, direct path only: `add_indirect` hands empty buffers to the platform)
/// one buffer is empty: the direct path must refuse it by a clean panic or an error WITHOUT side
/// effects, never by an error that leaves descriptors taken or buffers shared
fn gen_lens_maybe_empty(rng: &mut Rng, k: usize, direct: bool) -> (Vec<usize>, Vec<usize>) {
    let (mut i, mut o) = gen_lens(rng, k);
    if direct && k > 0 && rng.chance(1, 25) {
        let j = rng.below(k as u64) as usize;
        if j < i.len() {
            i[j] = 0;
        } else {
            o[j - i.len()] = 0;
        }
    }
    (i, o)
}

fn gen_lens(rng: &mut Rng, k: usize) -> (Vec<usize>, Vec<usize>) {
    let len = |r: &mut Rng| match r.below(10) {
        0 => 1,
        1 => 4096,
        2 => r.range(1, 2000) as usize,
        _ => r.range(1, 64) as usize,
    };
    let nin = rng.below(k as u64 + 1) as usize;
    ((0..nin).map(|_| len(rng)).collect(), (0..k - nin).map(|_| len(rng)).collect())
}

pub fn structured<const N: usize>(cfg: QCfg, id: String, mut rng: Rng) -> Case {
    let mut c = Case::new(id);
    c.tag(format!("n={}", N));
    c.tag(format!("mode={}{}{}", if cfg.indirect { "I" } else { "D" }, if cfg.event_idx { "E" } else { "-" }, if cfg.ap { "A" } else { "-" }));
    let mut l = match Live::<N>::new(cfg.indirect, cfg.event_idx, cfg.ap) {
        Ok(l) => l,
        Err(e) => {
            c.fail(format!("cannot create queue: {}", e));
            return c;
        }
    };
    l.hostile = cfg.hostile;
    c.step(format!("queue new n={} ind={} ev={} ap={}", N, cfg.indirect as u8, cfg.event_idx as u8, cfg.ap as u8), format!("ok | - | {}", l.priv_str()));
    if cfg.soak {
        // push the 16-bit indices near a boundary first
        let targets = [65530u64, 32760, 65536 + 65530, 3 * 65536 - 4];
        let k = *rng.pick(&targets);
        soak(&mut l, &mut c, k as usize);
        c.tag("soak");
    }
    // one case in 8 may contain a submission with an empty buffer (which ends the case by a panic)
    let allow_empty = rng.chance(1, 8);
    for _ in 0..cfg.steps {
        if l.stop || c.steps.last().map(|(_, o)| o.starts_with("panic")).unwrap_or(false) {
            break;
        }
        let free = l.q.available_desc();
        let r = rng.below(100);
        if r < 38 {
            // submission: chain length biased to 1,2,3, "exactly fills", occasionally over capacity or empty
            let k = match rng.below(12) {
                0 => free,
                1 => free + 1,
                2 => 0,
                3 | 4 => 2,
                5 => 3,
                6 => rng.range(1, (N as u64).max(1)) as usize,
                _ => 1,
            };
            let k = k.min(N + 1);
            // very large queues: chains of thousands of buffers make the per-store re-validation quadratic;
            // long chains are exercised on the sizes up to 1024
            let k = if N >= 4096 && k > 64 { if k > free { free + 1 } else { 1 + k % 64 } } else { k };
            let (i, o) = gen_lens_maybe_empty(&mut rng, k, allow_empty);
            l.add(&mut c, &i, &o, &mut rng);
            if l.stop || c.steps.last().map(|(_, o)| o.starts_with("panic")).unwrap_or(false) {
                break;
            }
            if rng.chance(1, 2) {
                l.check_notify(&mut c);
            }
        } else if r < 50 {
            l.dev_fetch(&mut c);
        } else if r < 72 {
            l.dev_fetch(&mut c);
            let burst = 1 + rng.below(3) as usize;
            for _ in 0..burst {
                let pick = rng.next() as usize;
                let lc = rng.next() as u32;
                l.dev_complete(&mut c, pick, lc, &mut rng);
            }
        } else if r < 92 {
            // poll: mostly the right token, sometimes a wrong one, sometimes when nothing is ready
            let held: Vec<u16> = l.held.keys().cloned().collect();
            if !held.is_empty() {
                let tok = match (l.q.peek_used(), rng.below(5)) {
                    (Some(t), 0..=2) if l.held.contains_key(&t) => t,
                    _ => *rng.pick(&held),
                };
                l.pop(&mut c, tok);
            }
        } else if r < 95 {
            let en = rng.chance(1, 2);
            l.q.set_dev_notify(en);
            let (evs, _) = l.take_evs();
            c.step(format!("queue notify en={}", en as u8), format!("ok | {} | {}", evs, l.priv_str()));
            // C05: without event-idx the device reads exactly the requested setting
            if !cfg.event_idx {
                match l.dev.avail_flags() {
                    Ok(f) if (f == 0) == en && f <= 1 => {}
                    other => c.fail(format!("[C05] set_dev_notify({}) but the device reads flags {:?}", en, other)),
                }
            }
            l.drain_store_oracle(&mut c);
        } else if r < 98 {
            if cfg.event_idx {
                let v = match rng.below(4) {
                    0 => l.q.verif_state().2,
                    1 => l.q.verif_state().2.wrapping_sub(1),
                    2 => l.q.verif_state().2.wrapping_add(rng.below(4) as u16),
                    _ => rng.u16_biased(),
                };
                let _ = l.dev.set_avail_event(v);
                c.step(format!("queue availevent v={}", v), format!("ok | - | {}", l.priv_str()));
            } else {
                let v = rng.below(4) as u16;
                let _ = l.dev.set_used_flags(v);
                c.step(format!("queue usedflags v={}", v), format!("ok | - | {}", l.priv_str()));
            }
            l.check_notify(&mut c);
        } else if l.held.is_empty() {
            let k = rng.range(1, 300) as usize;
            soak(&mut l, &mut c, k);
        }
        l.check_counts(&mut c);
    }
    // indirect queues, one case in 12: a multi-buffer submission whose table allocation fails
    if cfg.indirect && N >= 2 && !l.stop && !c.steps.last().map(|(_, o)| o.starts_with("panic")).unwrap_or(false) && rng.chance(1, 12) && l.q.available_desc() >= 1 {
        let k = 2 + rng.below(4) as usize;
        if k <= N {
            l.add_oom(&mut c, k);
        }
    }
    // one case in 25 tries a submission of 2^16 or more buffers
    if !l.stop && !c.steps.last().map(|(_, o)| o.starts_with("panic")).unwrap_or(false) && rng.chance(1, 25) {
        let k = *rng.pick(&[65536usize, 65537, 65539, 131073]);
        l.add_many(&mut c, k);
    }
    // one case in 40 ends with a submission whose buffer is longer than a descriptor can describe
    let already_dead = l.stop || c.steps.last().map(|(_, o)| o.starts_with("panic") || o == "accepted").unwrap_or(false);
    if !already_dead && N >= 2 && rng.chance(1, 40) && l.q.available_desc() >= 2 {
        l.add_huge(&mut c);
    }
    // drain: everything outstanding is completed and consumed; the ledger must balance
    // (not after a panicking call: the queue was abandoned part-way and the case ends there)
    let dead = l.stop || c.steps.last().map(|(_, o)| o.starts_with("panic") || o == "accepted" || o == "refused").unwrap_or(false);
    if !dead {
        l.dev_fetch(&mut c);
        while !l.dev.inflight.is_empty() {
            let lc = rng.next() as u32;
            l.dev_complete(&mut c, 0, lc, &mut rng);
        }
        let mut guard = 0;
        while let Some(t) = l.q.peek_used() {
            if !l.held.contains_key(&t) || guard > 2 * N + 4 {
                break;
            }
            l.pop(&mut c, t);
            guard += 1;
        }
        l.check_counts(&mut c);
        if !l.held.is_empty() && !c.steps.last().map(|(_, o)| o.starts_with("panic")).unwrap_or(false) {
            c.fail(format!("[C03] {} chains could not be drained", l.held.len()));
        }
    }
    c.nontrivial = l.popped > 0;
    c.tag(format!("wraps={}", l.added / 65536));
    STORE.with(|s| {
        if let Some(ctx) = s.borrow().as_ref() {
            c.tag(format!("stores_checked~{}", ctx.stores_checked.next_power_of_two()));
        }
    });
    STORE.with(|s| *s.borrow_mut() = None);
    drop(l);
    c
}

/// Hostile device (C07): arbitrary used-ring ids / lengths / index jumps, repeated and never-issued
/// ids, scribbling over the descriptor table and the available ring; the caller (this harness)
/// keeps to the contract of the `unsafe fn`s: it only polls tokens it holds, with their buffers.
pub fn hostile<const N: usize>(cfg: QCfg, id: String, mut rng: Rng) -> Case {
    let mut c = Case::new(id);
    c.tag(format!("n={}", N));
    c.tag("hostile");
    let mut l = match Live::<N>::new(cfg.indirect, cfg.event_idx, cfg.ap) {
        Ok(l) => l,
        Err(e) => {
            c.fail(format!("cannot create queue: {}", e));
            return c;
        }
    };
    l.hostile = true;
    c.step(format!("queue new n={} ind={} ev={} ap={}", N, cfg.indirect as u8, cfg.event_idx as u8, cfg.ap as u8), format!("ok | - | {}", l.priv_str()));
    let mut used_idx: u16 = 0;
    for _ in 0..cfg.steps {
        if c.steps.last().map(|(_, o)| o.starts_with("panic")).unwrap_or(false) {
            break;
        }
        let r = rng.below(100);
        if r < 35 {
            let free = l.q.available_desc();
            let k = match rng.below(6) {
                0 => free,
                1 => 2,
                2 => 3,
                _ => 1,
            }
            .min(N + 1);
            let k = if N >= 4096 && k > 64 { 1 + k % 64 } else { k };
            let (i, o) = gen_lens(&mut rng, k);
            l.add(&mut c, &i, &o, &mut rng);
        } else if r < 60 {
            // raw used element: ids the device never fetched, out of range, repeated, huge
            let held: Vec<u16> = l.held.keys().cloned().collect();
            let id: u32 = match rng.below(6) {
                0 => rng.next() as u32,
                1 => N as u32 + rng.below(4) as u32,
                2 => 0x1_0000 + rng.below(N as u64) as u32, // aliases a valid token after `as u16`
                3 if !held.is_empty() => *rng.pick(&held) as u32,
                4 if !held.is_empty() => *rng.pick(&held) as u32,
                _ => rng.below(N as u64) as u32,
            };
            let len = rng.u32_biased();
            let slot = used_idx % N as u16;
            let mut b = [0u8; 8];
            b[0..4].copy_from_slice(&id.to_le_bytes());
            b[4..8].copy_from_slice(&len.to_le_bytes());
            let _ = hal::dev_write(l.dev.used + 4 + 8 * slot as u64, &b);
            c.step(format!("queue usedelem slot={} id={} len={}", slot, id, len), format!("ok | - | {}", l.priv_str()));
            used_idx = used_idx.wrapping_add(1);
            let _ = hal::dev_write(l.dev.used + 2, &used_idx.to_le_bytes());
            c.step(format!("queue usedidx v={}", used_idx), format!("ok | - | {}", l.priv_str()));
        } else if r < 66 {
            // index jump
            used_idx = match rng.below(3) {
                0 => used_idx.wrapping_add(rng.below(N as u64 + 2) as u16),
                1 => used_idx.wrapping_sub(1),
                _ => rng.u16_biased(),
            };
            let _ = hal::dev_write(l.dev.used + 2, &used_idx.to_le_bytes());
            c.step(format!("queue usedidx v={}", used_idx), format!("ok | - | {}", l.priv_str()));
        } else if r < 80 {
            // scribble over driver-owned areas
            let n = N as u64;
            match rng.below(3) {
                0 => {
                    let i = rng.below(n);
                    let junk = rng.bytes(16);
                    let _ = hal::dev_write(l.dev.desc + 16 * i, &junk);
                }
                1 => {
                    let s = rng.below(n);
                    let _ = hal::dev_write(l.dev.avail + 4 + 2 * s, &(rng.next() as u16).to_le_bytes());
                }
                _ => {
                    let _ = hal::dev_write(l.dev.avail + 2, &(rng.next() as u16).to_le_bytes());
                }
            }
            l.sync_dev_to_store();
            c.step("queue scribble", format!("ok | - | {}", l.priv_str()));
        } else {
            // the caller polls: the token at the head of the used ring if it holds it, else one it holds
            let held: Vec<u16> = l.held.keys().cloned().collect();
            if !held.is_empty() {
                let tok = match l.q.peek_used() {
                    Some(t) if l.held.contains_key(&t) && rng.chance(3, 4) => t,
                    _ => *rng.pick(&held),
                };
                l.pop(&mut c, tok);
            }
        }
        // the driver's private accounting must stay exact whatever the device does
        let held_descs: usize = l.held.values().map(|h| if l.indirect && h.ins.len() + h.outs.len() > 1 { 1 } else { h.ins.len() + h.outs.len() }).sum();
        let (nu, _, _, _) = l.q.verif_state();
        if nu as usize != held_descs {
            c.fail(format!("[C07] driver state corrupted by the device: num_used {} but the caller holds chains of {} descriptors", nu, held_descs));
        }
        let live = hal::with(|h| h.live_shares());
        let want_live: usize = l.held.values().map(|h| h.ins.len() + h.outs.len() + (l.indirect && h.ins.len() + h.outs.len() > 1) as usize).sum();
        if live != want_live {
            c.fail(format!("[C07] {} ranges shared with the device, the caller's outstanding chains account for {}", live, want_live));
        }
        // the driver's own indices count its own submissions / consumptions: nothing the device
        // writes (in particular into the driver-owned avail.idx) may influence them
        let (_, _, ai, lu) = l.q.verif_state();
        if ai != (l.added % 65536) as u16 || lu != (l.popped % 65536) as u16 {
            c.fail(format!("[C07] driver indices (avail {}, last_used {}) depend on what the device wrote into driver-owned memory: {} submissions, {} consumptions were made", ai, lu, l.added, l.popped));
        }
        for v in hal::with(|h| std::mem::take(&mut h.violations)) {
            c.fail(format!("[C07] ledger: {}", v));
        }
    }
    // retag: in this stream every ledger / panic failure is a C07 failure
    for f in c.oracle_failures.iter_mut() {
        if f.starts_with("[C04] ledger") || f.starts_with("[C03] pop_used") {
            *f = format!("[C07] {}", f);
        }
    }
    c.nontrivial = l.popped > 0 || l.added > 0;
    STORE.with(|s| *s.borrow_mut() = None);
    c
}

pub fn hostile_dyn(cfg: QCfg, id: String, rng: Rng) -> Case {
    by_size!(cfg.n, hostile, cfg, id, rng)
}

pub fn run_hostile(ctx: &Ctx, nq: usize, nt: usize) -> Vec<Case> {
    install_hooks();
    let n = ctx.tier.pick(nq, nt);
    let cases = crate::runner::par_cases(ctx, "C07", "hostile", n, |i, id| {
        let mut rng = ctx.case_rng("C07-hostile", i);
        let mut cfg = cfg_for(ctx, i, &mut rng, true);
        cfg.soak = false;
        if cfg.n > 256 {
            cfg.n = 256;
        }
        hostile_dyn(cfg, id, rng)
    });
    filter_for("C07", cases)
}

/// `k` add/complete/pop cycles with one 8-byte writable buffer, on the real queue and the
/// reference device; the model replays it with `queue cycle k=…`.
pub fn soak<const N: usize>(l: &mut Live<N>, c: &mut Case, k: usize) {
    // suspend per-store diffing for speed; the per-op oracles keep running at the end
    let saved = STORE.with(|s| s.borrow_mut().take());
    let mut buf = vec![0u8; 8];
    hal::name_buffer(buf.as_ptr(), 8, "b0soak");
    let mut ok = true;
    for _ in 0..k {
        let r = guarded(|| {
            // SAFETY: buffer outlives the pop below.
            let t = unsafe { l.q.add(&[], &mut [buf.as_mut_slice()]) }?;
            Ok::<u16, Error>(t)
        });
        let t = match r {
            Ok(Ok(t)) => t,
            _ => {
                ok = false;
                break;
            }
        };
        if l.dev.fetch_one().is_err() || l.dev.complete(t, 8).is_err() {
            ok = false;
            break;
        }
        let r = guarded(|| unsafe { l.q.pop_used(t, &[], &mut [buf.as_mut_slice()]) });
        if !matches!(r, Ok(Ok(8))) {
            ok = false;
            break;
        }
        l.added += 1;
        l.popped += 1;
    }
    hal::take_events();
    // the soak buffer is freed when this function returns: its name must not stick to whatever the
    // allocator puts at that address next (an indirect table, for instance)
    let bp = buf.as_ptr() as usize;
    hal::with(|h| h.bufnames.retain(|(p, _, _)| *p != bp));
    // keep the ledger small: forget dead shares' bounce memory
    hal::with(|h| {
        for s in h.shares.iter_mut() {
            if !s.live {
                s.bounce = Vec::new();
            }
        }
    });
    STORE.with(|s| *s.borrow_mut() = saved);
    l.sync_dev_to_store();
    STORE.with(|s| {
        if let Some(ctx) = s.borrow_mut().as_mut() {
            ctx.last_idx = l.q.verif_state().2;
        }
    });
    l.old_idx = l.q.verif_state().2;
    for v in hal::with(|h| std::mem::take(&mut h.violations)) {
        c.fail(format!("[C04] ledger: {}", v));
    }
    c.step(format!("queue cycle k={}", k), if ok { format!("ok | - | {}", l.priv_str()) } else { "cycle-failed".to_string() });
    if !ok {
        c.fail(format!("[C03] add/complete/pop cycle failed after {} submissions (index wrap?)", l.added));
    }
}

macro_rules! by_size {
    ($n:expr, $f:ident, $($a:expr),*) => {
        match $n {
            1 => $f::<1>($($a),*), 2 => $f::<2>($($a),*), 4 => $f::<4>($($a),*), 8 => $f::<8>($($a),*),
            16 => $f::<16>($($a),*), 32 => $f::<32>($($a),*), 64 => $f::<64>($($a),*), 128 => $f::<128>($($a),*),
            256 => $f::<256>($($a),*), 512 => $f::<512>($($a),*), 1024 => $f::<1024>($($a),*), 2048 => $f::<2048>($($a),*),
            4096 => $f::<4096>($($a),*), 8192 => $f::<8192>($($a),*), 16384 => $f::<16384>($($a),*), 32768 => $f::<32768>($($a),*),
            _ => unreachable!(),
        }
    };
}
pub(crate) use by_size;

pub fn structured_dyn(cfg: QCfg, id: String, rng: Rng) -> Case {
    by_size!(cfg.n, structured, cfg, id, rng)
}

/// keeps only the oracle failures that belong to `prop` (tagged `[Cxx]`) or are untagged
pub fn filter_for(prop: &str, mut cases: Vec<Case>) -> Vec<Case> {
    let tag = format!("[{}]", prop);
    for c in cases.iter_mut() {
        c.oracle_failures.retain(|f| f.starts_with(&tag) || !f.starts_with("[C"));
    }
    cases
}

pub fn cfg_for(ctx: &Ctx, i: usize, rng: &mut Rng, hostile: bool) -> QCfg {
    let small = [1usize, 2, 4, 8, 16, 32];
    let big_q = [64usize, 128, 256, 1024];
    let big_t = [64usize, 128, 256, 1024, 4096, 32768];
    let n = if i % 16 < 12 { small[i % 6] } else if ctx.tier == crate::runner::Tier::Quick { *rng.pick(&big_q) } else { *rng.pick(&big_t) };
    QCfg {
        n,
        indirect: (i / 2) % 2 == 1,
        event_idx: i % 2 == 1,
        ap: (i / 4) % 2 == 1,
        steps: if n >= 4096 { 40 } else { 30 + rng.below(170) as usize },
        hostile,
        soak: i % 20 == 9 && n < 4096,
    }
}

pub const RULE: &str = "structured stream: random walk over {add (chain length biased to 1,2,3, exactly-fills, over-capacity, empty), device fetch, device completions in random order and bursts with random written lengths, pop with right/wrong/not-ready tokens, set_dev_notify, device flag / event-index updates, index soak cycles}; sizes 1..32 mostly, larger ones sampled (>=4096 only in thorough); all 8 combinations of indirect/event-idx/access-platform; 1 case in 20 starts with an index soak across a 16-bit boundary; non-trivial = at least one chain submitted, completed by the device and consumed; distinct = distinct transcript";

pub fn run_structured(ctx: &Ctx, prop: &str, nq: usize, nt: usize) -> Vec<Case> {
    install_hooks();
    let n = ctx.tier.pick(nq, nt);
    let cases = crate::runner::par_cases(ctx, prop, "structured", n, |i, id| {
        let mut rng = ctx.case_rng(&format!("{}-structured", prop), i);
        let cfg = cfg_for(ctx, i, &mut rng, false);
        structured_dyn(cfg, id, rng)
    });
    filter_for(prop, cases)
}

/// ledger failures of the driver-level streams that are about C04's subject matter (share / unshare
/// pairing, ranges, directions, device addresses) — DMA allocation bookkeeping is C06/C09's
fn c04_relevant(f: &str) -> bool {
    let f = f.to_lowercase();
    f.starts_with("ledger:") && (f.contains("share") || f.contains("direction")) && !f.contains("dma_")
}

pub fn run(ctx: &Ctx, prop: &str) -> (Vec<Case>, String, bool, BTreeMap<String, String>) {
    let mut cases = run_structured(ctx, prop, 1500, 20000);
    let mut rule = RULE.to_string();
    if matches!(prop, "C01" | "C02" | "C03" | "C04") {
        // blocking requests whose wait is ended by an earlier chain's completion (WrongToken): the
        // chain they published stays with the device
        cases.extend(filter_for(prop, crate::c05_notify::foreign_first_cases(ctx, prop)));
        if matches!(prop, "C03" | "C04") {
            cases.extend(filter_for(prop, crate::c05_notify::blocking_cases(ctx, prop)));
        }
        rule.push_str("; blocking requests (add_notify_wait_pop) on a queue with an earlier chain outstanding whose completion the device reports first: WrongToken, own chain still published, shared and counted, history continues to full return");
    }
    if prop == "C03" {
        // the queue's own client in the crate: OwningQueue consumes a completion and must hand the chain's
        // buffer back whatever its handler returned (Some / None / Err) — "afterwards the chain's descriptors are
        // reusable", "free descriptors = size - outstanding" as the device sees them through the wrapper
        let mut ow = crate::runner::par_cases(ctx, "C19", "owning", ctx.tier.pick(300, 3000), |i, id| crate::c19_events::owning_dispatch(ctx, "owning", i, id));
        for c in ow.iter_mut() {
            c.oracle_failures.retain(|f| f.contains("expected exactly that token again") || f.contains("panicked"));
            for f in c.oracle_failures.iter_mut() {
                *f = format!("[C03] owning queue: a consumed completion did not put its buffer back: {}", f);
            }
            c.id = format!("C03-via-{}", c.id);
            c.tag("owning-queue");
        }
        cases.extend(ow);
        rule.push_str("; OwningQueue (the crate's own queue client) with handlers returning Some/None/Err and oversized completions: after every poll the device sees exactly the consumed buffer again");
    }
    if prop == "C04" {
        // driver level: every driver's traffic runs over the same recording platform; its share/unshare
        // ledger (exactly once, same range, same direction, returned address) is C04 for the buffers
        // the drivers own (receive buffers, request headers, event buffers)
        let mut extra: Vec<Case> = vec![];
        extra.extend(crate::c14_blk::run(ctx).0);
        extra.extend(crate::c15_console::run(ctx).0);
        extra.extend(crate::c16_net::run(ctx).0);
        if ctx.tier == crate::runner::Tier::Thorough {
            extra.extend(crate::c17_vsock::run(ctx).0);
        } else {
            extra.extend(crate::c18_vsockconn::run(ctx).0);
        }
        extra.extend(crate::c19_events::run_drivers(ctx));
        for c in extra.iter_mut() {
            // (…and, on the bouncing platform, what the device wrote reaches the driver's buffer at unshare: an
            // event read out of its buffer before the completion is consumed is the buffer's previous content)
            c.oracle_failures.retain(|f| c04_relevant(f) || f.contains("but the device wrote"));
            for f in c.oracle_failures.iter_mut() {
                *f = format!("[C04] {}", f);
            }
            c.id = format!("C04-via-{}", c.id);
            c.tag("driver-level");
        }
        cases.extend(extra);
        // non-blocking sound transfers: the driver owns the frame copy and the status word while their chain
        // is posted; releasing them before the completion is consumed leaves a share that is never
        // unshared (and memory the device still writes)
        let mut snd = crate::c20_cmd::sound_cases(ctx, "C04", ctx.tier.pick(200, 3000));
        for c in snd.iter_mut() {
            c.oracle_failures.retain(|f| f.contains("still shared with the live device") || f.contains("buffers still shared") || c04_relevant(f));
            for f in c.oracle_failures.iter_mut() {
                *f = format!("[C04] {}", f.trim_start_matches("[C09] "));
            }
            c.id = format!("C04-via-{}", c.id);
            c.tag("driver-level");
        }
        cases.extend(snd);
        // transport level: every driver constructed over the real MMIO transport (legacy and modern
        // register interface); the queue addresses the device model latched must be DMA addresses
        let mut mm = crate::c08_mmio::run_mmio(ctx).0;
        for c in mm.iter_mut() {
            c.oracle_failures.retain(|f| f.starts_with("[C04]"));
            c.id = format!("C04-via-{}", c.id);
            c.tag("mmio-level");
        }
        cases.extend(mm);
        rule.push_str("; driver level: the block, console, network, socket and event-queue streams of C14/C15/C16/C17/C19 run over the recording platform and their share/unshare ledger failures (unshare with another range / direction / address, twice, never shared) are reported here; transport level: every driver is constructed over the real MMIO transport against a register-level device model and each queue address it latched must lie in live DMA memory (consecutive DMA regions differ in both address halves)");
    }
    if prop == "C01" || prop == "C02" {
        // driver level: "indirect tables ... used only when enabled for the queue" for every driver's
        // queues — C08's construction + feature-gated operations, keeping its indirect-descriptor oracles
        // (C02: a device that did not negotiate indirect descriptors parses such an entry as a plain
        // descriptor, so the entry below the index does not describe the request)
        let mut s8 = crate::c08_init::run(ctx).0;
        s8.retain(|c| !c.id.contains("structured"));
        for c in s8.iter_mut() {
            c.oracle_failures.retain(|f| f.to_lowercase().contains("indirect"));
            for f in c.oracle_failures.iter_mut() {
                *f = format!("[{}] {}", prop, f);
            }
            c.id = format!("{}-via-{}", prop, c.id);
            c.tag("driver-level");
        }
        cases.extend(s8);
        rule.push_str("; driver level: every driver constructed and its feature-gated operations run (C08's stream): an indirect table only on queues for which RING_INDIRECT_DESC was negotiated");
    }
    if prop == "C04" {
        // addresses handed to the device inside request bodies (GPU: RESOURCE_ATTACH_BACKING entries for the
        // framebuffer and the cursor) must be DMA addresses as well
        let mut g = crate::c20_cmd::gpu_cases(ctx, "C04", ctx.tier.pick(200, 4000));
        for c in g.iter_mut() {
            c.oracle_failures.retain(|f| f.contains("is not live DMA memory") || f.contains("while it is attached as backing") || f.contains("no longer allocated after"));
            for f in c.oracle_failures.iter_mut() {
                *f = format!("[C04] {}", f);
            }
            c.id = format!("C04-via-{}", c.id);
            c.tag("driver-level");
        }
        cases.extend(g);
    }
    if prop == "C01" || prop == "C02" || prop == "C04" {
        // transport level (2): arbitrary 64-bit queue addresses through the real MMIO transport — every
        // 64-bit address must reach the device as its own low and high word (C10's session stream)
        let mut s10 = crate::c10_mmio::run(ctx).0;
        for c in s10.iter_mut() {
            c.oracle_failures.retain(|f| f.contains("do not recombine"));
            for f in c.oracle_failures.iter_mut() {
                *f = format!("[{}] {}", prop, f);
            }
            c.id = format!("{}-via-{}", prop, c.id);
            c.tag("mmio-level");
        }
        cases.extend(s10);
    }
    if prop == "C02" {
        // PCI: the registers queue_set writes are what the device indexes the rings with (C11's stream)
        let mut pc = crate::c11_pcicap::run(ctx).0;
        pc.retain(|c| c.id.contains("structured"));
        for c in pc.iter_mut() {
            c.oracle_failures.retain(|f| f.starts_with("[C02]"));
            c.id = format!("C02-via-{}", c.id);
            c.tag("pci-level");
        }
        cases.extend(pc);
        let mut mm = crate::c08_mmio::run_mmio(ctx).0;
        for c in mm.iter_mut() {
            c.oracle_failures.retain(|f| f.starts_with("[C02]"));
            c.id = format!("C02-via-{}", c.id);
            c.tag("mmio-level");
        }
        cases.extend(mm);
        rule.push_str("; transport level: every driver constructed over the real MMIO transport (each latched queue address must be the DMA address the driver allocated) and arbitrary 64-bit queue addresses through queue_set (low/high words recombine)");
    }
    (cases, rule, false, BTreeMap::new())
}
