//! SplitMix64: the single source of randomness of a case (replayable from its seed).
#[derive(Clone, Debug)]
pub struct Rng(pub u64);

impl Rng {
    pub fn new(seed: u64) -> Self {
        Rng(seed.wrapping_mul(0x9E37_79B9_7F4A_7C15) ^ 0xD1B5_4A32_D192_ED03)
    }
    pub fn next(&mut self) -> u64 {
        self.0 = self.0.wrapping_add(0x9E37_79B9_7F4A_7C15);
        let mut z = self.0;
        z = (z ^ (z >> 30)).wrapping_mul(0xBF58_476D_1CE4_E5B9);
        z = (z ^ (z >> 27)).wrapping_mul(0x94D0_49BB_1331_11EB);
        z ^ (z >> 31)
    }
    /// uniform in 0..n (n > 0)
    pub fn below(&mut self, n: u64) -> u64 {
        self.next() % n
    }
    pub fn range(&mut self, lo: u64, hi_incl: u64) -> u64 {
        lo + self.below(hi_incl - lo + 1)
    }
    pub fn chance(&mut self, num: u64, den: u64) -> bool {
        self.below(den) < num
    }
    pub fn pick<'a, T>(&mut self, xs: &'a [T]) -> &'a T {
        &xs[self.below(xs.len() as u64) as usize]
    }
    pub fn shuffle<T>(&mut self, xs: &mut [T]) {
        for i in (1..xs.len()).rev() {
            let j = self.below(i as u64 + 1) as usize;
            xs.swap(i, j);
        }
    }
    /// boundary-biased 16-bit value
    pub fn u16_biased(&mut self) -> u16 {
        const B: [u16; 12] = [0, 1, 2, 3, 0x7ffe, 0x7fff, 0x8000, 0x8001, 0xfffc, 0xfffd, 0xfffe, 0xffff];
        if self.chance(1, 2) { *self.pick(&B) } else { self.next() as u16 }
    }
    /// boundary-biased 32-bit value
    pub fn u32_biased(&mut self) -> u32 {
        match self.below(6) {
            0 => 0,
            1 => u32::MAX - self.below(4) as u32,
            2 => { let k = self.below(32); (1u32 << k).wrapping_sub(self.below(3) as u32).wrapping_add(1) }
            3 => self.below(4096) as u32,
            _ => self.next() as u32,
        }
    }
    /// boundary-biased 64-bit value
    pub fn u64_biased(&mut self) -> u64 {
        match self.below(6) {
            0 => 0,
            1 => u64::MAX - self.below(4),
            2 => { let k = self.below(64); (1u64 << k).wrapping_sub(self.below(3)).wrapping_add(1) }
            3 => self.below(1 << 20),
            _ => self.next(),
        }
    }
    pub fn bytes(&mut self, n: usize) -> Vec<u8> {
        (0..n).map(|_| self.next() as u8).collect()
    }
    pub fn fork(&mut self) -> Rng {
        Rng::new(self.next())
    }
}

pub fn fnv64(data: &[u8]) -> u64 {
    let mut h: u64 = 0xcbf29ce484222325;
    for b in data {
        h ^= *b as u64;
        h = h.wrapping_mul(0x100000001b3);
    }
    h
}
