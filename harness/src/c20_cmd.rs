//! C20: command/response drivers (GPU, sound, entropy, clock, 9P) against reference devices written
//! from the VirtIO specification, behind `ModelTransport` + `RefQueue` + `LedgerHal`.
//!
//! Shared here: the thread-local spin-hook dispatcher (the reference device is served from
//! `Transport::notify` and from the busy-wait hook of the blocking helpers), hex helpers and the
//! property's `run`.

use crate::mtrans::TState;
use crate::proto::Case;
use crate::refdev::RefQueue;
use crate::runner::{Ctx, par_cases};
use std::cell::RefCell;
use std::collections::BTreeMap;

pub mod edid_spec;
pub mod gpu;
pub mod small;
pub mod sound;

thread_local! {
    static SPIN: RefCell<Option<Box<dyn FnMut()>>> = const { RefCell::new(None) };
    static SPINS: std::cell::Cell<u64> = const { std::cell::Cell::new(0) };
}

/// a blocking call that spins longer than this is reported as a hang (panic outcome)
pub const SPIN_BUDGET: u64 = 200_000;

fn spin_dispatch() {
    let n = SPINS.with(|c| {
        c.set(c.get() + 1);
        c.get()
    });
    if n > SPIN_BUDGET {
        SPINS.with(|c| c.set(0));
        panic!("spin budget exhausted: blocking call does not return");
    }
    let f = SPIN.with(|s| s.borrow_mut().take());
    if let Some(mut f) = f {
        f();
        SPIN.with(|s| {
            let mut b = s.borrow_mut();
            if b.is_none() {
                *b = Some(f);
            }
        });
    }
}

pub fn install_spin(f: Box<dyn FnMut()>) {
    SPINS.with(|c| c.set(0));
    SPIN.with(|s| *s.borrow_mut() = Some(f));
}
pub fn clear_spin() {
    SPIN.with(|s| *s.borrow_mut() = None);
}
pub fn reset_spin_count() {
    SPINS.with(|c| c.set(0));
}

pub fn hex(b: &[u8]) -> String {
    if b.is_empty() {
        return "-".into();
    }
    let mut s = String::with_capacity(b.len() * 2);
    for x in b {
        s.push_str(&format!("{:02x}", x));
    }
    s
}

pub fn le32(b: &[u8], off: usize) -> u32 {
    u32::from_le_bytes(b[off..off + 4].try_into().unwrap())
}
pub fn le64(b: &[u8], off: usize) -> u64 {
    u64::from_le_bytes(b[off..off + 8].try_into().unwrap())
}
pub fn le16(b: &[u8], off: usize) -> u16 {
    u16::from_le_bytes(b[off..off + 2].try_into().unwrap())
}

/// the reference device's view of queue `idx` as the driver registered it
pub fn refq(st: &TState, idx: usize) -> Option<RefQueue> {
    let q = st.queues.get(idx)?;
    if !q.set {
        return None;
    }
    Some(RefQueue::new(q.size as u16, q.desc, q.driver, q.device, st.driver_features & (1 << 28) != 0))
}

pub const F_INDIRECT: u64 = 1 << 28;
pub const F_EVENT_IDX: u64 = 1 << 29;
pub const F_VERSION_1: u64 = 1 << 32;
pub const F_ACCESS_PLATFORM: u64 = 1 << 33;

/// the GPU stream on behalf of another property's check (C04: backing addresses given to the device in
/// request bodies are DMA addresses; C07/C09: backing is not released while attached)
pub fn gpu_cases(ctx: &Ctx, prop: &str, n: usize) -> Vec<Case> {
    virtio_drivers::verif_hooks::set_spin_hook(Some(spin_dispatch));
    let mut all = par_cases(ctx, prop, "gpu", n, |i, id| gpu::one_case(ctx, i, id, false));
    all.extend(par_cases(ctx, prop, "gpu-malformed", n / 2, |i, id| gpu::one_case(ctx, i, id, true)));
    virtio_drivers::verif_hooks::set_spin_hook(None);
    all
}

/// the sound stream on behalf of another property's check (C07: every call ends; C09: no driver-owned
/// buffer is released while posted)
pub fn sound_cases(ctx: &Ctx, prop: &str, n: usize) -> Vec<Case> {
    virtio_drivers::verif_hooks::set_spin_hook(Some(spin_dispatch));
    let mut all = par_cases(ctx, prop, "snd-f10", 4, |i, id| sound::one_case(ctx, i, id, "snd-f10"));
    all.extend(par_cases(ctx, prop, "snd", n, |i, id| sound::one_case(ctx, i, id, "snd")));
    virtio_drivers::verif_hooks::set_spin_hook(None);
    all
}

pub fn run(ctx: &Ctx) -> (Vec<Case>, String, bool, BTreeMap<String, String>) {
    virtio_drivers::verif_hooks::set_spin_hook(Some(spin_dispatch));
    let mut all = vec![];
    let n_gpu = ctx.tier.pick(600, 40_000);
    all.extend(par_cases(ctx, "C20", "gpu", n_gpu, |i, id| gpu::one_case(ctx, i, id, false)));
    let n_gpu_bad = ctx.tier.pick(300, 15_000);
    all.extend(par_cases(ctx, "C20", "gpu-malformed", n_gpu_bad, |i, id| gpu::one_case(ctx, i, id, true)));
    // the known finding F10 is generated deterministically in both tiers
    all.extend(par_cases(ctx, "C20", "snd-f10", 4, |i, id| sound::one_case(ctx, i, id, "snd-f10")));
    let n_snd = ctx.tier.pick(600, 40_000);
    all.extend(par_cases(ctx, "C20", "snd", n_snd, |i, id| sound::one_case(ctx, i, id, "snd")));
    let n_snd_bad = ctx.tier.pick(300, 15_000);
    all.extend(par_cases(ctx, "C20", "snd-malformed", n_snd_bad, |i, id| sound::one_case(ctx, i, id, "snd-malformed")));
    let n_small = ctx.tier.pick(400, 20_000);
    all.extend(par_cases(ctx, "C20", "rng", n_small, |i, id| small::rng_case(ctx, i, id)));
    all.extend(par_cases(ctx, "C20", "rng-wrap", ctx.tier.pick(2, 6), |i, id| small::rng_wrap_case(ctx, i, id)));
    all.extend(par_cases(ctx, "C20", "rtc", n_small, |i, id| small::rtc_case(ctx, i, id)));
    all.extend(par_cases(ctx, "C20", "p9", n_small, |i, id| small::p9_case(ctx, i, id)));
    virtio_drivers::verif_hooks::set_spin_hook(None);
    // the 9P mount tag while the device renames the share (tags of different lengths) at every point /
    // pair of points of the read (C13's changing-configuration stream, 9P driver, all transports)
    all.extend(par_cases(ctx, "C20", "p9-tag-untorn", 9, |i, id| crate::c13_config::consistent_case(ctx, 4 + (i % 3) * 5 + (i / 3) * 15, id)));
    let rule = "one case = one driver instance on ModelTransport + LedgerHal against a reference device decoding every chain by the specification's structures, served from notify and from the busy-wait hook. gpu: random histories of resolution/get_edid/setup_framebuffer/change_resolution/flush/setup_cursor/move_cursor/drop with forced non-success responses (all defined codes, random u32, bit flips), header-only responses, DMA allocation faults, random and mutated-QEMU EDID blobs; snd: random histories of set_params/prepare/start/stop/release/jack_remap/capability getters/pcm_xfer against a scripted device (idle, in-order, bursts, out-of-order, error status)/pcm_xfer_nb+pcm_xfer_ok with completions in any order, forced control statuses, hostile item counts; snd-f10: the four deterministic F10 histories; rng/rtc/p9: random requests, every status byte, short/lying responses, valid and invalid mount tags; p9-tag-untorn: VirtIO9p::new while the device replaces its configuration (tags of different lengths, generation bumped) at every point / pair of points of the read: mount_tag() must be a tag the device exposed under one generation. non-trivial = at least one operation succeeded with an effect (framebuffer/cursor attached or flushed; parameters accepted or frames delivered; entropy/clock value/9P reply returned)".to_string();
    (all, rule, false, BTreeMap::new())
}
