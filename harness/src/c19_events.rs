//! C19 (driver-level half): queues a driver keeps stocked with its own buffers.
//!
//! Targets (all REAL code, behind `ModelTransport` + `LedgerHal`):
//!  * `virtio_drivers::queue::OwningQueue<_, SIZE, BUFFER_SIZE>` directly, several (SIZE, BUFFER_SIZE),
//!    handlers returning `Some(bytes)` / `None` / `Err`;
//!  * `VirtIOInput::pop_pending_event` (32 event buffers of 8 bytes);
//!  * `VirtIOSound::latest_notification` (OwningQueue of 32 × 8 bytes + notification parser).
//!
//! A reference device completes posted buffers in random order, in bursts, with every written
//! length `0..=BUFFER_SIZE`, under-written and oversized reported lengths, for floods far larger
//! than the queue.  Compared with the Lean model (`Model/EventQueues.lean`): every returned value,
//! the number of buffers the device sees posted, completions not yet polled, notifications.
//!
//! Independent oracles (device-side accounting, from the property text):
//!  E1 each completion is delivered exactly once, in completion (used-ring) order, with exactly
//!     the bytes the device wrote (`len` of them; never more than the buffer holds);
//!  E2 right after a delivery the device sees exactly one new chain: the same token, backed by the
//!     same driver memory, one device-writable segment of BUFFER_SIZE bytes;
//!  E3 buffers held by the device + completions not yet polled == SIZE after construction and after
//!     every poll (so: SIZE posted whenever nothing is pending);
//!  E4 an oversized reported length yields an error but the buffer is still re-posted (E2, E3);
//!  E5 a poll with nothing pending delivers nothing and posts nothing;
//!  E6 HAL ledger violations and chain validation errors of the reference device.

use crate::hal::{self, LedgerHal};
use crate::mtrans::{ModelTransport, TState};
use crate::proto::Case;
use crate::refdev::RefQueue;
use crate::rng::Rng;
use crate::runner::{Ctx, guarded};
use std::cell::{Cell, RefCell};
use std::collections::{BTreeMap, VecDeque};
use std::rc::Rc;
use virtio_drivers::device::input::VirtIOInput;
use virtio_drivers::device::sound::VirtIOSound;
use virtio_drivers::queue::{OwningQueue, VirtQueue};
use virtio_drivers::transport::DeviceType;
use virtio_drivers::Error;

const F_INDIRECT: u64 = 1 << 28;
const F_EVENT_IDX: u64 = 1 << 29;
const F_VERSION_1: u64 = 1 << 32;
const F_ACCESS_PLATFORM: u64 = 1 << 33;

pub fn ev_byte(seed: u64, k: u64, j: u64) -> u8 {
    ((seed * 7 + k * 31 + j * 13 + k / 256) % 256) as u8
}
pub fn ev_bytes(seed: u64, k: u64, n: usize) -> Vec<u8> {
    (0..n as u64).map(|j| ev_byte(seed, k, j)).collect()
}
fn bytes_str(b: &[u8]) -> String {
    if b.is_empty() { "-".into() } else { b.iter().map(|x| format!("{:02x}", x)).collect() }
}

/// what the driver handed to its caller in one poll
enum Got {
    /// nothing (`Ok(None)` / `None`) — and, for the bare queue, the handler was not called
    Nothing,
    /// bytes seen by the handler / returned as event
    Bytes(Vec<u8>),
    /// sound: a parsed notification
    Notif(u32, u32),
    Err(Error),
    Panic,
}

struct EvDev {
    q: RefQueue,
    event_idx: bool,
    size: usize,
    buf: usize,
    seed: u64,
    evno: u64,
    /// completions not yet polled: (token, bytes written, reported length)
    expect: VecDeque<(u16, Vec<u8>, u32)>,
    /// token -> driver memory backing it at first posting
    orig: BTreeMap<u16, usize>,
    errors: Vec<String>,
    delivered: usize,
    reposts_checked: usize,
}

impl EvDev {
    fn chain_orig(addr: u64) -> Option<usize> {
        hal::with(|h| {
            if addr >= hal::SHARE_BASE {
                let k = ((addr - hal::SHARE_BASE) / hal::SHARE_STRIDE) as usize;
                h.shares.get(k).map(|s| s.orig as usize)
            } else {
                None
            }
        })
    }

    /// fetches newly available chains, validating E2's static part
    fn fetch(&mut self) -> Vec<u16> {
        let mut heads = vec![];
        match self.q.fetch_all() {
            Err(e) => self.errors.push(format!("event queue: {}", e)),
            Ok(cs) => {
                for c in cs {
                    if c.segs.len() != 1 || !c.segs[0].write || c.segs[0].len as usize != self.buf {
                        self.errors.push(format!("chain {} is not one device-writable segment of {} bytes: {:?}", c.head, self.buf, c.segs));
                    }
                    let o = c.segs.first().and_then(|s| Self::chain_orig(s.addr));
                    match (self.orig.get(&c.head), o) {
                        (None, Some(p)) => {
                            if self.orig.values().any(|x| *x == p) {
                                self.errors.push(format!("token {} posted with memory already backing another token", c.head));
                            }
                            self.orig.insert(c.head, p);
                        }
                        (Some(p0), Some(p)) if *p0 != p => {
                            self.errors.push(format!("token {} re-posted with a different buffer than the one it was first posted with", c.head));
                        }
                        (_, None) => self.errors.push(format!("chain {}: buffer address not a shared range", c.head)),
                        _ => {}
                    }
                    heads.push(c.head);
                }
            }
        }
        if self.event_idx {
            let _ = self.q.set_avail_event(self.q.fetch_idx);
        }
        heads
    }

    fn posted(&mut self) -> usize {
        match self.q.avail_idx() {
            Ok(a) => a.wrapping_sub(self.q.used_idx) as usize,
            Err(e) => {
                self.errors.push(format!("device cannot read the available ring: {}", e));
                0
            }
        }
    }

    /// completes the `i`-th chain held, writing `data`, reporting `len`
    fn complete(&mut self, i: usize, data: &[u8], len: u32) -> Option<u16> {
        self.fetch();
        let c = self.q.inflight.get(i).cloned()?;
        match self.q.write_out(&c, data) {
            Ok(w) if w == data.len() => {}
            other => self.errors.push(format!("device could not write {} bytes into chain {}: {:?}", data.len(), c.head, other)),
        }
        if let Err(e) = self.q.complete(c.head, len) {
            self.errors.push(format!("used ring: {}", e));
        }
        self.expect.push_back((c.head, data.to_vec(), len));
        self.evno += 1;
        Some(c.head)
    }
}

struct Walk<'a> {
    case: Case,
    dev: EvDev,
    notifies: Rc<Cell<usize>>,
    rng: &'a mut Rng,
    dom: &'static str,
    dead: bool,
    oversize_seen: usize,
    max_burst: usize,
}

impl<'a> Walk<'a> {
    fn tail(&mut self, nt0: usize) -> String {
        format!(" | posted={} used={} nt={}", self.dev.posted(), self.dev.expect.len(), self.notifies.get() - nt0)
    }

    fn stock_oracle(&mut self, at: &str) {
        let p = self.dev.posted();
        let u = self.dev.expect.len();
        if p + u != self.dev.size {
            self.case.fail(format!("{}: device holds {} buffers and {} completions are unpolled, but the queue has {} buffers (not fully stocked)", at, p, u, self.dev.size));
        }
    }

    fn dev_op(&mut self) {
        let held = {
            self.dev.fetch();
            self.dev.q.inflight.len()
        };
        let buf = self.dev.buf;
        let i = if held == 0 { 0 } else { self.rng.below(held as u64) as usize };
        // written bytes / reported length
        let (n, len, code): (usize, u32, Option<u32>) = if self.dom == "sound" {
            let code = match self.rng.below(8) {
                0 => 0x1000,
                1 => 0x1001,
                2 | 3 => 0x1100,
                4 => 0x1101,
                5 => 0x1102,
                6 => 0,
                _ => self.rng.u32_biased(),
            };
            match self.rng.below(10) {
                0 => (buf, buf as u32 + 1 + self.rng.below(100) as u32, Some(code)),
                1 => { let n = self.rng.below(buf as u64) as usize; (n, n as u32, Some(code)) }
                _ => (buf, buf as u32, Some(code)),
            }
        } else {
            match self.rng.below(12) {
                0 => (buf, buf as u32 + 1 + self.rng.below(4) as u32, None),
                1 => (buf, *self.rng.pick(&[1000u32, 65536, u32::MAX, 0x8000_0000]), None),
                2 => {
                    // under-written: reports more than it wrote (still within the buffer)
                    let l = self.rng.range(0, buf as u64) as usize;
                    let n = self.rng.range(0, l as u64) as usize;
                    (n, l as u32, None)
                }
                3 => (0, 0, None),
                4 | 5 => (buf, buf as u32, None),
                _ => { let n = self.rng.range(0, buf as u64) as usize; (n, n as u32, None) }
            }
        };
        let data: Vec<u8> = match code {
            Some(c) => {
                let mut d = c.to_le_bytes().to_vec();
                d.extend(((self.dev.evno * 77 + self.dev.seed) as u32).to_le_bytes());
                d.truncate(n);
                d
            }
            None => ev_bytes(self.dev.seed, self.dev.evno, n),
        };
        if len as usize > buf {
            self.oversize_seen += 1;
        }
        let nt0 = self.notifies.get();
        let op = match code {
            Some(c) => format!("evq dev i={} n={} len={} code={}", i, n, len, c),
            None => format!("evq dev i={} n={} len={}", i, n, len),
        };
        match self.dev.complete(i, &data, len) {
            None => self.case.step(op, "nobuf"),
            Some(tok) => {
                let t = self.tail(nt0);
                self.case.step(op, format!("done tok={}{}", tok, t));
            }
        }
    }

    fn poll_op(&mut self, hkind: &'static str, poll: &mut dyn FnMut(&'static str) -> Got) {
        let nt0 = self.notifies.get();
        let posted0 = self.dev.posted();
        let got = poll(hkind);
        let front = self.dev.expect.pop_front();
        let new_heads = self.dev.fetch();
        let buf = self.dev.buf;
        let out = match (&got, &front) {
            (Got::Panic, _) => {
                self.case.fail("poll panicked");
                self.dead = true;
                "panic".to_string()
            }
            (g, None) => {
                // E5
                if !matches!(g, Got::Nothing) {
                    self.case.fail("poll delivered something although no completion was pending");
                }
                if !new_heads.is_empty() || self.dev.posted() != posted0 {
                    self.case.fail("poll posted a buffer although nothing was pending");
                }
                match g {
                    Got::Nothing => "ok none".into(),
                    Got::Bytes(b) => format!("ok {}", bytes_str(b)),
                    Got::Notif(c, d) => format!("ok {:#x}:{}", c, d),
                    Got::Err(e) => format!("err {:?}", e),
                    Got::Panic => unreachable!(),
                }
            }
            (g, Some((tok, data, len))) => {
                self.dev.delivered += 1;
                let oversize = *len as usize > buf;
                let honest = *len as usize == data.len();
                // E7: the device of this harness never suppresses notifications (without EVENT_IDX its
                // flags word stays 0, with it avail_event names the next entry): the re-post must be
                // announced
                if !new_heads.is_empty() && self.notifies.get() == nt0 {
                    self.case.fail(format!("token {} was re-posted without notifying the device, which had not suppressed notifications", tok));
                }
                // E2: exactly this token re-posted, immediately
                if new_heads.len() != 1 || new_heads[0] != *tok {
                    self.case.fail(format!("after delivering token {} the device sees new chains {:?} (expected exactly that token again)", tok, new_heads));
                } else {
                    self.dev.reposts_checked += 1;
                }
                // E1 / E4
                match (self.dom, g) {
                    ("owning", Got::Bytes(b)) => {
                        if oversize {
                            self.case.fail(format!("oversized length {} delivered {} bytes to the handler", len, b.len()));
                        }
                        if b.len() > buf {
                            self.case.fail(format!("handler saw {} bytes from a {}-byte buffer", b.len(), buf));
                        }
                        if b.len() != *len as usize {
                            self.case.fail(format!("device reported {} bytes, handler saw {}", len, b.len()));
                        } else if honest && b != data {
                            self.case.fail(format!("completion of token {} delivered {} instead of {} (wrong order, duplicate or loss)", tok, bytes_str(b), bytes_str(data)));
                        } else if !honest && b[..data.len().min(b.len())] != data[..data.len().min(b.len())] {
                            self.case.fail("delivered prefix differs from what the device wrote");
                        }
                        if hkind != "some" {
                            // result is None / Err(InvalidParam) by the handler's choice
                        }
                    }
                    ("owning", Got::Err(Error::IoError)) if oversize => {}
                    ("owning", other) => {
                        let _ = other;
                        if oversize {
                            self.case.fail(format!("oversized length {} was not reported as IoError", len));
                        } else {
                            self.case.fail(format!("completion of token {} ({} bytes) was not passed to the handler", tok, len));
                        }
                    }
                    ("input", Got::Bytes(b)) => {
                        let k = data.len().min(b.len());
                        if b.len() != buf {
                            self.case.fail(format!("input event of {} bytes", b.len()));
                        }
                        if b[..k] != data[..k] {
                            self.case.fail(format!("event from token {} delivered as {} but the device wrote {} (wrong order, duplicate or loss)", tok, bytes_str(b), bytes_str(data)));
                        }
                    }
                    ("input", _) => self.case.fail(format!("completion of token {} produced no event", tok)),
                    ("sound", g) => {
                        let wellformed = *len as usize == 8 && data.len() == 8;
                        if wellformed {
                            let code = u32::from_le_bytes(data[0..4].try_into().unwrap());
                            let d = u32::from_le_bytes(data[4..8].try_into().unwrap());
                            let known = matches!(code, 0x1000 | 0x1001 | 0x1100 | 0x1101);
                            match g {
                                Got::Notif(c, dd) if known && *c == code && *dd == d => {}
                                Got::Err(Error::IoError) if !known => {}
                                _ => self.case.fail(format!("notification code {:#x} data {} from token {} was not delivered as such", code, d, tok)),
                            }
                        } else if oversize && !matches!(g, Got::Err(Error::IoError)) {
                            self.case.fail(format!("oversized length {} was not reported as IoError", len));
                        }
                    }
                    _ => {}
                }
                match g {
                    Got::Nothing => "ok none".into(),
                    Got::Bytes(b) => {
                        if self.dom == "owning" && hkind == "none" {
                            "ok none".into()
                        } else if self.dom == "owning" && hkind == "err" {
                            "err InvalidParam".into()
                        } else {
                            format!("ok {}", bytes_str(b))
                        }
                    }
                    Got::Notif(c, d) => format!("ok {:#x}:{}", c, d),
                    Got::Err(e) => format!("err {:?}", e),
                    Got::Panic => unreachable!(),
                }
            }
        };
        if !self.dead {
            self.stock_oracle("after poll");
        }
        let t = self.tail(nt0);
        let op = if self.dom == "owning" { format!("evq poll h={}", hkind) } else { "evq poll".to_string() };
        self.case.step(op, format!("{}{}", out, t));
    }

    fn run(&mut self, events: usize, poll: &mut dyn FnMut(&'static str) -> Got) {
        let size = self.dev.size;
        let mut done = 0usize;
        while done < events && !self.dead {
            // burst of completions (0 ..= more than the queue holds), then some polls
            let burst = match self.rng.below(8) {
                0 => 0,
                1 | 2 => 1,
                3 => size,
                4 => size + 2,
                _ => self.rng.range(1, size as u64) as usize,
            };
            self.max_burst = self.max_burst.max(burst.min(size));
            for _ in 0..burst {
                self.dev_op();
                done += 1;
            }
            let polls = match self.rng.below(6) {
                0 => 0,
                1 => 1,
                2 => self.dev.expect.len() + 2,
                _ => self.rng.range(0, self.dev.expect.len() as u64 + 1) as usize,
            };
            for _ in 0..polls {
                if self.dead {
                    break;
                }
                let h = if self.dom == "owning" { *self.rng.pick(&["some", "some", "some", "some", "none", "err"]) } else { "some" };
                self.poll_op(h, poll);
            }
        }
        // drain: everything completed must come out, then the queue is full again
        let mut guard = 0;
        while !self.dev.expect.is_empty() && !self.dead && guard < 4 * size + 8 {
            guard += 1;
            self.poll_op("some", poll);
        }
        if !self.dead {
            self.poll_op("some", poll);
            let p = self.dev.posted();
            if p != size {
                self.case.fail(format!("after draining, the device holds {} of {} buffers", p, size));
            }
        }
        // hostile epilogue (oracles only, nothing recorded for the model): the device completes
        // every buffer id it does NOT currently hold.  With the queue fully stocked there is none;
        // a buffer the driver dropped is completed a second time and must not be recycled twice.
        if !self.dead {
            self.dev.fetch();
            let held: std::collections::BTreeSet<u16> = self.dev.q.inflight.iter().map(|c| c.head).collect();
            for id in 0..size as u16 {
                if !held.contains(&id) {
                    let _ = self.dev.q.push_used_raw(id as u32, 1);
                    if matches!(poll("none"), Got::Panic) {
                        break;
                    }
                }
            }
            // ... and finally ids that no buffer has at all (just past the queue, far outside, and
            // aliasing a valid id after truncation to 16 bits): an error or a clean panic, never an
            // access through them (a wild access crashes the run or is reported by AddressSanitizer)
            for id in [size as u32, size as u32 + 3, 0xffff, 0x1_0000 + (size as u32 - 1), 0x7fff_ffff] {
                let _ = self.dev.q.push_used_raw(id, 1);
                if matches!(poll("none"), Got::Panic) {
                    break;
                }
            }
        }
    }

    fn finish(mut self, events: usize) -> Case {
        for e in std::mem::take(&mut self.dev.errors) {
            self.case.fail(format!("device: {}", e));
        }
        for v in hal::with(|h| std::mem::take(&mut h.violations)) {
            self.case.fail(format!("ledger: {}", v));
        }
        self.case.tag(format!("target={}", self.dom));
        self.case.tag(format!("size={} buf={}", self.dev.size, self.dev.buf));
        self.case.tag(format!("events/size>={}", (events / self.dev.size.max(1)).min(50) / 10 * 10));
        if self.oversize_seen > 0 {
            self.case.tag("oversize_lengths");
        }
        if self.max_burst >= self.dev.size {
            self.case.tag("burst=whole_queue");
        }
        // non-trivial: more deliveries than the queue has buffers (every buffer reused) and every
        // re-post verified
        self.case.nontrivial = self.dev.delivered > self.dev.size && self.dev.reposts_checked == self.dev.delivered;
        self.case
    }
}

fn features(rng: &mut Rng) -> u64 {
    let mut f = F_VERSION_1;
    for b in [F_INDIRECT, F_EVENT_IDX, F_ACCESS_PLATFORM] {
        if rng.chance(1, 2) {
            f |= b;
        }
    }
    f
}

fn mk_dev(st: &Rc<RefCell<TState>>, qidx: usize, size: usize, buf: usize, seed: u64, negotiated: u64) -> Option<EvDev> {
    let s = st.borrow();
    let r = s.queues.get(qidx).copied()?;
    if !r.set {
        return None;
    }
    Some(EvDev {
        q: RefQueue::new(r.size as u16, r.desc, r.driver, r.device, negotiated & F_INDIRECT != 0),
        event_idx: negotiated & F_EVENT_IDX != 0,
        size,
        buf,
        seed,
        evno: 0,
        expect: VecDeque::new(),
        orig: BTreeMap::new(),
        errors: vec![],
        delivered: 0,
        reposts_checked: 0,
    })
}

fn count_notifies(st: &Rc<RefCell<TState>>, qidx: u16) -> Rc<Cell<usize>> {
    let n = Rc::new(Cell::new(0usize));
    let n2 = n.clone();
    st.borrow_mut().on_notify = Some(Box::new(move |q| {
        if q == qidx {
            n2.set(n2.get() + 1);
        }
    }));
    n
}

fn start<'a>(id: String, dom: &'static str, st: &Rc<RefCell<TState>>, qidx: usize, size: usize, buf: usize, seed: u64, negotiated: u64, notifies: Rc<Cell<usize>>, rng: &'a mut Rng, new_result: Result<(), String>) -> Result<Walk<'a>, Case> {
    let mut case = Case::new(id);
    let op = format!("evq new dom={} size={} buf={} seed={}", dom, size, buf, seed);
    if let Err(e) = new_result {
        case.step(op, e.clone());
        case.fail(format!("construction failed: {}", e));
        return Err(case);
    }
    let Some(mut dev) = mk_dev(st, qidx, size, buf, seed, negotiated) else {
        case.step(op, "no-queue");
        case.fail("event queue not registered");
        return Err(case);
    };
    let heads = dev.fetch();
    let want: Vec<u16> = (0..size as u16).collect();
    if heads != want {
        case.fail(format!("initial postings {:?}, expected tokens 0..{} in order", heads, size));
    }
    if dev.q.size as usize != size {
        case.fail(format!("queue registered with size {} != {}", dev.q.size, size));
    }
    let mut w = Walk { case, dev, notifies, rng, dom, dead: false, oversize_seen: 0, max_burst: 0 };
    w.stock_oracle("after construction");
    let t = w.tail(0);
    w.case.step(op, format!("ok{}", t));
    Ok(w)
}

fn owning_case<const SIZE: usize, const BUF: usize>(ctx: &Ctx, stream: &str, idx: usize, id: String) -> Case {
    let mut rng = ctx.case_rng(stream, idx);
    // every other case runs on a platform that shares buffers in place
    hal::inplace_next(idx % 2 == 1);
    hal::reset();
    let seed = rng.below(60000);
    let feats = features(&mut rng);
    let ts = TState::new(DeviceType::Socket, feats, 1, 32768);
    let (mut t, st) = ModelTransport::new(ts);
    let notifies = count_notifies(&st, 0);
    let r = guarded(|| {
        let q = VirtQueue::<LedgerHal, SIZE>::new(&mut t, 0, feats & F_INDIRECT != 0, feats & F_EVENT_IDX != 0, feats & F_ACCESS_PLATFORM != 0)?;
        OwningQueue::<LedgerHal, SIZE, BUF>::new(q)
    });
    let (mut oq, res) = match r {
        Err(p) => (None, Err(format!("panic: {}", p))),
        Ok(Err(e)) => (None, Err(format!("err {:?}", e))),
        Ok(Ok(q)) => (Some(q), Ok(())),
    };
    let events = if stream.starts_with("wrap") { 200000 + (SIZE as u64 * rng.range(3, 60)) as usize } else { (SIZE as u64 * rng.range(3, ctx.tier.pick(25, 60) as u64)) as usize };
    let mut w = match start(id, "owning", &st, 0, SIZE, BUF, seed, feats, notifies, &mut rng, res) {
        Ok(w) => w,
        Err(c) => return c,
    };
    let oqr = oq.as_mut().unwrap();
    let mut poll = |h: &'static str| -> Got {
        let seen: RefCell<Option<Vec<u8>>> = RefCell::new(None);
        let r = guarded(|| {
            oqr.poll(&mut t, |b: &[u8]| {
                *seen.borrow_mut() = Some(b.to_vec());
                match h {
                    "none" => Ok(None),
                    "err" => Err(Error::InvalidParam),
                    _ => Ok(Some(b.to_vec())),
                }
            })
        });
        let seen = seen.into_inner();
        match r {
            Err(_) => Got::Panic,
            Ok(Err(e)) => match seen {
                Some(b) if e == Error::InvalidParam && h == "err" => Got::Bytes(b),
                _ => Got::Err(e),
            },
            Ok(Ok(Some(b))) => Got::Bytes(b),
            Ok(Ok(None)) => match seen {
                Some(b) => Got::Bytes(b),
                None => Got::Nothing,
            },
        }
    };
    w.run(events, &mut poll);
    let c = w.finish(events);
    drop(oq);
    st.borrow_mut().on_notify = None;
    c
}

fn input_case(ctx: &Ctx, stream: &str, idx: usize, id: String) -> Case {
    let mut rng = ctx.case_rng(stream, idx);
    // every other case runs on a platform that shares buffers in place
    hal::inplace_next(idx % 2 == 1);
    hal::reset();
    let seed = rng.below(60000);
    let feats = features(&mut rng);
    let ts = TState::new(DeviceType::Input, feats, 2, *rng.pick(&[32u32, 64, 1024]));
    let (t, st) = ModelTransport::new(ts);
    let notifies = count_notifies(&st, 0);
    let r = guarded(|| VirtIOInput::<LedgerHal, ModelTransport>::new(t));
    let (mut drv, res) = match r {
        Err(p) => (None, Err(format!("panic: {}", p))),
        Ok(Err(e)) => (None, Err(format!("err {:?}", e))),
        Ok(Ok(d)) => (Some(d), Ok(())),
    };
    let negotiated = st.borrow().driver_features;
    let events = if stream.starts_with("wrap") { 200000 + (32 * rng.range(2, 40)) as usize } else { (32 * rng.range(2, ctx.tier.pick(12, 40) as u64)) as usize };
    let mut w = match start(id, "input", &st, 0, 32, 8, seed, negotiated, notifies, &mut rng, res) {
        Ok(w) => w,
        Err(c) => return c,
    };
    let d = drv.as_mut().unwrap();
    let mut poll = |_h: &'static str| -> Got {
        match guarded(|| d.pop_pending_event()) {
            Err(_) => Got::Panic,
            Ok(None) => Got::Nothing,
            Ok(Some(ev)) => Got::Bytes(zerocopy::IntoBytes::as_bytes(&ev).to_vec()),
        }
    };
    w.run(events, &mut poll);
    let c = w.finish(events);
    let _ = guarded(move || drop(drv));
    st.borrow_mut().on_notify = None;
    c
}

fn sound_case(ctx: &Ctx, stream: &str, idx: usize, id: String) -> Case {
    let mut rng = ctx.case_rng(stream, idx);
    // every other case runs on a platform that shares buffers in place
    hal::inplace_next(idx % 2 == 1);
    hal::reset();
    let seed = rng.below(60000);
    // the long floods use exactly one of the two ring features (a driver that mixes them up only
    // shows after the index has passed 0x8000)
    let feats = if stream == "wrap-sound" { F_VERSION_1 | if idx % 2 == 0 { F_INDIRECT } else { F_EVENT_IDX } } else { features(&mut rng) };
    let mut ts = TState::new(DeviceType::Sound, feats, 4, *rng.pick(&[32u32, 64, 1024]));
    ts.config = vec![0u8; 12];
    let (t, st) = ModelTransport::new(ts);
    let notifies = count_notifies(&st, 1);
    let r = guarded(|| VirtIOSound::<LedgerHal, ModelTransport>::new(t));
    let (mut drv, res) = match r {
        Err(p) => (None, Err(format!("panic: {}", p))),
        Ok(Err(e)) => (None, Err(format!("err {:?}", e))),
        Ok(Ok(d)) => (Some(d), Ok(())),
    };
    let negotiated = st.borrow().driver_features;
    let events = if stream == "wrap-sound" { 70016 } else { (32 * rng.range(2, ctx.tier.pick(10, 30) as u64)) as usize };
    let mut w = match start(id, "sound", &st, 1, 32, 8, seed, negotiated, notifies, &mut rng, res) {
        Ok(w) => w,
        Err(c) => return c,
    };
    let d = drv.as_mut().unwrap();
    let mut poll = |_h: &'static str| -> Got {
        match guarded(|| d.latest_notification()) {
            Err(_) => Got::Panic,
            Ok(Err(e)) => Got::Err(e),
            Ok(Ok(None)) => Got::Nothing,
            Ok(Ok(Some(n))) => Got::Notif(n.notification_type() as u32, n.data()),
        }
    };
    w.run(events, &mut poll);
    let c = w.finish(events);
    let _ = guarded(move || drop(drv));
    st.borrow_mut().on_notify = None;
    c
}

pub fn owning_dispatch(ctx: &Ctx, stream: &str, i: usize, id: String) -> Case {
    match i % 6 {
        0 => owning_case::<4, 16>(ctx, stream, i, id),
        1 => owning_case::<8, 64>(ctx, stream, i, id),
        2 => owning_case::<16, 8>(ctx, stream, i, id),
        3 => owning_case::<2, 1>(ctx, stream, i, id),
        4 => owning_case::<32, 40>(ctx, stream, i, id),
        _ => owning_case::<1, 5>(ctx, stream, i, id),
    }
}

/// Driver-level cases of C19 (the queue-level half may add its own cases next to these).
pub fn run_drivers(ctx: &Ctx) -> Vec<Case> {
    let mut cases = crate::runner::par_cases(ctx, "C19", "owning", ctx.tier.pick(1200, 12000), |i, id| owning_dispatch(ctx, "owning", i, id));
    cases.extend(crate::runner::par_cases(ctx, "C19", "input", ctx.tier.pick(300, 3000), |i, id| input_case(ctx, "input", i, id)));
    cases.extend(crate::runner::par_cases(ctx, "C19", "sound", ctx.tier.pick(300, 3000), |i, id| sound_case(ctx, "sound", i, id)));
    // floods longer than 2^16 completions: the free-running 16-bit indices of the event queue wrap
    cases.extend(crate::runner::par_cases(ctx, "C19", "wrap-owning", ctx.tier.pick(6, 24), |i, id| owning_dispatch(ctx, "wrap-owning", i, id)));
    cases.extend(crate::runner::par_cases(ctx, "C19", "wrap-input", ctx.tier.pick(2, 8), |i, id| input_case(ctx, "wrap-input", i, id)));
    cases.extend(crate::runner::par_cases(ctx, "C19", "wrap-sound", ctx.tier.pick(2, 8), |i, id| sound_case(ctx, "wrap-sound", i, id)));
    cases
}

pub const RULE_DRIVERS: &str = "driver level: the real OwningQueue<SIZE,BUFFER_SIZE> for (4,16),(8,64),(16,8),(2,1),(32,40),(1,5) with handlers returning Some/None/Err, the real VirtIOInput::pop_pending_event and VirtIOSound::latest_notification; per case a flood of 2..60 x SIZE events (plus a few floods of more than 65536 events so the 16-bit ring indices wrap): the device completes a random held buffer (random order), in bursts of 0..SIZE+2 between polls, with written length uniform in 0..=BUFFER_SIZE, plus zero, full, under-written and oversized (BUFFER_SIZE+1.., 1000, 65536, 2^31, u32::MAX) reported lengths; sound: valid/unknown notification codes; features INDIRECT/EVENT_IDX/ACCESS_PLATFORM varied; non-trivial = more deliveries than the queue has buffers and every delivery followed by a verified same-token re-post";

pub fn run(ctx: &Ctx) -> (Vec<Case>, String, bool, BTreeMap<String, String>) {
    let mut all = run_drivers(ctx);
    // the socket receive queue through the socket driver proper (C18's stream: well-formed, truncated,
    // over-long and padded packets): whatever a poll returns — an event, nothing, an error — it must not
    // panic and the number of posted buffers is back at the queue size afterwards
    let mut v = crate::c18_vsockconn::run(ctx).0;
    for c in v.iter_mut() {
        // (everything that stream checks bears on "delivered to the caller exactly once … with exactly the
        // bytes the device wrote": the connection manager is the caller-facing end of the receive path)
        c.oracle_failures.retain(|f| !f.starts_with("[C"));
        c.id = format!("C19-via-{}", c.id);
        c.tag("socket-receive");
    }
    all.extend(v);
    (all, format!("{}; plus the socket driver's receive path (C18's stream) with the no-panic and posted-count oracles", RULE_DRIVERS), false, BTreeMap::new())
}
