//! Case scheduling: deterministic per-case PRNG streams, worker threads with large stacks,
//! panics caught per case.

use crate::proto::Case;
use crate::rng::Rng;
use std::cell::RefCell;
use std::panic::{AssertUnwindSafe, catch_unwind};

#[derive(Clone, Copy, Debug, PartialEq, Eq)]
pub enum Tier {
    Quick,
    Thorough,
}
impl Tier {
    pub fn name(&self) -> &'static str {
        match self {
            Tier::Quick => "quick",
            Tier::Thorough => "thorough",
        }
    }
    pub fn pick(&self, quick: usize, thorough: usize) -> usize {
        if *self == Tier::Quick { quick } else { thorough }
    }
}

#[derive(Clone, Debug)]
pub struct Ctx {
    pub tier: Tier,
    pub seed: u64,
    pub only: Option<String>,
    pub threads: usize,
}

impl Ctx {
    pub fn case_id(&self, prop: &str, stream: &str, index: usize) -> String {
        format!("{}-{}-{}-s{}-{}", prop, stream, self.tier.name(), self.seed, index)
    }
    /// PRNG for one case: depends only on (seed, stream, index)
    pub fn case_rng(&self, stream: &str, index: usize) -> Rng {
        let h = crate::rng::fnv64(stream.as_bytes());
        Rng::new(self.seed ^ h.rotate_left(17) ^ (index as u64).wrapping_mul(0xA24B_AED4_963E_E407))
    }
    pub fn wants(&self, id: &str) -> bool {
        self.only.as_ref().map(|o| o == id).unwrap_or(true)
    }
}

thread_local! {
    pub static LAST_PANIC: RefCell<String> = RefCell::new(String::new());
}

pub fn install_panic_hook() {
    std::panic::set_hook(Box::new(|info| {
        let msg = if let Some(s) = info.payload().downcast_ref::<&str>() {
            s.to_string()
        } else if let Some(s) = info.payload().downcast_ref::<String>() {
            s.clone()
        } else {
            "panic".to_string()
        };
        let loc = info.location().map(|l| format!("{}:{}", l.file(), l.line())).unwrap_or_default();
        LAST_PANIC.with(|p| *p.borrow_mut() = format!("{} @ {}", msg, loc));
    }));
}

pub fn last_panic() -> String {
    LAST_PANIC.with(|p| p.borrow().clone())
}

/// Runs `f`, mapping a panic of the code under test to `Err(message)`.
pub fn guarded<R>(f: impl FnOnce() -> R) -> Result<R, String> {
    catch_unwind(AssertUnwindSafe(f)).map_err(|_| last_panic())
}

/// Runs `n` cases on worker threads (64 MiB stacks); case `i` is produced by `f(i)`.
/// A panic escaping `f` (a harness bug, not an outcome of the code under test) is turned into a
/// case with an oracle failure so it cannot go unnoticed.
/// Cases being executed right now, mirrored to the file named by `VH_INFLIGHT` (if set) at every case
/// start.  If the real code under test takes the whole process down (memory corruption, runaway
/// allocation, a hang that is killed from outside), `check` reads the file and re-runs those cases
/// one by one to pin the crash on a case.
static INFLIGHT: std::sync::Mutex<Vec<String>> = std::sync::Mutex::new(Vec::new());

fn inflight_update(add: Option<&str>, remove: Option<&str>) {
    let Ok(path) = std::env::var("VH_INFLIGHT") else { return };
    let mut g = INFLIGHT.lock().unwrap_or_else(|e| e.into_inner());
    if let Some(r) = remove {
        if let Some(p) = g.iter().position(|x| x == r) {
            g.swap_remove(p);
        }
    }
    if let Some(a) = add {
        g.push(a.to_string());
        // only starts are written: a finished case can no longer crash
        let _ = std::fs::write(&path, g.join("\n"));
    }
}

pub fn par_cases(ctx: &Ctx, prop: &str, stream: &str, n: usize, f: impl Fn(usize, String) -> Case + Sync) -> Vec<Case> {
    let threads = ctx.threads.max(1).min(n.max(1));
    let mut out: Vec<Vec<(usize, Case)>> = vec![];
    // cases are handed out dynamically (their cost varies by orders of magnitude with the queue size);
    // the result does not depend on the schedule: case `i` is a function of `i` and the seed only
    let next = std::sync::atomic::AtomicUsize::new(0);
    std::thread::scope(|s| {
        let mut hs = vec![];
        for _t in 0..threads {
            let f = &f;
            let next = &next;
            let h = std::thread::Builder::new()
                .stack_size(256 << 20)
                .spawn_scoped(s, move || {
                    let mut v = vec![];
                    loop {
                        let i = next.fetch_add(1, std::sync::atomic::Ordering::Relaxed);
                        if i >= n {
                            break;
                        }
                        let id = ctx.case_id(prop, stream, i);
                        if ctx.wants(&id) {
                            let idc = id.clone();
                            inflight_update(Some(&id), None);
                            let res = catch_unwind(AssertUnwindSafe(|| f(i, idc)));
                            inflight_update(None, Some(&id));
                            let c = match res {
                                Ok(c) => c,
                                Err(_) => {
                                    let mut c = Case::new(id);
                                    c.fail(format!("harness panic: {}", last_panic()));
                                    c
                                }
                            };
                            v.push((i, c));
                        }
                    }
                    v
                })
                .unwrap();
            hs.push(h);
        }
        for h in hs {
            out.push(h.join().unwrap());
        }
    });
    let mut all: Vec<(usize, Case)> = out.into_iter().flatten().collect();
    all.sort_by_key(|(i, _)| *i);
    all.into_iter().map(|(_, c)| c).collect()
}
