#![allow(dead_code, unused_imports)]
//! `vh`: verification harness. Runs the real virtio-drivers code in-process, records canonical
//! transcripts, evaluates independent oracles, and compares with the Lean model driver.

mod hal;
mod mmio;
mod mtrans;
mod proto;
mod refdev;
mod rng;
mod runner;
mod wake;

mod c05_notify;
mod c05_drivers;
mod c06_layout;
mod c07_hostile;
mod cq_queue;
mod c14_blk;
mod c16_net;
mod c10_mmio;
mod c13_config;
mod c11_pcicap;
mod c12_pcibus;
mod pciref;
mod c17_vsock;
mod c18_vsockconn;
mod vsock_world;
mod c15_console;
mod c19_events;
mod c08_init;
mod c08_mmio;
mod c09_drop;
mod c20_cmd;

use proto::RunResult;
use runner::{Ctx, Tier};
use std::path::PathBuf;

fn usage() -> ! {
    eprintln!("usage: vh consts | vh run <Cxx> [--tier quick|thorough] [--seed N] [--driver PATH] [--out FILE] [--replays DIR] [--only CASEID]");
    std::process::exit(2)
}

fn main() {
    let args: Vec<String> = std::env::args().collect();
    if args.len() < 2 {
        usage();
    }
    runner::install_panic_hook();
    match args[1].as_str() {
        "consts" => print!("{}", c06_layout::consts_lean()),
        "features" => print!("{}", c08_init::features_lean()),
        "run" => {
            if args.len() < 3 {
                usage();
            }
            let prop = args[2].clone();
            let mut ctx = Ctx {
                tier: Tier::Quick,
                seed: std::env::var("VERIF_SEED").ok().and_then(|s| s.parse().ok()).unwrap_or(1),
                only: None,
                threads: std::thread::available_parallelism().map(|n| n.get()).unwrap_or(4),
            };
            if let Ok(t) = std::env::var("VERIF_TIER") {
                if t == "thorough" {
                    ctx.tier = Tier::Thorough;
                }
            }
            let mut driver = PathBuf::from("/verif/lean/.lake/build/bin/driver");
            let mut out: Option<PathBuf> = None;
            let mut replays = PathBuf::from("/verif/replays");
            let mut i = 3;
            while i < args.len() {
                match args[i].as_str() {
                    "--tier" => {
                        i += 1;
                        ctx.tier = if args[i] == "thorough" { Tier::Thorough } else { Tier::Quick };
                    }
                    "--seed" => {
                        i += 1;
                        ctx.seed = args[i].parse().expect("seed");
                    }
                    "--driver" => {
                        i += 1;
                        driver = PathBuf::from(&args[i]);
                    }
                    "--out" => {
                        i += 1;
                        out = Some(PathBuf::from(&args[i]));
                    }
                    "--replays" => {
                        i += 1;
                        replays = PathBuf::from(&args[i]);
                    }
                    "--only" => {
                        i += 1;
                        ctx.only = Some(args[i].clone());
                    }
                    _ => usage(),
                }
                i += 1;
            }
            let t0 = std::time::Instant::now();
            // ---- property dispatch: one line per property module ----
            let (cases, rule, exhaustive, extra) = match prop.as_str() {
                "C06" => c06_layout::run(&ctx),
                "C01" | "C02" | "C03" | "C04" => cq_queue::run(&ctx, &prop),
                "C05" => c05_notify::run(&ctx),
                "C07" => c07_hostile::run(&ctx),
                "C14" => c14_blk::run(&ctx),
                "C16" => c16_net::run(&ctx),
                "C10" => c10_mmio::run(&ctx),
                "C13" => c13_config::run(&ctx),
                "C11" => c11_pcicap::run(&ctx),
                "C12" => c12_pcibus::run(&ctx),
                "C17" => c17_vsock::run(&ctx),
                "C18" => c18_vsockconn::run(&ctx),
                "C15" => c15_console::run(&ctx),
                "C19" => c19_events::run(&ctx),
                "C08" => c08_init::run(&ctx),
                "C09" => c09_drop::run(&ctx),
                "C20" => c20_cmd::run(&ctx),
                _ => {
                    eprintln!("unknown property {}", prop);
                    std::process::exit(2)
                }
            };
            // failures labelled for another property (streams are shared between checks) are that
            // check's business
            let mut cases = cases;
            // every driver check also runs its driver's rows of the notification matrix (C05 (iv): suppression
            // words of all queues of the device set independently before each single-chain operation)
            let mine: &[&str] = match prop.as_str() {
                "C14" => &["blk"],
                "C15" => &["console"],
                "C16" => &["netraw", "net"],
                "C17" | "C18" => &["socket"],
                "C20" => &["gpu", "rng", "rtc", "p9"],
                _ => &[],
            };
            if !mine.is_empty() {
                let mut m = c05_drivers::run_cases(&ctx);
                m.retain(|c| c.tags.iter().any(|t| mine.contains(&t.as_str())));
                for c in m.iter_mut() {
                    c.oracle_failures.retain(|f| f.starts_with("[C05] lost notification: "));
                    c.id = format!("{}-via-{}", prop, c.id);
                    c.tag("notification-matrix");
                }
                cases.extend(m);
            }
            if prop == "C08" {
                // "event index ... used only if the corresponding feature was negotiated", per queue of every
                // driver: on the rows of the notification matrix where EVENT_IDX was not negotiated the
                // decision to notify must follow used.flags — a queue that consults avail_event there
                // (created with the wrong flag) shows as a decision against the flags
                let mut m = c05_drivers::run_cases(&ctx);
                for c in m.iter_mut() {
                    c.oracle_failures.retain(|f| f.starts_with("[C05] ") && (f.contains("whose used.flags was 0 and did not notify") || f.contains("although the device had set VIRTQ_USED_F_NO_NOTIFY")));
                    for f in c.oracle_failures.iter_mut() {
                        *f = format!("EVENT_IDX was not negotiated, yet the queue's notification decision does not follow used.flags: {}", &f[6..]);
                    }
                    c.id = format!("C08-via-{}", c.id);
                    c.tag("notification-matrix");
                }
                cases.extend(m);
            }
            // …and its driver's rows of the construction stream over the real MMIO transport (legacy and
            // modern) against the register-level device: the queue areas the device latched are the ones the
            // driver allocated (a driver whose used ring the device looks for elsewhere never sees a completion)
            let mine_mmio: &[&str] = match prop.as_str() {
                "C19" => &["input", "sound", "socket"],
                _ => mine,
            };
            if !mine_mmio.is_empty() {
                let mut m = c08_mmio::run_mmio(&ctx).0;
                m.retain(|c| c.tags.iter().any(|t| mine_mmio.iter().any(|d| t.starts_with(&format!("{}-mmio-", d)))));
                for c in m.iter_mut() {
                    c.oracle_failures.retain(|f| f.starts_with("[C06] "));
                    for f in c.oracle_failures.iter_mut() {
                        *f = format!("queue registration over MMIO: {}", &f[6..]);
                    }
                    c.id = format!("{}-via-{}", prop, c.id);
                    c.tag("mmio-registration");
                }
                cases.extend(m);
            }
            // …except that a lost notification on a driver's queue is also that driver's failure: the
            // request (frame, buffer, packet) it made available never reaches a device that waits to be told
            if matches!(prop.as_str(), "C14" | "C15" | "C16" | "C17" | "C18" | "C19" | "C20") {
                for c in cases.iter_mut() {
                    for f in c.oracle_failures.iter_mut() {
                        if let Some(rest) = f.strip_prefix("[C05] lost notification: ") {
                            *f = format!("made available but never announced to a device that asked to be notified (it never reaches the device): {}", rest);
                        }
                    }
                }
            }
            for c in cases.iter_mut() {
                c.oracle_failures.retain(|f| {
                    let b = f.as_bytes();
                    !(b.len() > 5 && b[0] == b'[' && b[1] == b'C' && b[4] == b']' && &f[1..4] != prop.as_str())
                });
            }
            let mut res = RunResult {
                prop: prop.clone(),
                tier: ctx.tier.name().into(),
                seed: ctx.seed,
                rule,
                exhaustive,
                cases,
                disagreements: vec![],
                infra_errors: vec![],
                extra,
            };
            let workbuf = out.as_ref().and_then(|p| p.parent().map(|d| d.to_path_buf())).unwrap_or_else(|| PathBuf::from("/verif/out"));
            let work = workbuf.as_path();
            match proto::compare_with_model(&driver, &res.cases, work, &format!("{}-{}", prop, std::process::id())) {
                Ok(d) => res.disagreements = d,
                Err(e) => res.infra_errors.push(e),
            }
            res.extra.insert("harness_wall_s".into(), format!("{:.2}", t0.elapsed().as_secs_f64()));
            let json = res.to_json(&replays);
            match out {
                Some(p) => std::fs::write(p, json).expect("write result"),
                None => print!("{}", json),
            }
        }
        _ => usage(),
    }
}
