//! C14: block requests carry the caller's data intact and match the right completion.
//!
//! The REAL `VirtIOBlk` runs on `ModelTransport` + `LedgerHal` against a reference block device
//! written from the VirtIO specification (§5.2.6): it decodes `struct virtio_blk_req` from the
//! device-visible bytes of every chain, executes it on an in-memory disk and writes the status
//! byte.  The generator keeps an independent shadow copy of the disk built only from the data it
//! handed to / expects from the public API.

use crate::hal::{self, LedgerHal};
use crate::mtrans::{ModelTransport, TState};
use crate::proto::Case;
use crate::refdev::{Chain, RefQueue};
use crate::rng::{Rng, fnv64};
use crate::runner::{Ctx, guarded};
use std::cell::RefCell;
use std::collections::BTreeMap;
use virtio_drivers::Error;
use virtio_drivers::device::blk::{BlkReq, BlkResp, VirtIOBlk};
use virtio_drivers::transport::DeviceType;

pub const FILL: u8 = 0xEE;

pub fn canon_bytes(b: &[u8]) -> String {
    if b.len() <= 64 {
        let mut s = String::from("x");
        for x in b {
            s.push_str(&format!("{:02x}", x));
        }
        s
    } else {
        format!("#{}:{:#x}", b.len(), fnv64(b))
    }
}

pub fn hex(b: &[u8]) -> String {
    if b.is_empty() {
        return "-".into();
    }
    let mut s = String::with_capacity(2 * b.len());
    for x in b {
        s.push_str(&format!("{:02x}", x));
    }
    s
}

/// device-side canonical view of a chain: readable segments by content, writable ones by length
pub fn chain_str(c: &Chain) -> Result<String, String> {
    let mut v = vec![];
    for s in &c.segs {
        if s.write {
            v.push(format!("W{}", s.len));
        } else {
            v.push(format!("R{}:{}", s.len, canon_bytes(&hal::dev_read(s.addr, s.len as usize)?)));
        }
    }
    Ok(v.join("|"))
}

fn res_name(r: &Result<(), Error>) -> String {
    match r {
        Ok(()) => "Ok".into(),
        Err(e) => format!("{:?}", e),
    }
}

// ------------------------------------------------------------------------------------------
// reference block device (VirtIO 1.x §5.2.6), independent of the Lean model
// ------------------------------------------------------------------------------------------

const VIRTIO_BLK_T_IN: u32 = 0;
const VIRTIO_BLK_T_OUT: u32 = 1;
const VIRTIO_BLK_T_FLUSH: u32 = 4;
const VIRTIO_BLK_T_GET_ID: u32 = 8;
const VIRTIO_BLK_S_OK: u8 = 0;
const VIRTIO_BLK_S_IOERR: u8 = 1;
const VIRTIO_BLK_S_UNSUPP: u8 = 2;

/// what the device decoded from one chain
#[derive(Clone, Debug)]
pub struct Decoded {
    pub type_: u32,
    pub reserved: u32,
    pub sector: u64,
    /// device-readable bytes after the 16-byte header
    pub out_data: Vec<u8>,
    /// device-writable bytes before the final status byte
    pub in_len: usize,
}

/// how the device answered
#[derive(Clone, Debug)]
pub struct Served {
    pub head: u16,
    pub chain: String,
    pub dec: Decoded,
    pub status: u8,
    pub ulen: u32,
    /// device-visible content of the writable data part after the device acted
    pub wdata: Vec<u8>,
    pub framing_errors: Vec<String>,
}

/// how the generator wants the device to behave for one request
#[derive(Clone, Copy, Debug)]
pub struct Plan {
    /// status the device reports (forced to IOERR for out-of-range requests)
    pub status: u8,
    /// used length reported (None: spec-conformant value)
    pub ulen: Option<u32>,
}

pub struct BlkDev {
    pub q: RefQueue,
    pub disk: Vec<u8>,
    pub id: [u8; 20],
    pub flushes: usize,
    /// every chain ever fetched, in fetch order
    pub fetched: Vec<Chain>,
    /// plan for the chain served from the spin hook
    pub spin_plan: Option<Plan>,
    pub spin_served: Vec<Served>,
    pub spins: usize,
    pub errors: Vec<String>,
}

impl BlkDev {
    fn poll(&mut self) -> Vec<Chain> {
        match self.q.fetch_all() {
            Ok(v) => {
                self.fetched.extend(v.iter().cloned());
                v
            }
            Err(e) => {
                self.errors.push(format!("device could not fetch a chain: {}", e));
                vec![]
            }
        }
    }

    /// Decodes `struct virtio_blk_req` from the device-visible bytes of a chain.
    fn decode(&self, c: &Chain) -> Result<(Decoded, Vec<String>), String> {
        let mut ferr = vec![];
        let rd = self.q.read_in(c)?;
        if rd.len() < 16 {
            return Err(format!("device-readable part is {} bytes: no room for the 16-byte request header", rd.len()));
        }
        let wl = self.q.writable_len(c);
        if wl < 1 {
            return Err("no device-writable byte for the status".into());
        }
        // framing the property speaks of: header first, one-byte device-writable status last
        if c.segs.first().map(|s| (s.write, s.len)) != Some((false, 16)) {
            ferr.push("first segment is not the 16-byte device-readable header".to_string());
        }
        if c.segs.last().map(|s| (s.write, s.len)) != Some((true, 1)) {
            ferr.push("last segment is not a one-byte device-writable status".to_string());
        }
        Ok((
            Decoded {
                type_: u32::from_le_bytes(rd[0..4].try_into().unwrap()),
                reserved: u32::from_le_bytes(rd[4..8].try_into().unwrap()),
                sector: u64::from_le_bytes(rd[8..16].try_into().unwrap()),
                out_data: rd[16..].to_vec(),
                in_len: wl - 1,
            },
            ferr,
        ))
    }

    /// Executes one fetched chain and publishes its completion.
    pub fn serve(&mut self, c: &Chain, plan: Plan) -> Result<Served, String> {
        let chain = chain_str(c)?;
        let (dec, mut ferr) = self.decode(c)?;
        let nsect = (self.disk.len() / 512) as u64;
        let mut status = plan.status;
        let mut inbytes: Vec<u8> = vec![];
        match dec.type_ {
            VIRTIO_BLK_T_IN => {
                if !dec.out_data.is_empty() {
                    ferr.push("read request carries device-readable data".into());
                }
                if dec.in_len == 0 || dec.in_len % 512 != 0 {
                    ferr.push(format!("read request with {} writable data bytes", dec.in_len));
                }
                let n = (dec.in_len / 512) as u64;
                if dec.sector.checked_add(n).map(|e| e > nsect).unwrap_or(true) {
                    status = VIRTIO_BLK_S_IOERR;
                } else if status == VIRTIO_BLK_S_OK {
                    let o = dec.sector as usize * 512;
                    inbytes = self.disk[o..o + dec.in_len].to_vec();
                }
            }
            VIRTIO_BLK_T_OUT => {
                if dec.in_len != 0 {
                    ferr.push("write request has device-writable data".into());
                }
                if dec.out_data.is_empty() || dec.out_data.len() % 512 != 0 {
                    ferr.push(format!("write request with {} readable data bytes", dec.out_data.len()));
                }
                let n = (dec.out_data.len() / 512) as u64;
                if dec.sector.checked_add(n).map(|e| e > nsect).unwrap_or(true) {
                    status = VIRTIO_BLK_S_IOERR;
                } else if status == VIRTIO_BLK_S_OK {
                    let o = dec.sector as usize * 512;
                    self.disk[o..o + dec.out_data.len()].copy_from_slice(&dec.out_data);
                }
            }
            VIRTIO_BLK_T_FLUSH => {
                if dec.in_len != 0 || !dec.out_data.is_empty() {
                    ferr.push("flush request carries data".into());
                }
                if status == VIRTIO_BLK_S_OK {
                    self.flushes += 1;
                }
            }
            VIRTIO_BLK_T_GET_ID => {
                if dec.in_len != 20 || !dec.out_data.is_empty() {
                    ferr.push(format!("get-id request with {} writable bytes", dec.in_len));
                }
                if status == VIRTIO_BLK_S_OK {
                    inbytes = self.id[..dec.in_len.min(20)].to_vec();
                }
            }
            _ => status = VIRTIO_BLK_S_UNSUPP,
        }
        // the device writes the data it supplies, then the status byte at the very end
        let mut w = inbytes.clone();
        if status == VIRTIO_BLK_S_OK || inbytes.len() == dec.in_len {
            w.resize(dec.in_len, 0);
            w.push(status);
            self.q.write_out(c, &w)?;
        } else {
            // failed request: only the status byte is written (last writable segment)
            let last = c.segs.last().unwrap();
            hal::dev_write(last.addr + last.len as u64 - 1, &[status])?;
        }
        // what the driver will find: device-visible content of the writable part
        let mut view = vec![];
        for s in c.segs.iter().filter(|s| s.write) {
            view.extend(hal::dev_read(s.addr, s.len as usize)?);
        }
        let st_seen = *view.last().unwrap();
        view.pop();
        let ulen = plan.ulen.unwrap_or(if status == VIRTIO_BLK_S_OK { dec.in_len as u32 + 1 } else { 1 });
        self.q.complete(c.head, ulen)?;
        Ok(Served { head: c.head, chain, dec, status: st_seen, ulen, wdata: view, framing_errors: ferr })
    }
}

thread_local! {
    static DEV: RefCell<Option<BlkDev>> = const { RefCell::new(None) };
}

fn with_dev<R>(f: impl FnOnce(&mut BlkDev) -> R) -> R {
    DEV.with(|d| f(d.borrow_mut().as_mut().expect("no block device")))
}

/// called from the busy-wait loop of `add_notify_wait_pop`
fn spin_hook() {
    DEV.with(|d| {
        let mut g = d.borrow_mut();
        let Some(dev) = g.as_mut() else { return };
        dev.spins += 1;
        if dev.spins > 64 {
            drop(g);
            panic!("hang: driver spins although the device has nothing to complete");
        }
        let new = dev.poll();
        // serve only the request of the blocking call (the newest chain); older ones stay pending
        if let (Some(c), Some(plan)) = (new.last(), dev.spin_plan) {
            match dev.serve(c, plan) {
                Ok(s) => dev.spin_served.push(s),
                Err(e) => dev.errors.push(format!("device could not serve a chain: {}", e)),
            }
        }
    });
}

// ------------------------------------------------------------------------------------------
// generator + real driver
// ------------------------------------------------------------------------------------------

#[derive(Clone, Copy, PartialEq, Eq, Debug)]
enum Kind {
    Read,
    Write,
}

/// a non-blocking request in flight: buffers pinned on the heap until completion
struct Nb {
    kind: Kind,
    token: u16,
    sector: u64,
    req: Box<BlkReq>,
    buf: Vec<u8>,
    resp: Box<BlkResp>,
    /// set when the device has executed the request: (status planned/forced, expected read data)
    done: Option<(u8, Vec<u8>)>,
}

struct Gen<'a> {
    c: &'a mut Case,
    rng: Rng,
    shadow: Vec<u8>,
    nsect: u64,
    max_sectors: usize,
    ok_transfers: usize,
    flush_negotiated: bool,
    expected_flushes: usize,
}

/// statuses: the four the driver names, then all others
fn pick_status(rng: &mut Rng) -> u8 {
    match rng.below(10) {
        0..=4 => 0,
        5 => 1,
        6 => 2,
        7 => 3,
        _ => rng.below(256) as u8,
    }
}

fn pick_ulen(rng: &mut Rng) -> Option<u32> {
    if rng.chance(1, 4) { Some(rng.u32_biased()) } else { None }
}

impl<'a> Gen<'a> {
    fn pick_sector(&mut self, nsec: usize) -> u64 {
        match self.rng.below(12) {
            0 => self.rng.u64_biased(),          // anywhere in 64 bits (header encoding)
            1 => self.nsect - self.rng.below(nsec as u64 + 1).min(self.nsect), // around the end
            2 => self.nsect + self.rng.below(3),
            _ => self.rng.below(self.nsect.saturating_sub(nsec as u64).max(1)),
        }
    }
    fn pick_len(&mut self) -> usize {
        let n = match self.rng.below(10) {
            0..=4 => 1,
            5..=6 => 2,
            7 => 3,
            8 => 4,
            _ => self.rng.range(1, self.max_sectors as u64) as usize,
        };
        n * 512
    }

    /// oracle for one executed request, from the specification and the property text only
    fn check_served(&mut self, s: &Served, want_type: u32, sector: u64, data_out: Option<&[u8]>, in_len: usize) {
        for e in &s.framing_errors {
            self.c.fail(format!("request framing: {}", e));
        }
        if s.dec.type_ != want_type {
            self.c.fail(format!("device decoded request type {} but the operation was type {}", s.dec.type_, want_type));
        }
        if s.dec.sector != sector {
            self.c.fail(format!("device decoded sector {:#x} but the caller asked for sector {:#x}", s.dec.sector, sector));
        }
        if s.dec.reserved != 0 {
            self.c.fail(format!("reserved header field is {:#x}", s.dec.reserved));
        }
        match data_out {
            Some(d) => {
                if s.dec.out_data != d {
                    self.c.fail("device-readable data of the request is not the caller's buffer".to_string());
                }
            }
            None => {
                if !s.dec.out_data.is_empty() {
                    self.c.fail("request has device-readable data although the caller gave none".to_string());
                }
            }
        }
        if s.dec.in_len != in_len {
            self.c.fail(format!("device-writable data part is {} bytes, caller's buffer is {}", s.dec.in_len, in_len));
        }
    }

    fn in_range(&self, sector: u64, len: usize) -> bool {
        sector.checked_add((len / 512) as u64).map(|e| e <= self.nsect).unwrap_or(false)
    }

    /// spec meaning of a status byte for the caller
    fn check_result(&mut self, what: &str, status: u8, r: &Result<(), Error>) {
        let good = match status {
            0 => r.is_ok(),
            1 => *r == Err(Error::IoError),
            2 => *r == Err(Error::Unsupported),
            3 => r.is_err(),
            // no defined meaning: an error, and not the one that tells the caller to poll again — the
            // completion has been consumed, the request is over
            _ => r.is_err() && *r != Err(Error::NotReady),
        };
        if !good {
            self.c.fail(format!("{}: device status {} reported to the caller as {}", what, status, res_name(r)));
        }
    }
}

type Blk = VirtIOBlk<LedgerHal, ModelTransport>;

pub struct Setup {
    pub offered: u64,
    pub cap_lo: u32,
    pub cap_hi: u32,
    pub nsect: u64,
}

fn setup(c: &mut Case, s: &Setup) -> Option<(Blk, u64)> {
    hal::reset();
    let mut ts = TState::new(DeviceType::Block, s.offered, 1, 16);
    let mut cfg = vec![0u8; 64];
    cfg[0..4].copy_from_slice(&s.cap_lo.to_le_bytes());
    cfg[4..8].copy_from_slice(&s.cap_hi.to_le_bytes());
    ts.config = cfg;
    let (t, st) = ModelTransport::new(ts);
    let blk = match guarded(|| Blk::new(t)) {
        Ok(Ok(b)) => b,
        other => {
            c.fail(format!("VirtIOBlk::new failed: {:?}", other.map(|r| r.err())));
            return None;
        }
    };
    let (neg, qr) = {
        let s = st.borrow();
        (s.driver_features, s.queues[0])
    };
    c.step(
        format!("blk new feats={:#x} caplo={} caphi={}", s.offered, s.cap_lo, s.cap_hi),
        format!("ok neg={:#x} cap={} ro={}", neg, blk.capacity(), blk.readonly() as u8),
    );
    // oracle (property text): capacity and read-only state equal configuration and features
    if blk.capacity() != ((s.cap_hi as u64) << 32) + s.cap_lo as u64 {
        c.fail(format!("capacity() = {:#x}, configuration says {:#x}:{:#x}", blk.capacity(), s.cap_hi, s.cap_lo));
    }
    if blk.readonly() != (s.offered & (1 << 5) != 0) {
        c.fail(format!("readonly() = {} but VIRTIO_BLK_F_RO offered = {}", blk.readonly(), s.offered & (1 << 5) != 0));
    }
    if !qr.set || qr.size != 16 {
        c.fail("request queue not registered with 16 entries");
        return None;
    }
    let mut id = [0u8; 20];
    for (i, b) in id.iter_mut().enumerate() {
        *b = b'a' + (i as u8 % 26);
    }
    DEV.with(|d| {
        *d.borrow_mut() = Some(BlkDev {
            q: RefQueue::new(16, qr.desc, qr.driver, qr.device, neg & (1 << 28) != 0),
            disk: vec![0; s.nsect as usize * 512],
            id,
            flushes: 0,
            fetched: vec![],
            spin_plan: None,
            spin_served: vec![],
            spins: 0,
            errors: vec![],
        })
    });
    Some((blk, neg))
}

fn teardown(c: &mut Case, blk: Blk, g_shadow: &[u8], expected_flushes: usize) {
    let (disk, flushes, errs) = with_dev(|d| (d.disk.clone(), d.flushes, std::mem::take(&mut d.errors)));
    for e in errs {
        c.fail(format!("reference device: {}", e));
    }
    if disk != g_shadow {
        let first = disk.iter().zip(g_shadow.iter()).position(|(a, b)| a != b).unwrap_or(0);
        c.fail(format!(
            "disk image differs from the shadow copy built from the caller's data (first difference at byte {}, sector {}); digests {:#x} vs {:#x}",
            first,
            first / 512,
            fnv64(&disk),
            fnv64(g_shadow)
        ));
    }
    if flushes != expected_flushes {
        c.fail(format!("device executed {} flushes, the caller issued {} with the feature negotiated", flushes, expected_flushes));
    }
    drop(blk);
    DEV.with(|d| *d.borrow_mut() = None);
    for v in hal::with(|h| std::mem::take(&mut h.violations)) {
        c.fail(format!("ledger: {}", v));
    }
}

/// arms the device for a blocking call; returns after the call what the device did
fn arm(plan: Plan) {
    with_dev(|d| {
        d.spin_plan = Some(plan);
        d.spin_served.clear();
        d.spins = 0;
    });
}
fn disarm() -> (Option<Served>, Vec<Chain>) {
    with_dev(|d| {
        d.spin_plan = None;
        let late = d.poll();
        (d.spin_served.pop(), late)
    })
}

fn dev_args(s: &Served) -> String {
    format!("ulen={} wdata={} status={}", s.ulen, hex(&s.wdata), s.status)
}

/// one structured case
fn structured(ctx: &Ctx, idx: usize, id: String, hostile: bool) -> Case {
    let mut c = Case::new(id);
    let mut rng = ctx.case_rng(if hostile { "blk-malformed" } else { "blk" }, idx);
    // features: the six the driver knows, plus random others the driver must ignore
    let mut offered = 0u64;
    for b in [5u64, 9, 28, 29, 32, 33] {
        if rng.chance(1, 2) {
            offered |= 1 << b;
        }
    }
    if rng.chance(1, 3) {
        offered |= rng.next() & !(1 << 32); // unknown bits (never VERSION_1 alone by accident: harmless either way)
    }
    if idx % 7 == 0 {
        offered = u64::MAX;
    }
    let nsect = *rng.pick(&[8u64, 16, 64, 128]);
    let (cap_lo, cap_hi) = if rng.chance(1, 4) { (rng.u32_biased(), rng.u32_biased()) } else { (nsect as u32, 0) };
    // a third of the well-formed cases run on a platform that shares buffers in place
    hal::inplace_next(!hostile && idx % 3 == 1);
    c.tag(if !hostile && idx % 3 == 1 { "platform=inplace" } else { "platform=bounce" });
    let Some((mut blk, neg)) = setup(&mut c, &Setup { offered, cap_lo, cap_hi, nsect }) else { return c };
    let indirect = neg & (1 << 28) != 0;
    let limit = if indirect { 16 } else { 5 };
    c.tag(if indirect { "indirect" } else { "direct" });
    if neg & (1 << 9) != 0 {
        c.tag("flush-negotiated");
    }
    let max_sectors = ctx.tier.pick(8, 24);
    let mut g = Gen {
        c: &mut c,
        rng,
        shadow: vec![0; nsect as usize * 512],
        nsect,
        max_sectors,
        ok_transfers: 0,
        flush_negotiated: neg & (1 << 9) != 0,
        expected_flushes: 0,
    };
    let mut nbs: Vec<Nb> = vec![];
    // completions published and not yet popped, in ring order
    let mut used_order: Vec<u16> = vec![];
    let nops = g.rng.range(10, ctx.tier.pick(40, 90) as u64);
    let mut dead = false;
    let greedy = idx % 3 == 0;
    for _ in 0..nops {
        if dead {
            break;
        }
        let pending: Vec<usize> = (0..nbs.len()).filter(|i| nbs[*i].done.is_none()).collect();
        let mut r = g.rng.below(100);
        // greedy cases keep submitting until the queue is full (16 outstanding with indirect descriptors)
        if greedy && nbs.len() <= limit && r >= 28 && r < 80 && g.rng.chance(1, 2) {
            r = 0;
        }
        if r < 28 {
            // ---- submit a non-blocking request (also beyond capacity: QueueFull) ----
            if nbs.len() > limit {
                continue;
            }
            let kind = if g.rng.chance(1, 2) { Kind::Read } else { Kind::Write };
            let mut len = g.pick_len();
            if hostile && g.rng.chance(1, 6) {
                len = *g.rng.pick(&[0usize, 1, 511, 513, 1000]);
            }
            let sector = g.pick_sector(len / 512);
            let mut nb = Nb {
                kind,
                token: 0,
                sector,
                req: Box::new(BlkReq::default()),
                buf: if kind == Kind::Read { vec![FILL; len] } else { g.rng.bytes(len) },
                resp: Box::new(BlkResp::default()),
                done: None,
            };
            let r = guarded(|| unsafe {
                match kind {
                    Kind::Read => blk.read_blocks_nb(sector as usize, &mut nb.req, &mut nb.buf, &mut nb.resp),
                    Kind::Write => blk.write_blocks_nb(sector as usize, &mut nb.req, &nb.buf, &mut nb.resp),
                }
            });
            let new = with_dev(|d| d.poll());
            let opname = if kind == Kind::Read { "read_nb" } else { "write_nb" };
            let args = if kind == Kind::Read { format!("sector={} len={}", sector, len) } else { format!("sector={} data={}", sector, hex(&nb.buf)) };
            match r {
                Err(_) => {
                    g.c.step(format!("blk {} tok=- {}", opname, args), "panic");
                    g.c.tag("param-panic");
                    if len != 0 && len % 512 == 0 {
                        g.c.fail(format!("{} panicked on a valid length {}", opname, len));
                    }
                    if !new.is_empty() {
                        g.c.fail("a request reached the device although the call panicked");
                    }
                }
                Ok(Err(e)) => {
                    g.c.step(format!("blk {} tok=- {}", opname, args), format!("err {:?}", e));
                    g.c.tag(format!("nb-{:?}", e));
                    if !new.is_empty() {
                        g.c.fail("a request reached the device although the call failed");
                    }
                    if e == Error::QueueFull && nbs.len() < limit {
                        g.c.fail(format!("QueueFull with only {} requests outstanding", nbs.len()));
                    }
                }
                Ok(Ok(tok)) => {
                    if new.len() != 1 || new[0].head != tok {
                        g.c.fail(format!("submitted one request with token {}, device fetched {:?}", tok, new.iter().map(|c| c.head).collect::<Vec<_>>()));
                        dead = true;
                        continue;
                    }
                    if nbs.iter().any(|n| n.token == tok) {
                        g.c.fail(format!("token {} handed out twice", tok));
                    }
                    let cs = chain_str(&new[0]).unwrap_or_else(|e| e);
                    g.c.step(format!("blk {} tok={} {}", opname, tok, args), format!("ok {} chain={}", tok, cs));
                    nb.token = tok;
                    nbs.push(nb);
                    g.c.tag(format!("outstanding={}", nbs.len()));
                }
            }
        } else if r < 50 {
            // ---- the device completes a pending request of its choice ----
            if pending.is_empty() {
                continue;
            }
            let i = *g.rng.pick(&pending);
            let plan = Plan { status: pick_status(&mut g.rng), ulen: pick_ulen(&mut g.rng) };
            let tok = nbs[i].token;
            let chain = with_dev(|d| d.q.inflight.iter().find(|c| c.head == tok).cloned());
            let Some(chain) = chain else {
                g.c.fail(format!("device lost chain {}", tok));
                dead = true;
                continue;
            };
            let s = match with_dev(|d| d.serve(&chain, plan)) {
                Ok(s) => s,
                Err(e) => {
                    g.c.fail(format!("reference device could not serve chain {}: {}", tok, e));
                    dead = true;
                    continue;
                }
            };
            let (kind, sector, len) = (nbs[i].kind, nbs[i].sector, nbs[i].buf.len());
            let inr = g.in_range(sector, len);
            match kind {
                Kind::Read => {
                    g.check_served(&s, VIRTIO_BLK_T_IN, sector, None, len);
                    let exp = if s.status == 0 && inr { g.shadow[sector as usize * 512..sector as usize * 512 + len].to_vec() } else { vec![] };
                    nbs[i].done = Some((s.status, exp));
                }
                Kind::Write => {
                    let data = nbs[i].buf.clone();
                    g.check_served(&s, VIRTIO_BLK_T_OUT, sector, Some(&data), 0);
                    if s.status == 0 && inr {
                        g.shadow[sector as usize * 512..sector as usize * 512 + len].copy_from_slice(&data);
                    }
                    nbs[i].done = Some((s.status, vec![]));
                }
            }
            if s.status == 0 && !inr {
                g.c.fail("reference device accepted an out-of-range request (harness bug)");
            }
            used_order.push(tok);
            g.c.step(format!("blk dev tok={} {}", tok, dev_args(&s)), "ok");
            g.c.tag(format!("status={}", if s.status < 4 { s.status.to_string() } else { "other".into() }));
        } else if r < 58 {
            let p = blk.peek_used();
            g.c.step("blk peek", match p { None => "none".to_string(), Some(t) => format!("some {}", t) });
            if p != used_order.first().copied() {
                g.c.fail(format!("peek_used() = {:?}, the device's oldest unconsumed completion is {:?}", p, used_order.first()));
            }
        } else if r < 80 {
            // ---- complete: usually the request at the head of the used ring, sometimes another ----
            if nbs.is_empty() || (used_order.is_empty() && !g.rng.chance(1, 5)) {
                continue;
            }
            let wrong = g.rng.chance(1, 5);
            let i = if wrong || used_order.is_empty() {
                g.rng.below(nbs.len() as u64) as usize
            } else {
                nbs.iter().position(|n| n.token == used_order[0]).unwrap()
            };
            let tok = nbs[i].token;
            let before = nbs[i].buf.clone();
            let r = {
                let nb = &mut nbs[i];
                guarded(|| unsafe {
                    match nb.kind {
                        Kind::Read => blk.complete_read_blocks(tok, &nb.req, &mut nb.buf, &mut nb.resp),
                        Kind::Write => blk.complete_write_blocks(tok, &nb.req, &nb.buf, &mut nb.resp),
                    }
                })
            };
            let r = match r {
                Ok(r) => r,
                Err(p) => {
                    g.c.fail(format!("complete_* panicked: {}", p));
                    dead = true;
                    continue;
                }
            };
            let kind = nbs[i].kind;
            if kind == Kind::Read {
                // on a platform that shares in place the device's bytes are in the caller's buffer as
                // soon as the device wrote them: its contents are unspecified until the completion
                // has been consumed
                let ip = hal::with(|h| h.inplace);
                let unspecified = ip && matches!(r, Err(Error::WrongToken) | Err(Error::NotReady));
                g.c.step(
                    format!("blk complete_read tok={} len={}{}", tok, nbs[i].buf.len(), if ip { " ip=1" } else { "" }),
                    format!("res={} buf={}", res_name(&r), if unspecified { "-".to_string() } else { canon_bytes(&nbs[i].buf) }),
                );
            } else {
                g.c.step(format!("blk complete_write tok={}", tok), format!("res={}", res_name(&r)));
            }
            let is_head = used_order.first() == Some(&tok);
            if !is_head {
                // not next in ring order: must be refused and must not touch anything
                let want = if used_order.is_empty() { Error::NotReady } else { Error::WrongToken };
                if r != Err(want) {
                    g.c.fail(format!("complete of token {} which is not next in the used ring returned {} (expected {:?})", tok, res_name(&r), want));
                }
                if nbs[i].buf != before {
                    g.c.fail("a refused completion modified the caller's buffer");
                }
                g.c.tag(format!("refused-{:?}", want));
            } else {
                used_order.remove(0);
                let nb = nbs.remove(i);
                let (status, exp) = nb.done.clone().unwrap();
                g.check_result("completion", status, &r);
                if nb.resp.status() != <virtio_drivers::device::blk::RespStatus as zerocopy::FromBytes>::read_from_bytes(&[status]).unwrap() {
                    g.c.fail(format!("resp.status() is {:?}, the device wrote {} for this request", nb.resp.status(), status));
                }
                match nb.kind {
                    Kind::Read => {
                        if status == 0 {
                            if nb.buf != exp {
                                g.c.fail(format!("read of sector {} returned data that is not what the disk held for this request (token {})", nb.sector, tok));
                            } else {
                                g.ok_transfers += 1;
                            }
                        }
                    }
                    Kind::Write => {
                        if nb.buf != before {
                            g.c.fail("write completion modified the caller's data buffer");
                        }
                        if status == 0 {
                            g.ok_transfers += 1;
                        }
                    }
                }
                g.c.tag("completed");
            }
        } else {
            // ---- blocking operations: main stream only with nothing else in flight ----
            let stale = !used_order.is_empty();
            let busy = !nbs.is_empty();
            if busy && !(hostile && stale && g.rng.chance(1, 3)) {
                continue;
            }
            let plan = Plan { status: pick_status(&mut g.rng), ulen: pick_ulen(&mut g.rng) };
            arm(plan);
            match g.rng.below(10) {
                0..=3 => {
                    let mut len = g.pick_len();
                    if hostile && g.rng.chance(1, 5) {
                        len = *g.rng.pick(&[0usize, 7, 512 + 256]);
                    }
                    let sector = g.pick_sector(len / 512);
                    let mut buf = vec![FILL; len];
                    let r = guarded(|| blk.read_blocks(sector as usize, &mut buf));
                    let (served, late) = disarm();
                    let (tok, chain, devs) = describe(&served, &late);
                    let op = format!("blk read tok={} sector={} len={} {}", tok, sector, len, devs);
                    match r {
                        Err(_) => {
                            g.c.step(op, "panic");
                            g.c.tag("param-panic");
                            if len != 0 && len % 512 == 0 {
                                g.c.fail(format!("read_blocks panicked on a valid length {}", len));
                            }
                        }
                        Ok(r) => {
                            g.c.step(op, format!("chain={} res={} buf={}", chain, res_name(&r), canon_bytes(&buf)));
                            if let Some(s) = &served {
                                g.check_served(s, VIRTIO_BLK_T_IN, sector, None, len);
                                g.check_result("read_blocks", s.status, &r);
                                if s.status == 0 {
                                    let o = sector as usize * 512;
                                    if !g.in_range(sector, len) {
                                        g.c.fail("reference device accepted an out-of-range read (harness bug)");
                                    } else if buf != g.shadow[o..o + len] {
                                        g.c.fail(format!("read_blocks({}, {} bytes) returned data different from what was written there before", sector, len));
                                    } else {
                                        g.ok_transfers += 1;
                                    }
                                }
                            } else if stale && !late.is_empty() {
                                g.c.tag("blocking-with-stale-completion");
                                if r != Err(Error::WrongToken) {
                                    g.c.fail(format!("blocking read with an older completion at the head of the ring returned {}", res_name(&r)));
                                }
                                dead = true;
                            } else if r.is_ok() {
                                g.c.fail("read_blocks succeeded although no request reached the device");
                            }
                        }
                    }
                }
                4..=6 => {
                    let len = g.pick_len();
                    let sector = g.pick_sector(len / 512);
                    let data = g.rng.bytes(len);
                    let r = guarded(|| blk.write_blocks(sector as usize, &data));
                    let (served, late) = disarm();
                    let (tok, chain, devs) = describe(&served, &late);
                    let op = format!("blk write tok={} sector={} data={} {}", tok, sector, hex(&data), devs);
                    match r {
                        Err(_) => g.c.step(op, "panic"),
                        Ok(r) => {
                            g.c.step(op, format!("chain={} res={}", chain, res_name(&r)));
                            if let Some(s) = &served {
                                g.check_served(s, VIRTIO_BLK_T_OUT, sector, Some(&data), 0);
                                g.check_result("write_blocks", s.status, &r);
                                if s.status == 0 && g.in_range(sector, len) {
                                    let o = sector as usize * 512;
                                    g.shadow[o..o + len].copy_from_slice(&data);
                                    g.ok_transfers += 1;
                                }
                            } else if stale && !late.is_empty() {
                                g.c.tag("blocking-with-stale-completion");
                                dead = true;
                            } else if r.is_ok() {
                                g.c.fail("write_blocks succeeded although no request reached the device");
                            }
                        }
                    }
                }
                7..=8 => {
                    let r = guarded(|| blk.flush());
                    let (served, late) = disarm();
                    let (tok, chain, devs) = describe(&served, &late);
                    let op = format!("blk flush tok={} {}", tok, devs);
                    match r {
                        Err(p) => g.c.fail(format!("flush panicked: {}", p)),
                        Ok(r) => {
                            g.c.step(op, format!("chain={} res={}", chain, res_name(&r)));
                            if g.flush_negotiated {
                                if let Some(s) = &served {
                                    g.check_served(s, VIRTIO_BLK_T_FLUSH, 0, None, 0);
                                    g.check_result("flush", s.status, &r);
                                    if s.status == 0 {
                                        g.expected_flushes += 1;
                                    }
                                    g.c.tag("flush-sent");
                                } else if stale && !late.is_empty() {
                                    dead = true;
                                } else if !stale && late.is_empty() && r == Ok(()) {
                                    // each operation sends one request: with FLUSH negotiated a flush that
                                    // reports success must have reached the device
                                    g.c.fail("flush returned Ok although VIRTIO_BLK_F_FLUSH was negotiated and no flush request reached the device");
                                }
                            } else {
                                // property text: a flush is sent only when flush support was negotiated
                                if served.is_some() || !late.is_empty() {
                                    g.c.fail("a flush request reached the device although VIRTIO_BLK_F_FLUSH was not negotiated");
                                }
                                if r != Ok(()) {
                                    g.c.fail(format!("flush without the feature returned {}", res_name(&r)));
                                }
                                g.c.tag("flush-suppressed");
                            }
                        }
                    }
                }
                _ => {
                    let mut idb = [FILL; 20];
                    // sometimes a short id (NUL-terminated)
                    let idlen = g.rng.below(21) as usize;
                    with_dev(|d| {
                        for (i, b) in d.id.iter_mut().enumerate() {
                            *b = if i < idlen { b'A' + (i as u8) } else { 0 };
                        }
                    });
                    let r = guarded(|| blk.device_id(&mut idb));
                    let (served, late) = disarm();
                    let (tok, chain, devs) = describe(&served, &late);
                    let op = format!("blk id tok={} {}", tok, devs);
                    match r {
                        Err(p) => g.c.fail(format!("device_id panicked: {}", p)),
                        Ok(r) => {
                            let n = match &r { Ok(n) => n.to_string(), Err(_) => "-".into() };
                            let rr = r.clone().map(|_| ());
                            g.c.step(op, format!("chain={} res={} n={} buf={}", chain, res_name(&rr), n, canon_bytes(&idb)));
                            if let Some(s) = &served {
                                g.check_served(s, VIRTIO_BLK_T_GET_ID, 0, None, 20);
                                g.check_result("device_id", s.status, &rr);
                                if s.status == 0 {
                                    if r != Ok(idlen) {
                                        g.c.fail(format!("device_id returned {:?}, the device's id string has {} characters", r, idlen));
                                    }
                                    if idb[..idlen].iter().enumerate().any(|(i, b)| *b != b'A' + i as u8) {
                                        g.c.fail("device_id returned different bytes than the device supplied");
                                    }
                                    g.c.tag("id-ok");
                                }
                            } else if stale && !late.is_empty() {
                                dead = true;
                            }
                        }
                    }
                }
            }
            with_dev(|d| d.spin_plan = None);
        }
    }
    // device-side accounting against the model's idea of what is outstanding
    if !dead {
        let (inflight, _) = with_dev(|d| (d.q.inflight.len(), 0));
        g.c.step("blk outstanding", format!("{} pending={}", nbs.len(), inflight));
        if inflight + used_order.len() != nbs.len() {
            g.c.fail(format!("device holds {} requests + {} unconsumed completions, caller has {} outstanding", inflight, used_order.len(), nbs.len()));
        }
    }
    let (shadow, flushes, okt) = (std::mem::take(&mut g.shadow), g.expected_flushes, g.ok_transfers);
    drop(g);
    c.nontrivial = okt > 0;
    teardown(&mut c, blk, &shadow, flushes);
    drop(nbs);
    c
}

/// (token argument, device-side chain string, device arguments) of a blocking call
fn describe(served: &Option<Served>, late: &[Chain]) -> (String, String, String) {
    match served {
        Some(s) => (s.head.to_string(), s.chain.clone(), dev_args(s)),
        None => match late.last() {
            // submitted but never served (an older completion was in the way)
            Some(c) => (c.head.to_string(), chain_str(c).unwrap_or_else(|e| e), "ulen=0 wdata=- status=0".to_string()),
            None => ("-".into(), "-".into(), "ulen=0 wdata=- status=0".to_string()),
        },
    }
}

/// more than 65536 requests on one device: the free-running 16-bit ring indices wrap; every request
/// must still be matched with its completion (oracles only: the model would repeat itself 66000 times)
fn wrap_case(ctx: &Ctx, idx: usize, id: String) -> Case {
    let mut c = Case::new(id);
    let mut rng = ctx.case_rng("blk-wrap", idx);
    let offered = (1u64 << 32) | if idx % 2 == 1 { 1 << 28 } else { 0 } | if idx % 4 >= 2 { 1 << 29 } else { 0 };
    let Some((mut blk, _)) = setup(&mut c, &Setup { offered, cap_lo: 8, cap_hi: 0, nsect: 8 }) else { return c };
    c.tag("wrap");
    let plan = Plan { status: 0, ulen: None };
    let total = 66_000usize;
    for i in 0..total {
        let mut req = BlkReq::default();
        let mut resp = Box::new(BlkResp::default());
        let mut nbuf = vec![FILL; 512];
        let sector = rng.below(8) as usize;
        let tok = unsafe { blk.read_blocks_nb(sector, &mut req, &mut nbuf, &mut resp) };
        let new = with_dev(|d| d.poll());
        let (tok, ch) = match (tok, new.first()) {
            (Ok(t), Some(ch)) if ch.head == t => (t, ch.clone()),
            (t, _) => {
                c.fail(format!("request {}: read_blocks_nb returned {:?} and the device fetched {} chains", i, t.map_err(|e| format!("{:?}", e)), new.len()));
                break;
            }
        };
        if let Err(e) = with_dev(|d| d.serve(&ch, plan)) {
            c.fail(format!("request {}: reference device: {}", i, e));
            break;
        }
        if blk.peek_used() != Some(tok) {
            c.fail(format!("request {}: the device completed token {} but peek_used() = {:?} (ring indices are free-running 16-bit counters)", i, tok, blk.peek_used()));
            break;
        }
        let r = unsafe { blk.complete_read_blocks(tok, &req, &mut nbuf, &mut resp) };
        if r.is_err() {
            c.fail(format!("request {}: complete_read_blocks returned {:?} for a request the device completed with status OK", i, r));
            break;
        }
        if i % 4096 == 0 {
            crate::vsock_world::free_dead_bounces();
        }
    }
    c.nontrivial = c.oracle_failures.is_empty();
    drop(blk);
    DEV.with(|d| *d.borrow_mut() = None);
    for v in hal::with(|h| std::mem::take(&mut h.violations)) {
        c.fail(format!("ledger: {}", v));
    }
    c
}

/// every status byte × every operation, blocking and non-blocking (exhaustive over the byte)
fn status_case(ctx: &Ctx, status: usize, id: String) -> Case {
    let mut c = Case::new(id);
    let status = status as u8;
    let mut rng = ctx.case_rng("blk-status", status as usize);
    let offered = (1u64 << 9) | (1 << 32) | if status % 2 == 0 { 1 << 28 } else { 0 };
    let Some((mut blk, _)) = setup(&mut c, &Setup { offered, cap_lo: 8, cap_hi: 0, nsect: 8 }) else { return c };
    let mut g = Gen { c: &mut c, rng: rng.fork(), shadow: vec![0; 8 * 512], nsect: 8, max_sectors: 2, ok_transfers: 0, flush_negotiated: true, expected_flushes: 0 };
    let plan = Plan { status, ulen: None };
    // write
    let data = rng.bytes(512);
    arm(plan);
    let r = blk.write_blocks(3, &data);
    let (served, late) = disarm();
    let (tok, chain, devs) = describe(&served, &late);
    g.c.step(format!("blk write tok={} sector=3 data={} {}", tok, hex(&data), devs), format!("chain={} res={}", chain, res_name(&r)));
    if let Some(s) = &served {
        g.check_served(s, VIRTIO_BLK_T_OUT, 3, Some(&data), 0);
        g.check_result("write_blocks", s.status, &r);
        if s.status == 0 {
            g.shadow[3 * 512..4 * 512].copy_from_slice(&data);
        }
    } else {
        g.c.fail("write request did not reach the device");
    }
    // read
    let mut buf = vec![FILL; 512];
    arm(plan);
    let r = blk.read_blocks(3, &mut buf);
    let (served, late) = disarm();
    let (tok, chain, devs) = describe(&served, &late);
    g.c.step(format!("blk read tok={} sector=3 len=512 {}", tok, devs), format!("chain={} res={} buf={}", chain, res_name(&r), canon_bytes(&buf)));
    if let Some(s) = &served {
        g.check_served(s, VIRTIO_BLK_T_IN, 3, None, 512);
        g.check_result("read_blocks", s.status, &r);
        if s.status == 0 && buf != data {
            g.c.fail("read after write returned different data");
        }
    } else {
        g.c.fail("read request did not reach the device");
    }
    // flush
    arm(plan);
    let r = blk.flush();
    let (served, late) = disarm();
    let (tok, chain, devs) = describe(&served, &late);
    g.c.step(format!("blk flush tok={} {}", tok, devs), format!("chain={} res={}", chain, res_name(&r)));
    if let Some(s) = &served {
        g.check_served(s, VIRTIO_BLK_T_FLUSH, 0, None, 0);
        g.check_result("flush", s.status, &r);
        if s.status == 0 {
            g.expected_flushes += 1;
        }
    } else {
        g.c.fail("flush request did not reach the device although the feature was negotiated");
    }
    // id
    let mut idb = [FILL; 20];
    arm(plan);
    let r = blk.device_id(&mut idb);
    let (served, late) = disarm();
    let (tok, chain, devs) = describe(&served, &late);
    let n = match &r { Ok(n) => n.to_string(), Err(_) => "-".into() };
    let rr = r.clone().map(|_| ());
    g.c.step(format!("blk id tok={} {}", tok, devs), format!("chain={} res={} n={} buf={}", chain, res_name(&rr), n, canon_bytes(&idb)));
    if let Some(s) = &served {
        g.check_served(s, VIRTIO_BLK_T_GET_ID, 0, None, 20);
        g.check_result("device_id", s.status, &rr);
    }
    // non-blocking read with this status
    let mut req = Box::new(BlkReq::default());
    let mut resp = Box::new(BlkResp::default());
    let mut nbuf = vec![FILL; 1024];
    let tok = unsafe { blk.read_blocks_nb(2, &mut req, &mut nbuf, &mut resp) };
    let new = with_dev(|d| d.poll());
    match (tok, new.first()) {
        (Ok(tok), Some(ch)) if ch.head == tok => {
            g.c.step(format!("blk read_nb tok={} sector=2 len=1024", tok), format!("ok {} chain={}", tok, chain_str(ch).unwrap_or_else(|e| e)));
            match with_dev(|d| d.serve(ch, plan)) {
                Ok(s) => {
                    g.check_served(&s, VIRTIO_BLK_T_IN, 2, None, 1024);
                    g.c.step(format!("blk dev tok={} {}", tok, dev_args(&s)), "ok");
                    let r = unsafe { blk.complete_read_blocks(tok, &req, &mut nbuf, &mut resp) };
                    g.c.step(format!("blk complete_read tok={} len=1024", tok), format!("res={} buf={}", res_name(&r), canon_bytes(&nbuf)));
                    g.check_result("complete_read_blocks", s.status, &r);
                    if s.status == 0 && nbuf != g.shadow[1024..2048] {
                        g.c.fail("non-blocking read returned different data than the disk holds");
                    }
                }
                Err(e) => g.c.fail(format!("reference device: {}", e)),
            }
        }
        other => g.c.fail(format!("read_blocks_nb: {:?}", other.0)),
    }
    g.c.tag(format!("status-class={}", if status < 4 { status.to_string() } else { "other".into() }));
    let (shadow, fl) = (std::mem::take(&mut g.shadow), g.expected_flushes);
    drop(g);
    c.nontrivial = true;
    teardown(&mut c, blk, &shadow, fl);
    c
}

/// unit test of the oracles on hand-made good and bad observations (run on every invocation)
fn oracle_selftest() -> Vec<String> {
    let mut bad = vec![];
    let mut c = Case::new("selftest");
    {
        let mut g = Gen { c: &mut c, rng: Rng::new(1), shadow: vec![], nsect: 8, max_sectors: 1, ok_transfers: 0, flush_negotiated: false, expected_flushes: 0 };
        let good = Served {
            head: 0,
            chain: String::new(),
            dec: Decoded { type_: 0, reserved: 0, sector: 5, out_data: vec![], in_len: 512 },
            status: 0,
            ulen: 513,
            wdata: vec![],
            framing_errors: vec![],
        };
        g.check_served(&good, 0, 5, None, 512);
        g.check_result("t", 0, &Ok(()));
        g.check_result("t", 1, &Err(Error::IoError));
        g.check_result("t", 2, &Err(Error::Unsupported));
        g.check_result("t", 77, &Err(Error::IoError));
    }
    if !c.oracle_failures.is_empty() {
        bad.push(format!("oracle rejects a good observation: {:?}", c.oracle_failures));
    }
    let mut n = 0;
    for k in 0..6 {
        let mut c = Case::new("selftest");
        let mut g = Gen { c: &mut c, rng: Rng::new(1), shadow: vec![], nsect: 8, max_sectors: 1, ok_transfers: 0, flush_negotiated: false, expected_flushes: 0 };
        let mut s = Served {
            head: 0,
            chain: String::new(),
            dec: Decoded { type_: 0, reserved: 0, sector: 5, out_data: vec![], in_len: 512 },
            status: 0,
            ulen: 513,
            wdata: vec![],
            framing_errors: vec![],
        };
        match k {
            0 => s.dec.sector = 5 << 8,
            1 => s.dec.type_ = 1,
            2 => s.dec.in_len = 0,
            3 => s.dec.out_data = vec![1],
            4 => s.dec.reserved = 1,
            _ => {}
        }
        if k < 5 {
            g.check_served(&s, 0, 5, None, 512);
        } else {
            g.check_result("t", 2, &Err(Error::IoError));
            g.check_result("t", 0, &Err(Error::IoError));
            g.check_result("t", 9, &Ok(()));
        }
        if !c.oracle_failures.is_empty() {
            n += 1;
        }
    }
    if n != 6 {
        bad.push(format!("oracle accepted {} of 6 bad observations", 6 - n));
    }
    bad
}

pub fn run(ctx: &Ctx) -> (Vec<Case>, String, bool, BTreeMap<String, String>) {
    virtio_drivers::verif_hooks::set_spin_hook(Some(spin_hook));
    let n_main = ctx.tier.pick(320, 4000);
    let n_mal = ctx.tier.pick(80, 800);
    let mut all = crate::runner::par_cases(ctx, "C14", "blk", n_main, |i, id| structured(ctx, i, id, false));
    all.extend(crate::runner::par_cases(ctx, "C14", "blk-malformed", n_mal, |i, id| structured(ctx, i, id, true)));
    all.extend(crate::runner::par_cases(ctx, "C14", "blk-status", 256, |i, id| status_case(ctx, i, id)));
    all.extend(crate::runner::par_cases(ctx, "C14", "blk-wrap", ctx.tier.pick(2, 8), |i, id| wrap_case(ctx, i, id)));
    let mut st = Case::new(ctx.case_id("C14", "oracle-selftest", 0));
    if ctx.wants(&st.id) {
        for b in oracle_selftest() {
            st.fail(b);
        }
        all.push(st);
    }
    virtio_drivers::verif_hooks::set_spin_hook(None);
    // capacity under a configuration that changes while `new` reads it (C13's untorn stream, block
    // driver only, on the model, MMIO and PCI transports): the capacity must be one the device exposed
    all.extend(crate::runner::par_cases(ctx, "C14", "blk-capacity-untorn", 9, |i, id| crate::c13_config::consistent_case(ctx, (i % 3) * 5 + (i / 3) * 15, id)));
    // the capacity field read through device-configuration windows of every length around its end, MMIO
    // and PCI (C13's bounds stream): a read that ends exactly at the end of the window succeeds
    let mut b = crate::c13_config::bounds_cases_for(ctx, "C14", true);
    for c in b.iter_mut() {
        c.id = format!("C14-via-{}", c.id);
        c.tag("config-window");
    }
    all.extend(b);
    // negotiation (C08's construction stream, block driver only): only features the driver implements are
    // accepted — e.g. not IN_ORDER, under which a device may report a batch of requests with one used element
    let mut f8 = crate::c08_init::run(ctx).0;
    f8.retain(|c| c.steps.first().map(|(op, _)| op.contains(" drv=0 ")).unwrap_or(false));
    for c in f8.iter_mut() {
        c.oracle_failures.retain(|f| f.contains("does not implement"));
        c.id = format!("C14-via-{}", c.id);
        c.tag("negotiation");
    }
    all.extend(f8);
    let rule = "real VirtIOBlk on ModelTransport+LedgerHal (bouncing) against a spec-written reference block device with an in-memory disk. Stream `blk`: random feature sets (RO, FLUSH, INDIRECT, EVENT_IDX, VERSION_1, ACCESS_PLATFORM + unknown bits), capacity words, then 10..40 (quick) / 10..90 (thorough) operations: non-blocking reads/writes up to and beyond a queue-full (5 direct / 16 indirect), device completions of a randomly chosen pending request with a random status byte (0,1,2,3 biased, all 256 possible) and used length, peek_used, complete_* of the head or of a wrong token, blocking read/write/flush/device_id when idle; sectors in range, at the end of the disk, beyond it and anywhere in 64 bits; lengths 1..8 (24) sectors. Stream `blk-malformed`: the same plus invalid lengths (0, non-multiples of 512: panic expected) and blocking calls while an older completion is unconsumed (WrongToken). Stream `blk-status`: all 256 status bytes x {write, read, flush, id, non-blocking read} (complete enumeration of the status byte). Stream `blk-wrap`: 66000 non-blocking reads on one device (the 16-bit ring indices wrap), each must be matched with its completion. Stream `blk-capacity-untorn`: VirtIOBlk::new while the device replaces its configuration (bumping the generation) at every point / pair of points of the capacity read, on the model, MMIO and PCI transports: capacity() must be a value the device exposed under one generation. Plus C13's configuration-window bounds stream (MMIO, PCI) and the block-driver cases of C08's construction stream (accepted features within the implemented set). Non-trivial = at least one request completed with status OK and its data verified against the generator's shadow disk (capacity stream: a capacity was returned).".to_string();
    (all, rule, false, BTreeMap::new())
}
