//! C09: teardown and failed construction free each resource once, after quiescing.

use crate::c08_init::*;
use crate::hal;
use crate::proto::Case;
use crate::runner::Ctx;
use std::alloc::{GlobalAlloc, Layout, System};
use std::cell::{Cell, RefCell};
use std::collections::BTreeMap;

// ------------------------------------------------------------------------------------------
// allocator interposition: a heap block that contains a buffer still shared with the device
// (live entry of the HAL's share ledger) is being freed

pub struct WatchAlloc;

thread_local! {
    static WATCH_ON: Cell<bool> = const { Cell::new(false) };
    static FREES: RefCell<Vec<(u64, usize)>> = const { RefCell::new(Vec::new()) };
    static REPORTED: RefCell<Vec<usize>> = const { RefCell::new(Vec::new()) };
}

fn on_free(p: usize, size: usize) {
    // re-entrancy guard: everything below may allocate or free
    let _ = WATCH_ON.try_with(|w| w.set(false));
    let hit = hal::HAL.try_with(|h| {
        let Ok(h) = h.try_borrow() else { return 0 };
        let mut n = 0;
        let _ = REPORTED.try_with(|r| {
            if let Ok(mut r) = r.try_borrow_mut() {
                for (k, s) in h.shares.iter().enumerate() {
                    let o = s.orig as usize;
                    if s.live && o < p + size && p < o + s.len && !r.contains(&k) {
                        r.push(k);
                        n += 1;
                    }
                }
            }
        });
        n
    });
    if let Ok(n) = hit {
        if n > 0 {
            let t = hal::tick();
            let _ = FREES.try_with(|f| {
                if let Ok(mut f) = f.try_borrow_mut() {
                    f.push((t, n));
                }
            });
        }
    }
    let _ = WATCH_ON.try_with(|w| w.set(true));
}

// SAFETY: forwards to the system allocator; the hook only reads harness state.
unsafe impl GlobalAlloc for WatchAlloc {
    unsafe fn alloc(&self, l: Layout) -> *mut u8 {
        // SAFETY: same contract.
        unsafe { System.alloc(l) }
    }
    unsafe fn alloc_zeroed(&self, l: Layout) -> *mut u8 {
        // SAFETY: same contract.
        unsafe { System.alloc_zeroed(l) }
    }
    unsafe fn dealloc(&self, p: *mut u8, l: Layout) {
        if WATCH_ON.try_with(|w| w.get()).unwrap_or(false) {
            on_free(p as usize, l.size());
        }
        // SAFETY: same contract.
        unsafe { System.dealloc(p, l) }
    }
    unsafe fn realloc(&self, p: *mut u8, l: Layout, n: usize) -> *mut u8 {
        // SAFETY: same contract.
        unsafe { System.realloc(p, l, n) }
    }
}

#[global_allocator]
static GLOBAL: WatchAlloc = WatchAlloc;

/// switches the free-watch on or off for this thread; switching on forgets earlier reports
pub fn watch(on: bool) {
    if on {
        REPORTED.with(|r| r.borrow_mut().clear());
    }
    WATCH_ON.with(|w| w.set(on));
}

pub fn take_frees() -> Vec<(u64, usize)> {
    FREES.with(|f| std::mem::take(&mut *f.borrow_mut()))
}

pub fn run(_ctx: &Ctx) -> (Vec<Case>, String, bool, BTreeMap<String, String>) {
    (vec![], String::new(), false, BTreeMap::new())
}
