//! C09: teardown and failed construction free each resource once, after quiescing.

use crate::c08_init::*;
use crate::hal;
use crate::proto::Case;
use crate::runner::Ctx;
use std::alloc::{GlobalAlloc, Layout, System};
use std::cell::{Cell, RefCell};
use std::collections::BTreeMap;

// ------------------------------------------------------------------------------------------
// allocator interposition: a heap block that contains a buffer still shared with the device
// (live entry of the HAL's share ledger) is being freed

pub struct WatchAlloc;

thread_local! {
    /// fault injection: the next zeroed allocation with 16-byte alignment (an indirect descriptor table)
    /// on this thread fails
    static FAIL_NEXT_TABLE: Cell<bool> = const { Cell::new(false) };
    static WATCH_ON: Cell<bool> = const { Cell::new(false) };
    static FREES: RefCell<Vec<(u64, usize)>> = const { RefCell::new(Vec::new()) };
    static REPORTED: RefCell<Vec<usize>> = const { RefCell::new(Vec::new()) };
}

fn on_free(p: usize, size: usize) {
    // re-entrancy guard: everything below may allocate or free
    let _ = WATCH_ON.try_with(|w| w.set(false));
    let hit = hal::HAL.try_with(|h| {
        let Ok(h) = h.try_borrow() else { return 0 };
        let mut n = 0;
        let _ = REPORTED.try_with(|r| {
            if let Ok(mut r) = r.try_borrow_mut() {
                for (k, s) in h.shares.iter().enumerate() {
                    let o = s.orig as usize;
                    if s.live && o < p + size && p < o + s.len && !r.contains(&k) {
                        r.push(k);
                        n += 1;
                    }
                }
            }
        });
        n
    });
    if let Ok(n) = hit {
        if n > 0 {
            let t = hal::tick();
            let _ = FREES.try_with(|f| {
                if let Ok(mut f) = f.try_borrow_mut() {
                    f.push((t, n));
                }
            });
        }
    }
    let _ = WATCH_ON.try_with(|w| w.set(true));
}

/// Byte buffers (alignment 1: `Box<[u8; N]>`, `Vec<u8>`, strings) are handed out at **odd** addresses:
/// an allocator owes them no more than that, and bump/slab allocators of `no_std` kernels routinely do
/// it, while the host's malloc never does.  Code that silently relies on its byte buffers being 2-, 4- or
/// 8-aligned (zero-copy casts of receive buffers, …) behaves here as it would there.  The rule depends
/// on the layout only, so it is applied consistently for the life of the process.
#[inline]
fn odd(l: &Layout) -> bool {
    l.align() == 1 && l.size() > 0
}
#[inline]
fn outer(l: &Layout) -> Layout {
    // SAFETY: size + 1 cannot overflow isize for any allocation that can succeed; align 2 is a power of two.
    unsafe { Layout::from_size_align_unchecked(l.size() + 1, 2) }
}

// SAFETY: forwards to the system allocator (byte buffers: one byte into an even-aligned block one byte
// larger); the hook only reads harness state.
unsafe impl GlobalAlloc for WatchAlloc {
    unsafe fn alloc(&self, l: Layout) -> *mut u8 {
        if odd(&l) {
            // SAFETY: same contract, for the enclosing block.
            let p = unsafe { System.alloc(outer(&l)) };
            return if p.is_null() { p } else { unsafe { p.add(1) } };
        }
        // SAFETY: same contract.
        unsafe { System.alloc(l) }
    }
    unsafe fn alloc_zeroed(&self, l: Layout) -> *mut u8 {
        if l.align() == 16 && FAIL_NEXT_TABLE.try_with(|f| f.replace(false)).unwrap_or(false) {
            return std::ptr::null_mut();
        }
        if odd(&l) {
            // SAFETY: same contract, for the enclosing block.
            let p = unsafe { System.alloc_zeroed(outer(&l)) };
            return if p.is_null() { p } else { unsafe { p.add(1) } };
        }
        // SAFETY: same contract.
        unsafe { System.alloc_zeroed(l) }
    }
    unsafe fn dealloc(&self, p: *mut u8, l: Layout) {
        if WATCH_ON.try_with(|w| w.get()).unwrap_or(false) {
            on_free(p as usize, l.size());
        }
        if odd(&l) {
            // SAFETY: `p` was returned by `alloc`/`alloc_zeroed`/`realloc` above for this layout.
            unsafe { System.dealloc(p.sub(1), outer(&l)) };
            return;
        }
        // SAFETY: same contract.
        unsafe { System.dealloc(p, l) }
    }
    unsafe fn realloc(&self, p: *mut u8, l: Layout, n: usize) -> *mut u8 {
        if odd(&l) {
            if n == 0 {
                // not reachable through the std collections; keep the contract anyway
                return p;
            }
            // SAFETY: the enclosing block is resized in place or moved by the system allocator; its
            // contents (including the one leading pad byte) are preserved.
            let q = unsafe { System.realloc(p.sub(1), outer(&l), n + 1) };
            return if q.is_null() { q } else { unsafe { q.add(1) } };
        }
        // SAFETY: same contract.
        unsafe { System.realloc(p, l, n) }
    }
}

#[global_allocator]
static GLOBAL: WatchAlloc = WatchAlloc;

/// makes the next indirect-table allocation of this thread fail (returns whether one was still armed
/// when called with `false`, i.e. whether no such allocation happened)
pub fn fail_next_table(on: bool) -> bool {
    FAIL_NEXT_TABLE.with(|f| f.replace(on))
}

/// switches the free-watch on or off for this thread; switching on forgets earlier reports
pub fn watch(on: bool) {
    if on {
        REPORTED.with(|r| r.borrow_mut().clear());
    }
    WATCH_ON.with(|w| w.set(on));
}

pub fn take_frees() -> Vec<(u64, usize)> {
    FREES.with(|f| std::mem::take(&mut *f.borrow_mut()))
}

// ------------------------------------------------------------------------------------------
// oracles (written from the property text and virtio 1.x §2.1 / §3.1.1 / §4.2.2.2: the device is
// live on a queue from DRIVER_OK until the queue is disabled or the device is reset)

#[derive(Default)]
struct Live {
    driver_ok: bool,
    /// enabled queues ↦ DMA regions holding their three areas
    queues: BTreeMap<u16, Vec<usize>>,
}

fn region_of(addr: u64) -> usize {
    ((addr.wrapping_sub(hal::DMA_BASE)) / hal::DMA_STRIDE) as usize
}

/// walks the whole lifecycle (construction, use, drop)
pub fn oracle_quiesced(c: &mut Case, toks: &[Tok], transport_resets_on_drop: bool) {
    let mut st = Live::default();
    let note = if transport_resets_on_drop { "" } else { " [on a transport that does not reset the device when dropped]" };
    for (i, t) in toks.iter().enumerate() {
        match t {
            Tok::Status(0) => st = Live::default(),
            Tok::Status(v) => st.driver_ok = v & DRIVER_OK != 0,
            Tok::Dropped if transport_resets_on_drop => st = Live::default(),
            Tok::QueueSet { q, desc, drv, dev, .. } => {
                st.queues.insert(*q, vec![region_of(*desc), region_of(*drv), region_of(*dev)]);
            }
            Tok::QueueUnset(q) => {
                st.queues.remove(q);
            }
            Tok::Dealloc { k: Some(k), .. } => {
                if st.driver_ok {
                    for (q, rs) in &st.queues {
                        if rs.contains(k) {
                            c.fail(format!("event {}: dma_dealloc(D{}) while the device is live on queue {} (DRIVER_OK set, queue enabled, no reset){}", i, k, q, note));
                        }
                    }
                }
            }
            Tok::FreePosted(n) => {
                if st.driver_ok && !st.queues.is_empty() {
                    c.fail(format!("event {}: {} driver-owned buffer(s) still posted to the device freed while the device is live (queues {:?} enabled){}", i, n, st.queues.keys().collect::<Vec<_>>(), note));
                }
            }
            _ => {}
        }
    }
}

/// ledger: nothing leaked, nothing released twice or with different arguments
pub fn oracle_ledger(c: &mut Case, when: &str) {
    let live = hal::with(|h| h.live_dma());
    if live != 0 {
        c.fail(format!("{}: {} DMA region(s) never released", when, live));
    }
    for v in hal::with(|h| std::mem::take(&mut h.violations)) {
        c.fail(format!("ledger: {}", v));
    }
}

#[allow(dead_code)]
fn result_str(r: &Result<Result<Built<crate::mtrans::ModelTransport>, virtio_drivers::Error>, String>) -> String {
    match r {
        Ok(Ok(_)) => "ok".into(),
        Ok(Err(e)) => format!("err {}", err_name(e)),
        Err(_) => "err panic".into(),
    }
}

/// a short usage history with an obliging device; returns (frame-buffer region, pages) if one was set up
fn use_driver(c: &mut Case, b: &mut Built<crate::mtrans::ModelTransport>, st: &std::rc::Rc<RefCell<crate::mtrans::TState>>, rng: &mut crate::rng::Rng) -> Option<(usize, usize)> {
    arm_spin_guard();
    let n = rng.below(4);
    let mut fb = None;
    let word = match b {
        Built::Gpu(_) => 0x1100,
        Built::P9(_) => 16,
        _ => 0,
    };
    let _dev = install_device(st, word);
    let r = crate::runner::guarded(|| {
        let mut fb = None;
        for _ in 0..n {
            match b {
                Built::Blk(d) => {
                    let mut buf = [0u8; 512];
                    let _ = if rng.chance(1, 2) { d.read_blocks(rng.below(8) as usize, &mut buf) } else { d.flush() };
                }
                Built::Console(d) => {
                    let _ = d.send(b'a');
                    let _ = d.recv(true);
                }
                Built::Gpu(d) => {
                    let region = hal::with(|h| h.dma.len());
                    if fb.is_none() && d.change_resolution(64, 32).is_ok() {
                        fb = Some((region, 2));
                    }
                }
                Built::Input(d) => {
                    let _ = d.pop_pending_event();
                }
                Built::NetRaw(d) => {
                    let mut tx = [0u8; 64];
                    let _ = d.send(&mut tx);
                }
                Built::Net(d) => {
                    let _ = d.can_recv();
                    let _ = d.receive().is_ok();
                }
                Built::Rng(d) => {
                    let mut buf = [0u8; 8];
                    let _ = d.request_entropy(&mut buf);
                }
                Built::Rtc(_) => {}
                Built::Socket(d) => {
                    let _ = d.poll(|_, _| Ok(None));
                }
                Built::Sound(d) => {
                    let _ = d.jacks();
                }
                Built::P9(d) => {
                    let mut resp = [0u8; 16];
                    let _ = d.request(&[1, 2, 3], &mut resp);
                }
            }
        }
        fb
    });
    st.borrow_mut().on_notify = None;
    match r {
        Ok(f) => fb = f,
        Err(p) => c.fail(format!("use panicked: {}", p)),
    }
    c.tag(format!("uses={}", n));
    fb
}

/// every oracle is fed a hand-made good and a hand-made bad trace
pub fn oracle_selftest(id: String) -> Case {
    let mut c = Case::new(id);
    let d0 = hal::DMA_BASE;
    let d1 = hal::DMA_BASE + hal::DMA_STRIDE;
    let qs = Tok::QueueSet { q: 0, size: 16, desc: d0, drv: d0 + 256, dev: d1 };
    let init = vec![Tok::Status(0), Tok::Status(3), Tok::ReadFeatures, Tok::WriteFeatures(0), Tok::Status(11), qs.clone(), Tok::Status(15)];
    let de = |k| Tok::Dealloc { k: Some(k), pages: 1, ap: false };
    let mut expect = |c: &mut Case, name: &str, tail: Vec<Tok>, resets: bool, bad: bool| {
        let mut t = init.clone();
        t.extend(tail);
        let mut probe = Case::new("probe");
        oracle_quiesced(&mut probe, &t, resets);
        if probe.oracle_failures.is_empty() == bad {
            c.fail(format!("oracle self-test `{}`: expected {} but the oracle said {:?}", name, if bad { "a failure" } else { "silence" }, probe.oracle_failures));
        }
    };
    expect(&mut c, "dealloc while live", vec![de(0)], true, true);
    expect(&mut c, "dealloc after queue_unset", vec![Tok::QueueUnset(0), de(0), de(1)], true, false);
    expect(&mut c, "dealloc after reset", vec![Tok::Status(0), de(1)], true, false);
    expect(&mut c, "dealloc after transport drop", vec![Tok::Dropped, de(1)], true, false);
    expect(&mut c, "dealloc after transport drop without reset", vec![Tok::Dropped, de(1)], false, true);
    expect(&mut c, "posted buffer freed while live", vec![Tok::FreePosted(3)], true, true);
    expect(&mut c, "posted buffer freed after unset", vec![Tok::QueueUnset(0), Tok::FreePosted(3)], true, false);
    // handshake oracle
    let mut hs = |c: &mut Case, name: &str, t: Vec<Tok>, bad: bool| {
        let mut probe = Case::new("probe");
        oracle_handshake(&mut probe, &t, 0, true);
        if probe.oracle_failures.is_empty() == bad {
            c.fail(format!("oracle self-test `{}`: expected {} but the oracle said {:?}", name, if bad { "a failure" } else { "silence" }, probe.oracle_failures));
        }
    };
    hs(&mut c, "good handshake", init.clone(), false);
    hs(&mut c, "notify before DRIVER_OK", vec![Tok::Status(0), Tok::Status(3), Tok::ReadFeatures, Tok::WriteFeatures(0), Tok::Status(11), qs.clone(), Tok::Notify(0), Tok::Status(15)], true);
    hs(&mut c, "queue after DRIVER_OK", vec![Tok::Status(0), Tok::Status(3), Tok::ReadFeatures, Tok::WriteFeatures(0), Tok::Status(11), Tok::Status(15), qs.clone()], true);
    hs(&mut c, "features after FEATURES_OK", vec![Tok::Status(0), Tok::Status(3), Tok::Status(11), Tok::ReadFeatures, Tok::WriteFeatures(0), qs.clone(), Tok::Status(15)], true);
    hs(&mut c, "unoffered feature accepted", vec![Tok::Status(0), Tok::Status(3), Tok::ReadFeatures, Tok::WriteFeatures(1 << 28), Tok::Status(11), qs.clone(), Tok::Status(15)], true);
    hs(&mut c, "no reset first", vec![Tok::Status(3), Tok::ReadFeatures, Tok::WriteFeatures(0), Tok::Status(11), qs.clone(), Tok::Status(15)], true);
    c.tag("oracle-selftest");
    c
}

pub struct Scenario {
    pub cfg: NewCfg,
    pub usage: bool,
}

pub fn one_case(sc: &Scenario, id: String, rng: crate::rng::Rng) -> Case {
    one_case_rec(sc, id, rng, true)
}

/// Construction on a device whose configuration space ends after `k` bytes, then drop: wherever in its
/// sequence a constructor reads the field that no longer fits, a failure must not release queue memory
/// while the device is live on the queue (oracles only; the model is not consulted).
pub fn trunc_case(d: Drv, k: usize, legacy: bool, all_features: bool, id: String, rng: crate::rng::Rng) -> Case {
    let sc = Scenario { cfg: NewCfg { d, offered: if all_features { u64::MAX & !(1 << 30) } else { F_VERSION_1 }, legacy, fail: 0, cfg: "ok", max: 65536, postfail: false }, usage: false };
    crate::c08_init::CFG_TRUNC.with(|c| c.set(Some(k)));
    let mut c = one_case_rec(&sc, id, rng, false);
    crate::c08_init::CFG_TRUNC.with(|c| c.set(None));
    c.tag(format!("config-cut-at-{}", k.min(64)));
    c.nontrivial = true;
    c
}

pub fn trunc_cases(ctx: &Ctx, prop: &str) -> Vec<Case> {
    let mut grid = vec![];
    for d in Drv::ALL {
        let n = d.config_ok().len();
        for k in 0..=n.min(40) {
            for legacy in [false, true] {
                for allf in [false, true] {
                    grid.push((d, k, legacy, allf));
                }
            }
        }
    }
    crate::runner::par_cases(ctx, prop, "config-cut", grid.len(), |i, id| trunc_case(grid[i].0, grid[i].1, grid[i].2, grid[i].3, id, ctx.case_rng("c09-cut", i)))
}

fn one_case_rec(sc: &Scenario, id: String, mut rng: crate::rng::Rng, record: bool) -> Case {
    let cfg = &sc.cfg;
    let mut c = Case::new(id);
    let (mut r, toks, st, mut mark) = construct_model(cfg);
    if record {
        c.step(cfg.op("new"), format!("{} => {}", toks_str(&toks), result_str(&r)));
    }
    c.tag(cfg.d.name());
    c.tag(if cfg.legacy { "legacy-layout" } else { "modern-layout" });
    let mut all = toks.clone();
    oracle_no_early_notify(&mut c, &toks);
    match &mut r {
        Err(p) => {
            c.fail(format!("{}::new panicked instead of returning an error: {}", cfg.d.name(), p));
        }
        Ok(Err(e)) => {
            c.tag(format!("failed:{}", err_name(e)));
            c.nontrivial = toks.iter().any(|t| matches!(t, Tok::Alloc { ok: true, .. }));
            let alloc_failed = toks.iter().any(|t| matches!(t, Tok::Alloc { ok: false, .. }));
            if alloc_failed && !matches!(e, virtio_drivers::Error::DmaError) {
                c.fail(format!("failure of DMA allocation {} reported as {:?}", cfg.fail, e));
            }
            // a constructor that failed owns nothing any more
            oracle_ledger(&mut c, "after failed construction");
            if st.borrow().queues.iter().any(|q| q.set) && st.borrow().status & DRIVER_OK != 0 {
                c.fail("failed construction left the device live on a queue");
            }
        }
        Ok(Ok(b)) => {
            c.nontrivial = true;
            if cfg.fail != 0 {
                c.tag("fail-beyond-last-allocation");
            }
            let mut fb = None;
            if sc.usage {
                fb = use_driver(&mut c, b, &st, &mut rng);
                let (tl, m) = model_log(&st.borrow(), mark);
                mark = m;
                let used = merged(tl);
                all.extend(used);
            }
            let (fbr, fbp) = fb.unwrap_or((0, 0));
            watch(true);
            let dr = crate::runner::guarded(|| drop(std::mem::replace(&mut r, Err(String::new()))));
            watch(false);
            if let Err(p) = dr {
                c.fail(format!("drop panicked: {}", p));
            }
            let (tl, _) = model_log(&st.borrow(), mark);
            let dropped = merged(tl);
            if record {
                c.step(format!("{} fbregion={} fbpages={}", cfg.op("drop"), fbr, fbp), toks_str(&dropped));
            }
            all.extend(dropped);
            oracle_ledger(&mut c, "after drop");
        }
    }
    oracle_quiesced(&mut c, &all, true);
    // on a PCI transport `queue_unset` does nothing (the crate's PciTransport cannot disable a queue): there
    // the reset at the transport's drop is the only thing that quiesces the device, so queue memory must
    // outlive the transport — the same history with the queue_unset calls taken out
    {
        let pci_like: Vec<Tok> = all.iter().filter(|t| !matches!(t, Tok::QueueUnset(_))).cloned().collect();
        let n0 = c.oracle_failures.len();
        oracle_quiesced(&mut c, &pci_like, true);
        for f in c.oracle_failures[n0..].iter_mut() {
            *f = format!("{} [on a transport whose queue_unset is a no-op, as PciTransport's]", f);
        }
    }
    // `Transport` does not oblige an implementation to reset on drop. All drivers except sound and
    // 9p (which have no `Drop` and rely on the transport, see Props/C09 `needs_reset_on_drop`)
    // disable their queues themselves, so for them the same must hold without the reset.
    if !matches!(cfg.d, Drv::Sound | Drv::P9) {
        oracle_quiesced(&mut c, &all, false);
    }
    c
}

/// construction with the k-th DMA allocation failing (k = 1..8) and drop, for every driver, both queue
/// layouts — on behalf of C07 (nothing released that was not allocated, nothing released twice)
pub fn fault_cases(ctx: &Ctx) -> Vec<Case> {
    let mut scen: Vec<Scenario> = vec![];
    for d in Drv::ALL {
        for legacy in [false, true] {
            for k in 1..=8usize {
                scen.push(Scenario { cfg: NewCfg { d, offered: F_VERSION_1 | F_INDIRECT, legacy, fail: k, cfg: "ok", max: 65536, postfail: false }, usage: false });
            }
        }
    }
    crate::runner::par_cases(ctx, "C07", "alloc-fault", scen.len(), |i, id| one_case(&scen[i], id, ctx.case_rng("c07-fault", i)))
}

pub fn run(ctx: &Ctx) -> (Vec<Case>, String, bool, BTreeMap<String, String>) {
    let mut scen: Vec<Scenario> = vec![];
    let words: Vec<u64> = {
        let mut r = ctx.case_rng("words", 0);
        let mut v = vec![0, u64::MAX, F_VERSION_1 | F_INDIRECT, F_ACCESS_PLATFORM | F_EVENT_IDX];
        for _ in 0..ctx.tier.pick(1, 6) {
            v.push(r.u64_biased());
        }
        v
    };
    let mk = |d, offered, legacy, fail, cfg, max, postfail| NewCfg { d, offered, legacy, fail, cfg, max, postfail };
    for d in Drv::ALL {
        for legacy in [false, true] {
            for &w in &words {
                // fault injection at every allocation, and two positions beyond the last one
                for k in 0..=10usize {
                    scen.push(Scenario { cfg: mk(d, w, legacy, k, "ok", 65536, false), usage: false });
                }
                // drop after a usage history (several histories per configuration)
                for _ in 0..ctx.tier.pick(3, 12) {
                    scen.push(Scenario { cfg: mk(d, w, legacy, 0, "ok", 65536, false), usage: true });
                }
                // configuration-space failures
                if d.reads_config() {
                    for m in ["missing", "short"] {
                        scen.push(Scenario { cfg: mk(d, w, legacy, 0, m, 65536, false), usage: false });
                    }
                    if d == Drv::P9 {
                        scen.push(Scenario { cfg: mk(d, w, legacy, 0, "zerotag", 65536, false), usage: false });
                    }
                }
                // queue refusals by the transport
                for max in [0u32, 1, 2, 4, 8, 16, 31] {
                    scen.push(Scenario { cfg: mk(d, w, legacy, 0, "ok", max, false), usage: false });
                }
                if d == Drv::Net {
                    scen.push(Scenario { cfg: mk(d, w, legacy, 0, "ok", 65536, true), usage: false });
                    scen.push(Scenario { cfg: mk(d, w, legacy, 3, "ok", 65536, true), usage: false });
                }
            }
        }
    }
    let selftest = oracle_selftest(ctx.case_id("C09", "oracle-selftest", 0));
    let mut cases = crate::runner::par_cases(ctx, "C09", "model", scen.len(), |i, id| one_case(&scen[i], id, ctx.case_rng("model", i)));
    let (mm, mmio_rule) = crate::c08_mmio::run_mmio_c09(ctx);
    cases.extend(mm);
    // blocking requests (every blocking driver operation goes through add_notify_wait_pop): the caller's
    // buffers, borrowed for the call, are not given back while the chain is still posted — in particular
    // not because the status register shows DEVICE_NEEDS_RESET while the device is still working
    let mut bl = crate::c05_notify::blocking_cases(ctx, "C09");
    for c in bl.iter_mut() {
        c.oracle_failures.retain(|f| !f.starts_with("[C"));
        c.id = format!("C09-via-{}", c.id);
        c.tag("blocking-requests");
    }
    cases.extend(bl);
    // configuration space cut off at every length: a constructor that fails on a configuration read must
    // not release queue memory while the device is live, wherever it performs that read
    cases.extend(trunc_cases(ctx, "C09"));
    // buffers a driver owns on behalf of non-blocking requests (sound: frames and status word of
    // pcm_xfer_nb) must not be released while their chain is posted: polls before completion and out
    // of order, with the heap watched during the call
    let mut snd = crate::c20_cmd::sound_cases(ctx, "C09", ctx.tier.pick(300, 5000));
    for c in snd.iter_mut() {
        // (a blocking transfer that returns while chunks of its own are still posted has released their status
        // words — they live in its stack frame — under a live device)
        c.oracle_failures.retain(|f| f.starts_with("[C09]") || f.contains("buffers still shared"));
        for f in c.oracle_failures.iter_mut() {
            if !f.starts_with("[C09]") {
                *f = format!("[C09] {} (their status words were in the returning call's frame)", f);
            }
        }
        c.id = format!("C09-via-{}", c.id);
        c.tag("driver-level");
    }
    cases.extend(snd);
    // GPU backing memory (driver-owned, referred to by the live device for as long as a resource has it
    // attached) is not handed back to the platform while attached, whatever the device answers
    let mut gpu = crate::c20_cmd::gpu_cases(ctx, "C09", ctx.tier.pick(300, 5000));
    for c in gpu.iter_mut() {
        c.oracle_failures.retain(|f| f.contains("while it is attached as backing") || f.contains("no longer allocated after"));
        for f in c.oracle_failures.iter_mut() {
            *f = format!("[C09] {}", f);
        }
        c.id = format!("C09-via-{}", c.id);
        c.tag("driver-level");
    }
    cases.extend(gpu);
    // the network driver's receive buffers (owned by the driver while posted): runt frames, buffers
    // held by the caller, recycling in any order
    let mut net = crate::c16_net::run(ctx).0;
    for c in net.iter_mut() {
        c.oracle_failures.retain(|f| f.starts_with("[C09]"));
        c.id = format!("C09-via-{}", c.id);
        c.tag("driver-level");
    }
    cases.extend(net);
    if ctx.wants(&selftest.id) {
        cases.push(selftest);
    }
    let rule = format!(
        "model transport + ledger HAL: 11 drivers x (modern, legacy) x feature words {{0, all ones, VERSION_1|INDIRECT, ACCESS_PLATFORM|EVENT_IDX, random}} x (DMA fault at allocation k = 0..10, i.e. every allocation of the run and beyond; config space missing / too short / 9p zero-length tag; transport max_queue_size in {{0,1,2,4,8,16,31}}; net receive buffers too short) and drop after construction / after a short random usage history with an obliging device; compared: ordered log of status writes, feature/queue calls, dma_alloc/dma_dealloc with region ids, queue_unset, transport drop, frees of heap blocks holding buffers still shared with the device; non-trivial = at least one DMA region was allocated. {} Plus the sound stream of C20 with the heap watched during pcm_xfer_ok (polled before completion and out of order): no driver-owned buffer may be freed while still shared.",
        mmio_rule
    );
    let mut extra = BTreeMap::new();
    extra.insert("x_excluded".into(), crate::proto::json_str("transport/x86_64 (hypercall transport) cannot execute in user space: not run"));
    (cases, rule, false, extra)
}
