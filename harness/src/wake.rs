//! Lost-notification oracle for the driver-level streams (C05 at the level of the device drivers).
//!
//! `ModelTransport` registers every queue a driver sets up.  At each device-visible store (the store
//! hook) the available index of every registered queue is read; when it has advanced, the device's
//! suppression state *at that moment* is sampled — `used.flags & NO_NOTIFY` without EVENT_IDX, the
//! `avail_event` word with it.  The specification then obliges the driver to notify if the flag is
//! clear, resp. if `avail_event` names the entry just made available (`vring_need_event` is true for
//! it whatever the driver's previous check point was — this is the weakest obligation, so batching
//! drivers are not flagged).  The obligation is discharged by `Transport::notify` for that queue; one
//! that is still open when the driver call has returned (the harness records a step) is a lost
//! notification: the device sleeps on work it was not told about.  Device models of the harness act
//! only in notify callbacks, spin hooks and explicit device steps, never between the index store
//! and the driver's `should_notify`, so the sampled state is the state the driver decided on.
//! Only entries made available while the device is live (DRIVER_OK) count: a device cannot be
//! notified before that, and streams that drive a bare queue never set it.

use crate::hal;
use std::cell::RefCell;

struct WQ {
    owner: usize,
    q: u16,
    size: u32,
    driver: u64,
    device: u64,
    event_idx: bool,
    last_idx: u16,
    pending: Option<String>,
}

struct Wake {
    enabled: bool,
    queues: Vec<WQ>,
    /// transports whose device is live (DRIVER_OK set): only a live device can be notified, so
    /// buffers posted during construction create no obligation at that time
    live: Vec<usize>,
}

thread_local! {
    static WAKE: RefCell<Wake> = RefCell::new(Wake { enabled: true, queues: vec![], live: vec![] });
}

/// new case: forget everything, oracle armed
pub fn reset() {
    WAKE.with(|w| {
        let mut w = w.borrow_mut();
        w.enabled = true;
        w.queues.clear();
        w.live.clear();
    });
}

/// queue-level harnesses call `should_notify` themselves: no driver is there to notify
pub fn disable() {
    WAKE.with(|w| {
        let mut w = w.borrow_mut();
        w.enabled = false;
        w.queues.clear();
    });
}

fn rd16(addr: u64) -> Option<u16> {
    hal::dev_read(addr, 2).ok().map(|b| u16::from_le_bytes([b[0], b[1]]))
}

pub fn register(owner: usize, q: u16, size: u32, driver: u64, device: u64, event_idx: bool) {
    WAKE.with(|w| {
        let mut w = w.borrow_mut();
        if !w.enabled {
            return;
        }
        w.queues.retain(|x| !(x.owner == owner && x.q == q));
        let last_idx = rd16(driver + 2).unwrap_or(0);
        w.queues.push(WQ { owner, q, size, driver, device, event_idx, last_idx, pending: None });
    });
}

pub fn unregister(owner: usize, q: Option<u16>) {
    WAKE.with(|w| w.borrow_mut().queues.retain(|x| !(x.owner == owner && q.map(|q| q == x.q).unwrap_or(true))));
}

/// `Transport::set_status`
pub fn status(owner: usize, status: u32) {
    WAKE.with(|w| {
        let mut w = w.borrow_mut();
        let was_live = w.live.contains(&owner);
        w.live.retain(|o| *o != owner);
        if status & 4 != 0 {
            w.live.push(owner);
            if !was_live && w.enabled {
                // DRIVER_OK: buffers the constructor posted beforehand (receive / event buffers) could
                // not be announced until now (a notification before DRIVER_OK is ignored by a
                // specification-following device); if the device has not suppressed notifications
                // it must be told once it is live
                for x in w.queues.iter_mut().filter(|x| x.owner == owner) {
                    let idx = match rd16(x.driver + 2) {
                        Some(v) => v,
                        None => continue,
                    };
                    x.last_idx = idx;
                    if idx == 0 {
                        continue;
                    }
                    let need = if x.event_idx {
                        rd16(x.device + 4 + 8 * x.size as u64).map(|ev| idx.wrapping_sub(ev).wrapping_sub(1) < idx).unwrap_or(false)
                    } else {
                        rd16(x.device).map(|f| f & 1 == 0).unwrap_or(false)
                    };
                    if need {
                        x.pending = Some(format!("queue {}: {} entries were made available before DRIVER_OK and the device (notifications not suppressed) has to be told once it is live", x.q, idx));
                    }
                }
            }
        }
    });
}

pub fn notified(owner: usize, q: u16) {
    WAKE.with(|w| {
        for x in w.borrow_mut().queues.iter_mut() {
            if x.owner == owner && x.q == q {
                x.pending = None;
            }
        }
    });
}

pub fn on_store() {
    WAKE.with(|w| {
        let mut w = match w.try_borrow_mut() {
            Ok(w) => w,
            Err(_) => return,
        };
        if !w.enabled {
            return;
        }
        let live = w.live.clone();
        for x in w.queues.iter_mut() {
            let idx = match rd16(x.driver + 2) {
                Some(v) => v,
                None => continue,
            };
            if idx == x.last_idx {
                continue;
            }
            x.last_idx = idx;
            if !live.contains(&x.owner) {
                continue;
            }
            if x.event_idx {
                // avail_event sits after the used ring: flags(2) idx(2) ring(8*size)
                if let Some(ev) = rd16(x.device + 4 + 8 * x.size as u64) {
                    if ev == idx.wrapping_sub(1) {
                        x.pending = Some(format!("queue {}: entry {} made available while the device's avail_event was {} (it asked to be notified of exactly this entry)", x.q, idx.wrapping_sub(1), ev));
                    }
                }
            } else if let Some(flags) = rd16(x.device) {
                if flags & 1 == 0 {
                    x.pending = Some(format!("queue {}: entry {} made available while used.flags = {} (notifications not suppressed)", x.q, idx.wrapping_sub(1), flags));
                }
            }
        }
    });
}

/// obligations still open now that the driver call has returned
pub fn take_lost() -> Vec<String> {
    WAKE.with(|w| {
        let mut w = match w.try_borrow_mut() {
            Ok(w) => w,
            Err(_) => return vec![],
        };
        let mut v = vec![];
        for x in w.queues.iter_mut() {
            if let Some(p) = x.pending.take() {
                v.push(format!("[C05] lost notification: {}; the driver call returned without Transport::notify({})", p, x.q));
            }
        }
        v
    })
}
