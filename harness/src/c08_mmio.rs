//! C08/C09 on the real `MmioTransport` (legacy and modern) over the custom safe-mmio bus.
use crate::proto::Case;
use crate::runner::Ctx;

pub fn run_mmio(_ctx: &Ctx) -> (Vec<Case>, String) {
    (vec![], String::new())
}

pub fn run_mmio_c09(_ctx: &Ctx) -> (Vec<Case>, String) {
    (vec![], String::new())
}
