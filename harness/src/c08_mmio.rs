//! C08/C09 on the real `MmioTransport` (legacy and modern) over the custom safe-mmio bus: a minimal
//! register-level virtio-mmio device (written from virtio 1.x §4.2.2 / §4.2.4) that folds the
//! register accesses back into transport-level calls as they happen.

use crate::c08_init::*;
use crate::c09_drop::{oracle_ledger, oracle_quiesced, watch};
use crate::hal;
use crate::mmio::{self, MmioDevice};
use crate::proto::Case;
use crate::runner::{Ctx, guarded};
use std::cell::RefCell;
use std::ptr::NonNull;
use std::rc::Rc;
use virtio_drivers::transport::mmio::{MmioTransport, VirtIOHeader};

const BASE: usize = 0x1000_0000;

/// The legacy interface registers a queue by a 32-bit page frame number, so DMA memory must lie
/// below 2^44; the ledger HAL's fake DMA addresses start at 2^46. `LowHal` is the ledger HAL seen
/// through a constant address offset for DMA regions (shares are untouched).
pub struct LowHal;
const DMA_SHIFT: u64 = hal::DMA_BASE - 0x0100_0000_0000;

// SAFETY: delegates to `LedgerHal`, whose contract it inherits; the offset is a bijection on DMA addresses.
unsafe impl virtio_drivers::Hal for LowHal {
    fn dma_alloc(pages: usize, direction: virtio_drivers::BufferDirection, access_platform: bool) -> (virtio_drivers::PhysAddr, NonNull<u8>) {
        let (p, v) = <hal::LedgerHal as virtio_drivers::Hal>::dma_alloc(pages, direction, access_platform);
        (if p == 0 { 0 } else { p - DMA_SHIFT }, v)
    }
    unsafe fn dma_dealloc(paddr: virtio_drivers::PhysAddr, vaddr: NonNull<u8>, pages: usize, access_platform: bool) -> i32 {
        // SAFETY: same contract.
        unsafe { <hal::LedgerHal as virtio_drivers::Hal>::dma_dealloc(paddr + DMA_SHIFT, vaddr, pages, access_platform) }
    }
    unsafe fn mmio_phys_to_virt(paddr: virtio_drivers::PhysAddr, size: usize) -> NonNull<u8> {
        // SAFETY: same contract.
        unsafe { <hal::LedgerHal as virtio_drivers::Hal>::mmio_phys_to_virt(paddr, size) }
    }
    unsafe fn share(buffer: NonNull<[u8]>, direction: virtio_drivers::BufferDirection, access_platform: bool) -> virtio_drivers::PhysAddr {
        // SAFETY: same contract.
        unsafe { <hal::LedgerHal as virtio_drivers::Hal>::share(buffer, direction, access_platform) }
    }
    unsafe fn unshare(paddr: virtio_drivers::PhysAddr, buffer: NonNull<[u8]>, direction: virtio_drivers::BufferDirection, access_platform: bool) {
        // SAFETY: same contract.
        unsafe { <hal::LedgerHal as virtio_drivers::Hal>::unshare(paddr, buffer, direction, access_platform) }
    }
}
const CONFIG_OFF: usize = 0x100;

#[derive(Clone, Copy, Default)]
struct QReg {
    num: u32,
    align: u32,
    pfn: u32,
    ready: u32,
    desc: u64,
    drv: u64,
    dev: u64,
}

pub struct DevState {
    version: u32,
    device_id: u32,
    offered: u64,
    driver_features: u64,
    dfsel: u32,
    drsel: u32,
    status: u32,
    qsel: u32,
    qmax: u32,
    queues: Vec<QReg>,
    config: Vec<u8>,
    /// between `queue_ready := 0` and the next queue selection: reads of queue_ready are the
    /// read-back loop of `queue_unset`, not a `queue_used` query
    disabling: bool,
    pub log: Vec<(u64, Tok)>,
    pub protocol_errors: Vec<String>,
}

struct Dev(Rc<RefCell<DevState>>);

fn set64(v: &mut u64, hi: bool, x: u32) {
    if hi {
        *v = (*v & 0xffff_ffff) | ((x as u64) << 32);
    } else {
        *v = (*v & !0xffff_ffff) | x as u64;
    }
}

impl DevState {
    fn q(&mut self) -> &mut QReg {
        let i = self.qsel as usize;
        if i >= self.queues.len() {
            self.queues.resize(i + 1, QReg::default());
        }
        &mut self.queues[i]
    }
    fn ev(&mut self, t: Tok) {
        self.log.push((hal::tick(), t));
    }
}

impl MmioDevice for Dev {
    fn read(&mut self, off: usize, width: u8) -> u64 {
        let mut s = self.0.borrow_mut();
        if off >= CONFIG_OFF {
            s.ev(Tok::Cfg(true));
            let mut v = 0u64;
            for i in 0..width as usize {
                v |= (*s.config.get(off - CONFIG_OFF + i).unwrap_or(&0) as u64) << (8 * i);
            }
            return v;
        }
        if width != 4 {
            s.protocol_errors.push(format!("register {:#x} read with width {}", off, width));
        }
        match off {
            0x000 => 0x7472_6976,
            0x004 => s.version as u64,
            0x008 => s.device_id as u64,
            0x00c => 0x554d_4551,
            0x010 => {
                let hi = s.dfsel == 1;
                if hi {
                    s.ev(Tok::ReadFeatures);
                }
                (if hi { s.offered >> 32 } else { s.offered & 0xffff_ffff }) as u64
            }
            0x034 => {
                let q = s.qsel as u16;
                s.ev(Tok::MaxQueueSize(q));
                s.qmax as u64
            }
            0x040 => {
                let q = s.qsel as u16;
                s.ev(Tok::QueueUsed(q));
                s.q().pfn as u64
            }
            0x044 => {
                let q = s.qsel as u16;
                if !s.disabling {
                    s.ev(Tok::QueueUsed(q));
                }
                s.q().ready as u64
            }
            0x060 => 0,
            // a read of the status register is not part of the compared event list (harmless, unordered)
            0x070 => s.status as u64,
            0x0fc => {
                s.ev(Tok::Cfg(true));
                0
            }
            _ => {
                s.protocol_errors.push(format!("read of write-only / reserved register {:#x}", off));
                0
            }
        }
    }

    fn write(&mut self, off: usize, width: u8, value: u64) {
        let mut s = self.0.borrow_mut();
        let v = value as u32;
        if off >= CONFIG_OFF {
            s.ev(Tok::Cfg(true));
            for i in 0..width as usize {
                if let Some(b) = s.config.get_mut(off - CONFIG_OFF + i) {
                    *b = (value >> (8 * i)) as u8;
                }
            }
            return;
        }
        if width != 4 {
            s.protocol_errors.push(format!("register {:#x} written with width {}", off, width));
        }
        match off {
            0x014 => s.dfsel = v,
            0x024 => s.drsel = v,
            0x020 => {
                let hi = s.drsel == 1;
                let mut f = s.driver_features;
                set64(&mut f, hi, v);
                s.driver_features = f;
                if hi {
                    s.ev(Tok::WriteFeatures(f));
                }
            }
            0x028 => s.ev(Tok::PageSize(v)),
            0x030 => {
                s.qsel = v;
                s.disabling = false;
            }
            0x038 => s.q().num = v,
            0x03c => s.q().align = v,
            0x040 => {
                if s.version != 1 {
                    s.protocol_errors.push("legacy QueuePFN written on a modern device".into());
                }
                s.q().pfn = v;
                let q = s.qsel as u16;
                if v != 0 && s.q().align != 4096 {
                    // QueueAlign is a per-queue register (and cleared with the queue): the driver lays the
                    // used ring out at the next 4096-byte boundary, so that is what this queue must have
                    // been told when its page frame is registered
                    let al = s.q().align;
                    for tag in ["C02", "C04", "C06"] {
                        s.protocol_errors.push(format!("[{}] legacy QueuePFN registered for queue {} while the device's QueueAlign for that queue is {}: the device places the used ring elsewhere than the driver", tag, q, al));
                    }
                }
                if v == 0 {
                    s.q().align = 0;
                    s.q().num = 0;
                }
                if v != 0 {
                    // legacy layout (§2.7.2 legacy): descriptors, available ring, padding to
                    // QueueAlign, used ring
                    let r = *s.q();
                    let n = r.num as u64;
                    let desc = v as u64 * 4096;
                    let drv = desc + 16 * n;
                    let al = r.align.max(1) as u64;
                    let dev = (drv + 6 + 2 * n + al - 1) / al * al;
                    s.q().desc = desc;
                    s.q().drv = drv;
                    s.q().dev = dev;
                    s.ev(Tok::QueueSet { q, size: r.num, desc: desc + DMA_SHIFT, drv: drv + DMA_SHIFT, dev: dev + DMA_SHIFT });
                } else {
                    s.ev(Tok::QueueUnset(q));
                }
            }
            0x044 => {
                if s.version != 2 {
                    s.protocol_errors.push("QueueReady written on a legacy device".into());
                }
                s.q().ready = v;
                let q = s.qsel as u16;
                if v != 0 {
                    let r = *s.q();
                    s.ev(Tok::QueueSet { q, size: r.num, desc: r.desc + DMA_SHIFT, drv: r.drv + DMA_SHIFT, dev: r.dev + DMA_SHIFT });
                } else {
                    s.disabling = true;
                    s.ev(Tok::QueueUnset(q));
                }
            }
            0x050 => s.ev(Tok::Notify(v as u16)),
            0x064 => {}
            0x070 => {
                s.status = v;
                if v == 0 {
                    for q in s.queues.iter_mut() {
                        *q = QReg::default();
                    }
                }
                s.ev(Tok::Status(v));
            }
            0x080 => { let mut x = s.q().desc; set64(&mut x, false, v); s.q().desc = x; }
            0x084 => { let mut x = s.q().desc; set64(&mut x, true, v); s.q().desc = x; }
            0x090 => { let mut x = s.q().drv; set64(&mut x, false, v); s.q().drv = x; }
            0x094 => { let mut x = s.q().drv; set64(&mut x, true, v); s.q().drv = x; }
            0x0a0 => { let mut x = s.q().dev; set64(&mut x, false, v); s.q().dev = x; }
            0x0a4 => { let mut x = s.q().dev; set64(&mut x, true, v); s.q().dev = x; }
            _ => s.protocol_errors.push(format!("write to read-only / reserved register {:#x}", off)),
        }
    }
}

fn take_log(st: &Rc<RefCell<DevState>>) -> Vec<Tok> {
    let l = std::mem::take(&mut st.borrow_mut().log);
    let _ = mmio::take_trace();
    merged(l)
}

/// what the register trace cannot show of the canonical event list
fn mmio_filter(legacy: bool, t: Vec<Tok>) -> Vec<Tok> {
    let _ = legacy;
    t
}

fn mmio_case(d: Drv, offered: u64, version: u32, fail: usize, id: String, prop: &str) -> Case {
    let mut c = Case::new(id);
    let legacy = version == 1;
    hal::reset();
    mmio::reset();
    mmio::with(|b| b.budget = 200_000);
    let config = d.config_ok();
    let st = Rc::new(RefCell::new(DevState {
        version,
        device_id: d.device_type() as u32,
        offered,
        driver_features: 0,
        dfsel: 0,
        drsel: 0,
        status: 0,
        qsel: 0,
        qmax: 1024,
        queues: vec![],
        config: config.clone(),
        disabling: false,
        log: vec![],
        protocol_errors: vec![],
    }));
    mmio::register(BASE, CONFIG_OFF + config.len(), "virtio-mmio", Box::new(Dev(st.clone())));
    // SAFETY: the address is fake and never dereferenced: every access goes to the custom
    // safe-mmio backend, which serves the region registered above.
    let t = guarded(|| unsafe { MmioTransport::new(NonNull::new(BASE as *mut VirtIOHeader).unwrap(), CONFIG_OFF + config.len()) });
    let t: MmioTransport<'static> = match t {
        Ok(Ok(t)) => t,
        other => {
            c.fail(format!("MmioTransport::new failed: {:?}", other.map(|r| r.map(|_| ()))));
            return c;
        }
    };
    let _ = take_log(&st);
    hal::with(|h| h.fail_alloc_at = fail);
    watch(true);
    let mut r = guarded(|| build_with::<_, LowHal>(d, t, NET_BUF_LEN));
    watch(false);
    hal::with(|h| h.fail_alloc_at = 0);
    let toks = mmio_filter(legacy, take_log(&st));
    let res = match &r {
        Ok(Ok(_)) => "ok".to_string(),
        Ok(Err(e)) => format!("err {}", err_name(e)),
        Err(_) => "err panic".to_string(),
    };
    let cfg = NewCfg { d, offered, legacy, fail, cfg: "ok", max: 1024, postfail: false };
    c.step(format!("{} view=mmio", cfg.op("new")), format!("{} => {}", toks_str(&toks), res));
    c.tag(format!("{}-mmio-v{}", d.name(), version));
    let mut all = toks.clone();
    oracle_no_early_notify(&mut c, &toks);
    match &mut r {
        Err(p) => c.fail(format!("{}::new panicked on MmioTransport: {}", d.name(), p)),
        Ok(Err(e)) => {
            c.nontrivial = toks.iter().any(|t| matches!(t, Tok::Alloc { ok: true, .. }));
            if toks.iter().any(|t| matches!(t, Tok::Alloc { ok: false, .. })) && !matches!(e, virtio_drivers::Error::DmaError) {
                c.fail(format!("failure of DMA allocation {} reported as {:?}", fail, e));
            }
            oracle_ledger(&mut c, "after failed construction");
        }
        Ok(Ok(_)) => {
            c.nontrivial = true;
            // C04: every queue address the device was given lies in live DMA memory obtained from
            // the platform (in particular its upper and lower halves belong to the same address)
            for (qi, q) in st.borrow().queues.iter().enumerate() {
                let areas: Vec<(&str, u64)> = if legacy {
                    if q.pfn == 0 { vec![] } else { vec![("queue page frame", q.pfn as u64 * 4096)] }
                } else if q.ready != 0 {
                    vec![("descriptor area", q.desc), ("driver area", q.drv), ("device area", q.dev)]
                } else {
                    vec![]
                };
                for (nm, a) in areas {
                    if hal::translate(a + DMA_SHIFT, 2).is_err() {
                        // the same fact is a violation of C02 (the device reads the ring elsewhere), C04 (an
                        // address not obtained from the platform) and C06 (the registered area is not the
                        // allocated one): one failure per check, each check keeps its own
                        for tag in ["C02", "C04", "C06"] {
                            c.fail(format!("[{}] queue {}: the {} address {:#x} written to the device registers was not obtained from dma_alloc ({})", tag, qi, nm, a, hal::with(|h| h.canon_addr(a + DMA_SHIFT))));
                        }
                    }
                }
            }
            if prop == "C08" {
                oracle_handshake(&mut c, &toks, offered, !legacy);
                crate::c08_init::oracle_features(&mut c, d, &toks);
                oracle_flags(&mut c, &toks);
            }
            watch(true);
            let dr = guarded(|| drop(std::mem::replace(&mut r, Err(String::new()))));
            watch(false);
            if let Err(p) = dr {
                c.fail(format!("drop panicked: {}", p));
            }
            let dropped = mmio_filter(legacy, take_log(&st));
            c.step(format!("{} view=mmio fbregion=0 fbpages=0", cfg.op("drop")), toks_str(&dropped));
            all.extend(dropped);
            oracle_ledger(&mut c, "after drop");
            if st.borrow().status != 0 {
                c.fail("MmioTransport dropped without resetting the device");
            }
        }
    }
    // the reset at drop is visible as a status write of 0
    oracle_quiesced(&mut c, &all, true);
    for e in st.borrow().protocol_errors.iter() {
        if e.starts_with("[C") {
            c.fail(e.clone());
        } else {
            c.fail(format!("virtio-mmio device: {}", e));
        }
    }
    for v in mmio::with(|b| std::mem::take(&mut b.violations)) {
        c.fail(format!("mmio bus: {}", v));
    }
    c
}

fn words(ctx: &Ctx, stream: &str) -> Vec<u64> {
    let mut r = ctx.case_rng(stream, 0);
    let mut v = vec![0, u64::MAX, F_VERSION_1, F_VERSION_1 | F_INDIRECT | F_EVENT_IDX, F_ACCESS_PLATFORM | F_VERSION_1, 0xffff_ffff];
    for _ in 0..ctx.tier.pick(2, 24) {
        v.push(r.u64_biased());
    }
    v
}

pub fn run_mmio(ctx: &Ctx) -> (Vec<Case>, String) {
    let mut grid = vec![];
    for d in Drv::ALL {
        for version in [1u32, 2] {
            for w in words(ctx, "mmio-words") {
                // a legacy device has no VERSION_1 bit to offer (§4.2.4: legacy interface)
                let w = if version == 1 { w & !F_VERSION_1 } else { w };
                grid.push((d, w, version));
            }
        }
    }
    let cases = crate::runner::par_cases(ctx, "C08", "mmio", grid.len(), |i, id| mmio_case(grid[i].0, grid[i].1, grid[i].2, 0, id, "C08"));
    (cases, "real MmioTransport (legacy version 1 and modern version 2) over a register-level emulated virtio-mmio device on the custom safe-mmio bus: 11 drivers x 2 versions x feature words (boundary + random; legacy devices never offer VERSION_1); register accesses folded back to status / feature / queue / notify calls as they happen and compared with the model's event list as seen through the MMIO registers (requires_legacy_layout invisible, page size only on legacy, transport drop = status write 0). PciTransport is not run by this check.".into())
}

pub fn run_mmio_c09(ctx: &Ctx) -> (Vec<Case>, String) {
    let mut grid = vec![];
    for d in Drv::ALL {
        for version in [1u32, 2] {
            for w in [0u64, u64::MAX, F_ACCESS_PLATFORM | F_VERSION_1] {
                let w = if version == 1 { w & !F_VERSION_1 } else { w };
                for k in 0..=9usize {
                    grid.push((d, w, version, k));
                }
            }
        }
    }
    let _ = ctx;
    let cases = crate::runner::par_cases(ctx, "C09", "mmio", grid.len(), |i, id| mmio_case(grid[i].0, grid[i].1, grid[i].2, grid[i].3, id, "C09"));
    (cases, "real MmioTransport (legacy and modern) over the register-level emulated device: 11 drivers x 2 versions x 3 feature words x DMA fault at allocation k = 0..9, construction then drop; same comparison and oracles on the folded register trace (the reset at drop is the status write of 0). PciTransport is not run by this check.".into())
}
